(* Props/C08.v -- stub, to be filled *)
