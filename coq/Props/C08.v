(* Props/C08.v -- pinned statements of property C08 (generated Rust carries the whole model).

   PARTIAL: what is proved is the core of the invertibility argument -- the attribute TYPE sub-language: every type the
   generator can print into `#[asn(..)]` (the image of RustType::into_asn: boolean, null, integer ranges incl.
   negative numbers and min/max, the five character string kinds, octet_string, bit_string, every size form,
   optional(..), default(.., literal), sequence_of / set_of with and without size, complex(Name, tag(..)) with the four
   tag classes) is read back by the model of the macro's parser as the same type.
   Not covered by a theorem (tie / oracle of checks/C08.py only): the attribute level (tag(..), extensible_after(..),
   const(..)), the item level (struct / enum bodies, field and variant names), the composition with to_rust and
   to_rust_keep_names, the expansion constants; the lexing of the printed text by proc_macro2 is trusted.
   Excluded by hypothesis and refuted below (they are real deviations of the crate, found again by the oracle):
   half-open integer ranges, OCTET/BIT STRING default literals, complex(Name) without a tag. *)
From A1 Require Import Base.Res Front.Codegen Front.Attr Front.CodegenProofs.
From Coq Require Import String.
Local Open Scope N_scope.

Theorem C08_reparse_type_partial : forall t,
  wf_aty t -> parse_attr_type (S (depth t)) (print_ty t) = Ok t.
Proof. exact reparse_type. Qed.

(* the same inside a larger buffer: what the nested productions rely on (the rest starts with punctuation or is empty) *)
Theorem C08_reparse_type_in_context : forall t, wf_aty t -> forall fuel rest,
  (depth t < fuel)%nat -> rest_ok rest -> parse_ty fuel (print_ty t ++ rest) = Ok (t, rest).
Proof. exact reparse_ty. Qed.

(* INTEGER (1..MAX, ...) is printed as integer(1..max,...) and comes back as 1..i64::MAX *)
Theorem C08_refuted_half_open_range :
  parse_attr_type 1 (print_ty (AInt (Some 1%Z) None true)) = Ok (AInt (Some 1%Z) (Some I64_MAX) true) /\
  parse_attr_type 1 (print_ty (AInt None (Some 70000%Z) true)) = Ok (AInt (Some 0%Z) (Some 70000%Z) true) /\
  parse_attr_type 1 (print_ty (AInt None (Some 0%Z) true)) = Ok (AInt (Some I64_MIN) (Some 0%Z) true).
Proof. repeat split; vm_compute; reflexivity. Qed.

(* OCTET STRING DEFAULT '00'H is printed as default(octet_string, [0x00, ]): not a literal the macro reads *)
Theorem C08_refuted_octet_default :
  parse_attr_type 2 (print_ty (ADef (AOct SAny) (LOct [0]))) = Err E_SYN.
Proof. vm_compute. reflexivity. Qed.

(* a reference whose tag is unknown is printed as complex(Name); the parser insists on `, tag(..)` *)
Theorem C08_refuted_untagged_complex :
  parse_attr_type 1 (print_ty (ARef (codes "External") None)) = Err E_SYN.
Proof. vm_compute. reflexivity. Qed.

(* non-vacuity: a deep well-formed type using most productions *)
Definition sample : aty :=
  ADef (AOpt (ASeqOf (ASetOf (AInt (Some (-5)%Z) (Some 5%Z) true) (SRange 1 4 true)) (SFix 2 false)))
       (LEnum (codes "Colour") (codes "DarkBlue")).
Example C08_nonvacuous : wf_aty sample /\ parse_attr_type (S (depth sample)) (print_ty sample) = Ok sample.
Proof.
  split; [|vm_compute; reflexivity].
  cbn [sample wf_aty wf_lit wf_size]. repeat split; try reflexivity; try (vm_compute; intros H; discriminate H); vm_compute; intros H; discriminate H.
Qed.

Example C08_nonvacuous_ref :
  wf_aty (AOpt (ARef (codes "Other") (Some (TApplication 7)))) /\ wf_aty (AStr (SRange 0 255 false) Ia5) /\ wf_aty (ABits SAny).
Proof. cbn [wf_aty wf_size]. repeat split; try reflexivity; vm_compute; intros H; discriminate H. Qed.

Print Assumptions C08_reparse_type_partial.
Print Assumptions C08_reparse_type_in_context.
Print Assumptions C08_refuted_half_open_range.
Print Assumptions C08_refuted_octet_default.
Print Assumptions C08_refuted_untagged_complex.
