(* Props/C08.v -- pinned statements of property C08 (generated Rust carries the whole model).

   PARTIAL: what is proved is the core of the invertibility argument -- the attribute TYPE sub-language: every type the
   generator can print into `#[asn(..)]` (the image of RustType::into_asn: boolean, null, integer ranges incl.
   negative numbers and min/max, the five character string kinds, octet_string, bit_string, every size form,
   optional(..), default(.., literal), sequence_of / set_of with and without size, complex(Name, tag(..)) with the four
   tag classes) is read back by the model of the macro's parser as the same type.
   Not covered by a theorem (tie / oracle of checks/C08.py only): the attribute level (tag(..), extensible_after(..),
   const(..)), the item level (struct / enum bodies, field and variant names), the composition with to_rust and
   to_rust_keep_names, the expansion constants; the lexing of the printed text by proc_macro2 is trusted.
   Excluded by hypothesis and refuted below (they are real deviations of the crate, found again by the oracle):
   half-open integer ranges (F08-7), OCTET/BIT STRING default literals (F08-1), complex(Name) without a tag (F08-3)
   -- [Known_C08_attr] --; at item level extensible_after(..) naming an escaped field (F08-2, [Known_C08_ext_escaped]) and
   the constants into_asn drops ([Known_C08_consts_dropped]: named bits of a BIT STRING, F08-15
   bitstring_constants_lost_on_reparse, and named numbers of an INTEGER below default(..), F08-21
   default_integer_constants_lost_on_reparse -- into_asn looks through optional(..) only (Type::no_optional_mut));
   both witnessed by C08_refuted_consts_dropped.
   Named numbers of an OPTIONAL component (and, on the re-parse side, of an extension addition, which to_rust wraps in
   Option) used to be dropped by Context::to_rust_constants, which saw Type::Optional: repaired by /repo e572296 (the
   Optional arm recurses).  Pinned positively as C08_optional_constants_kept; Default(..) still answers none (F08-21). *)
From A1 Require Front.IntTy.
From A1 Require Import Base.Res Gen.Keywords Front.Codegen Front.Attr Front.AttrItem Front.CodegenProofs Front.AttrItemProofs Front.Descr Front.DescrProofs.
From Coq Require Import String.
Local Open Scope N_scope.

Theorem C08_reparse_type_partial : forall t,
  wf_aty t -> parse_attr_type (S (depth t)) (print_ty t) = Ok t.
Proof. exact reparse_type. Qed.

(* the same inside a larger buffer: what the nested productions rely on (the rest starts with punctuation or is empty) *)
Theorem C08_reparse_type_in_context : forall t, wf_aty t -> forall fuel rest,
  (depth t < fuel)%nat -> rest_ok rest -> parse_ty fuel (print_ty t ++ rest) = Ok (t, rest).
Proof. exact reparse_ty. Qed.

(* INTEGER (1..MAX, ...) is printed as integer(1..max,...) and comes back as 1..i64::MAX *)
Theorem C08_refuted_half_open_range :
  parse_attr_type 1 (print_ty (AInt (Some 1%Z) None true)) = Ok (AInt (Some 1%Z) (Some I64_MAX) true) /\
  parse_attr_type 1 (print_ty (AInt None (Some 70000%Z) true)) = Ok (AInt (Some 0%Z) (Some 70000%Z) true) /\
  parse_attr_type 1 (print_ty (AInt None (Some 0%Z) true)) = Ok (AInt (Some I64_MIN) (Some 0%Z) true).
Proof. repeat split; vm_compute; reflexivity. Qed.

(* OCTET STRING DEFAULT '00'H is printed as default(octet_string, [0x00, ]): not a literal the macro reads *)
Theorem C08_refuted_octet_default :
  parse_attr_type 2 (print_ty (ADef (AOct SAny) (LOct [0]))) = Err E_SYN.
Proof. vm_compute. reflexivity. Qed.

(* a reference whose tag is unknown is printed as complex(Name); the parser insists on `, tag(..)` *)
Theorem C08_refuted_untagged_complex :
  parse_attr_type 1 (print_ty (ARef (codes "External") None)) = Err E_SYN.
Proof. vm_compute. reflexivity. Qed.

(* non-vacuity: a deep well-formed type using most productions *)
Definition sample : aty :=
  ADef (AOpt (ASeqOf (ASetOf (AInt (Some (-5)%Z) (Some 5%Z) true) (SRange 1 4 true)) (SFix 2 false)))
       (LEnum (codes "Colour") (codes "DarkBlue")).
Example C08_nonvacuous : wf_aty sample /\ parse_attr_type (S (depth sample)) (print_ty sample) = Ok sample.
Proof.
  split; [|vm_compute; reflexivity].
  cbn [sample wf_aty wf_lit wf_size]. repeat split; try reflexivity; try (vm_compute; intros H; discriminate H); vm_compute; intros H; discriminate H.
Qed.

Example C08_nonvacuous_ref :
  wf_aty (AOpt (ARef (codes "Other") (Some (TApplication 7)))) /\ wf_aty (AStr (SRange 0 255 false) Ia5) /\ wf_aty (ABits SAny).
Proof. cbn [wf_aty wf_size]. repeat split; try reflexivity; vm_compute; intros H; discriminate H. Qed.

(* ================================================================== the whole attribute (Front/AttrItem.v)

   [print_attr] is RustCodeGenerator::asn_attribute as add_definition / add_struct / add_tuple_struct / add_data_enum call
   it (kind or type, tag(..), extensible_after(name), const(NAME(value), ..)); [parse_attr c] is AsnAttribute::<C>::parse
   for the four contexts proc_macro/mod.rs uses (c = CHeader: DefinitionHeader, CTransparent: fields of structs and tuple
   structs, CChoiceVariant, CEnumVariant).  Tied to the crate by op 3413 (printed tokens and the re-parsed attribute as
   parse_asn_definition shows it).

   [attr_in_model c a]: the parts are those the context admits (what the generator prints: no const on a header, no
   extensible_after on a field, neither on a variant), numbers fit i64 / usize, names are identifiers that are not
   keywords, a SIZE range has two different bounds, ENUMERATED default literals carry mangled names.
   [Known_C08_attr a]: the type part contains an OCTET/BIT STRING default literal (F08-1), a reference without tag (F08-3)
   or an integer range with exactly one bound (F08-7) -- refuted above. *)
Theorem C08_reparse_attribute : forall c a fuel,
  attr_in_model c a -> ~ Known_C08_attr a -> (attr_depth a < fuel)%nat ->
  parse_attr c fuel (print_attr a) = Ok a.
Proof. exact reparse_attribute_classes. Qed.

(* the same with the hypotheses folded into one predicate ([wf_attr] uses [wf_aty] of the type theorem) *)
Theorem C08_reparse_attribute_wf : forall c a fuel,
  wf_attr c a -> (attr_depth a < fuel)%nat -> parse_attr c fuel (print_attr a) = Ok a.
Proof. exact reparse_attribute. Qed.

(* item level (proc_macro/mod.rs): the header kind is recognised, and find_extensible_index finds the member
   extensible_after(..) names at its position -- for a struct outside F08-2 ([Known_C08_ext_escaped]: the name is one of
   the generator's KEYWORDS, so the field is emitted with a trailing underscore but named without it), when the emitted
   member names are pairwise different (C09's subject) *)
Theorem C08_header_kind : forall k, header_kind (hkind_name k) = Some k.
Proof. exact header_kind_name. Qed.

Theorem C08_ext_index_struct : forall k names i name,
  k = HSequence \/ k = HSet ->
  nth_error names i = Some name -> no_hyphen name -> ~ Known_C08_ext_escaped name ->
  NoDup (emitted_members k names) ->
  find_ext_index (Some name) (emitted_members k names) = Ok (Some i).
Proof. exact ext_index_struct. Qed.

Theorem C08_ext_index_enum : forall k names i name,
  k = HChoice \/ k = HEnumerated ->
  nth_error names i = Some name -> gen_variant_name name = name ->
  NoDup (emitted_members k names) ->
  find_ext_index (Some name) (emitted_members k names) = Ok (Some i).
Proof. exact ext_index_enum. Qed.

(* F08-2: SEQUENCE { type BOOLEAN, ... }: the attribute itself is read back, but no member is called `type` *)
Theorem C08_refuted_ext_escaped :
  let a := mk_attr (PHeader S_sequence) None [] (Some (codes "type")) in
  parse_attr CHeader 1 (print_attr a) = Ok a /\
  Known_C08_ext_escaped (codes "type") /\
  find_ext_index (a_ext a) (emitted_members HSequence [codes "type"]) = Err E_SYN.
Proof. cbv zeta. split; [|split]; vm_compute; reflexivity. Qed.

(* into_asn: what parse_asn_definition keeps of a field / variant attribute.  Outside [Known_C08_consts_dropped] (F08-15:
   named bits of a BIT STRING; F08-21: named numbers of an INTEGER below default(..)) everything is kept *)
Theorem C08_into_asn_keeps : forall t a,
  a_primary a = PType t -> ~ Known_C08_untagged_complex t -> ~ Known_C08_consts_dropped a ->
  (forall n g, t = ARef n g -> a_consts a = []) ->
  into_asn (match t with ARef n _ => n | _ => [] end) a = Some (a_tag a, t, a_consts a).
Proof. exact into_asn_keeps. Qed.

(* since /repo e572296 (S ::= SEQUENCE { a BOOLEAN, ..., b INTEGER { x(1) } (0..9) } and g INTEGER { c(3) } (0..9) OPTIONAL):
   the constants printed next to integer(..) or optional(integer(..)) survive print -> parse -> into_asn -> to_rust_constants *)
Theorem C08_optional_constants_kept : forall a t fuel,
  a_primary a = PType t -> wf_attr CTransparent a -> (attr_depth a < fuel)%nat -> is_integer (no_optional t) = true ->
  exists a', parse_attr CTransparent fuel (print_attr a) = Ok a' /\
             into_asn [] a' = Some (a_tag a, t, a_consts a) /\
             field_rust_constants t (a_consts a) = a_consts a.
Proof. exact optional_constants_kept. Qed.

(* ... but not below default(..), and never for a transparent definition whose type is not the INTEGER itself *)
Example C08_constants_not_kept :
  field_rust_constants (ADef (AInt (Some 0%Z) (Some 9%Z) false) (LInt 1%Z)) [(codes "A", 1%Z)] = [] /\
  tuple_rust_constants (AOpt (AInt None None false)) [(codes "A", 1%Z)] = [] /\
  field_rust_constants (AOpt (AOpt (AInt None None false))) [(codes "A", 1%Z)] = [(codes "A", 1%Z)].
Proof. repeat split; reflexivity. Qed.

Theorem C08_refuted_consts_dropped :
  let bits := mk_attr (PType (ABits (SFix 16 false))) None [(codes "FIRST", 0%Z)] None in
  let dflt := mk_attr (PType (ADef (AInt (Some 0%Z) (Some 9%Z) false) (LInt 1%Z))) None [(codes "A", 1%Z)] None in
  parse_attr CTransparent 2 (print_attr bits) = Ok bits /\ into_asn [] bits = Some (None, ABits (SFix 16 false), []) /\
  parse_attr CTransparent 2 (print_attr dflt) = Ok dflt /\
  into_asn [] dflt = Some (None, ADef (AInt (Some 0%Z) (Some 9%Z) false) (LInt 1%Z), []).
Proof. cbv zeta. split; [|split; [|split]]; vm_compute; reflexivity. Qed.

(* non-vacuity: a header with every part, a field with every part, a variant *)
Definition sample_header : attr := mk_attr (PHeader S_choice) (Some (TApplication 3)) [] (Some (codes "DarkBlue")).
Definition sample_field : attr :=
  mk_attr (PType (AOpt (AInt (Some (-5)%Z) (Some 5%Z) true))) (Some (TContext 2))
          [(codes "LOW", (-5)%Z); (codes "HIGH_VALUE", 5%Z)] None.
Definition sample_variant : attr := mk_attr (PType (ARef (codes "Other") (Some (TPrivate 9)))) (Some (TPrivate 9)) [] None.

Lemma le_by_compute a b : N.leb a b = true -> a <= b.
Proof. apply N.leb_le. Qed.

Example C08_nonvacuous_attribute :
  (attr_in_model CHeader sample_header /\ ~ Known_C08_attr sample_header) /\
  (attr_in_model CTransparent sample_field /\ ~ Known_C08_attr sample_field) /\
  (attr_in_model CChoiceVariant sample_variant /\ ~ Known_C08_attr sample_variant) /\
  parse_attr CTransparent 2 (print_attr sample_field) = Ok sample_field.
Proof.
  assert (Hname : forall s, is_rust_ident s = true -> is_keyword s = false -> wf_name s) by (intros s H1 H2; split; assumption).
  split; [|split; [|split]].
  - split; [|intros H; exact H].
    split; [exact I|]. split; [split; [reflexivity | apply le_by_compute; vm_compute; reflexivity]|]. split; [reflexivity | exact I].
  - split.
    + split; [split; vm_compute; reflexivity|].
      split; [split; [reflexivity | apply le_by_compute; vm_compute; reflexivity]|]. split; [exact I|].
      split; [reflexivity|].
      constructor; [split; [apply Hname; vm_compute; reflexivity | vm_compute; reflexivity]|].
      constructor; [split; [apply Hname; vm_compute; reflexivity | vm_compute; reflexivity]|]. constructor.
    + intros [H|[H|H]]; exact H.
  - split.
    + split; [split; [apply Hname; vm_compute; reflexivity | apply le_by_compute; vm_compute; reflexivity]|].
      split; [split; [reflexivity | apply le_by_compute; vm_compute; reflexivity]|]. split; exact I.
    + intros [H|[H|H]]; exact H.
  - vm_compute. reflexivity.
Qed.

(* ================================================================== the descriptor constants (Front/Descr.v)

   [consts_of m name d] is what generate/walker.rs emits for the definition d of the Rust model, restricted to MIN / MAX /
   EXTENSIBLE, STD_VARIANT_COUNT / VARIANT_COUNT, EXTENDED_AFTER_FIELD / FIELD_COUNT / STD_OPTIONAL_FIELDS (TAG: property
   C16; NAME, DEFAULT_VALUE, MIN_T / MAX_T not modelled).  Tied to the crate by op 3414: for every definition op 3401
   re-parses, the model's answer on the dump of the re-parsed Rust model is compared with the constants extracted from
   the crate's expand() (checks/C08.py extra_checks).
   PARTIAL in one respect: the constants are related to the RUST MODEL of the definition (what the attribute parser
   re-derives, by the theorems above the same as what the generator started from); the step from the ASN.1 module to
   that model (to_rust) is covered by the oracle of checks/C08.py only (F08-9 .. F08-14 live there).

   C08_consts: whenever the expansion does not panic, the constants are those of the member constraint types followed by
   the definition's own, which are: for a SEQUENCE / SET (canonically sorted!) the marker position, the number of
   components and the number of OPTIONAL / DEFAULT components up to and including the one the marker follows
   ([count_opt (root_fields ext fs)], all components without marker); for a tuple struct one field, optional or not;
   for ENUMERATED / CHOICE the number of items, the number of root items (marker position + 1, all without marker) and
   whether there is a marker. *)
Theorem C08_consts : forall m name d cs,
  def_in_range d -> consts_of m name d = Ok cs ->
  exists fc, member_consts name d = Ok fc /\ cs = fc ++ own_consts_spec name d.
Proof. exact consts_spec. Qed.

(* the loop of write_sequence_constraint_insert_consts on its own: take_while(index <= ext or usize::MAX), filter, count *)
Theorem C08_std_optional_fields : forall ext fs,
  N.of_nat (List.length fs) <= USIZE_MAX ->
  opt_count_from 0 (ext_limit ext) fs = count_opt (root_fields ext fs).
Proof. exact opt_count_root. Qed.

(* sort_fields_canonically never moves an extension addition in front of a root component: the count is that of the root *)
Theorem C08_set_sort_keeps_root : forall fs e sorted,
  sort_fields fs (Some e) = Ok sorted ->
  opt_count_from 0 e sorted = opt_count_from 0 e fs /\ List.length sorted = List.length fs.
Proof. exact sort_keeps_root_count. Qed.

(* member constraint types: an INTEGER field (below OPTIONAL too) carries numbers::Constraint with exactly the bounds of its
   range, a string its size bounds; a MIN / MAX constant exists exactly when the bound does *)
Theorem C08_consts_integer : forall base fname tg k mn mx e,
  field_consts base fname tg (RInt k mn mx e) = Ok (bound_consts (constraint_type_name base fname) TrNumbers mn mx e) /\
  field_consts base fname tg (ROption (RInt k mn mx e)) = Ok (bound_consts (constraint_type_name base fname) TrNumbers mn mx e).
Proof. intros. split; reflexivity. Qed.

Theorem C08_consts_bounds : forall owner tr mn mx e c v,
  In (mk_dconst owner tr c v) (bound_consts owner tr mn mx e) <->
  (c = CMin /\ exists z, mn = Some z /\ v = VZ z) \/ (c = CMax /\ exists z, mx = Some z /\ v = VZ z) \/ (c = CExtensible /\ v = VB e).
Proof. exact bound_consts_spec. Qed.

(* non-vacuity: SET { a [1] BOOLEAN OPTIONAL, b [0] INTEGER (0..9), ..., c [2] NULL OPTIONAL }: the sort swaps a and b, one
   optional root component *)
Example C08_nonvacuous_consts :
  let fs := [mk_rfield (codes "a") (ROption RBool) (Some (TContext 1)) [];
             mk_rfield (codes "b") (RInt IntTy.U8 (Some 0%Z) (Some 9%Z) false) (Some (TContext 0)) [];
             mk_rfield (codes "c") (ROption RNull) (Some (TContext 2)) []] in
  consts_of dev_mode (codes "T") (DStruct true fs None (Some 1)) =
  Ok (bound_consts (constraint_type_name (codes "T") (codes "b")) TrNumbers (Some 0%Z) (Some 9%Z) false ++
      [mk_dconst (codes "T") TrSet CExtendedAfterField (VON (Some 1)); mk_dconst (codes "T") TrSet CFieldCount (VN 3);
       mk_dconst (codes "T") TrSet CStdOptionalFields (VN 1)]) /\
  option_map (map rf_name) (match sort_fields fs (Some 1) with Ok l => Some l | _ => None end) = Some [codes "b"; codes "a"; codes "c"].
Proof. cbv zeta. split; vm_compute; reflexivity. Qed.

Print Assumptions C08_reparse_type_partial.
Print Assumptions C08_consts.
Print Assumptions C08_std_optional_fields.
Print Assumptions C08_set_sort_keeps_root.
Print Assumptions C08_consts_integer.
Print Assumptions C08_consts_bounds.
Print Assumptions C08_reparse_attribute.
Print Assumptions C08_reparse_attribute_wf.
Print Assumptions C08_header_kind.
Print Assumptions C08_ext_index_struct.
Print Assumptions C08_ext_index_enum.
Print Assumptions C08_refuted_ext_escaped.
Print Assumptions C08_into_asn_keeps.
Print Assumptions C08_optional_constants_kept.
Print Assumptions C08_refuted_consts_dropped.
Print Assumptions C08_reparse_type_in_context.
Print Assumptions C08_refuted_half_open_range.
Print Assumptions C08_refuted_octet_default.
Print Assumptions C08_refuted_untagged_complex.
