(* Props/C03.v -- stub, to be filled *)
