(* C03 — for every SEQUENCE/SET shape (any mix of mandatory, OPTIONAL, DEFAULT components before
   and after an extension marker) and every presence pattern, the preamble carries exactly one
   presence bit per OPTIONAL/DEFAULT root component in order, the extension bit is set iff an
   extension addition is present, absent components decode as absent, DEFAULT components equal to
   their default are omitted and decode to the default; the encoder may refuse a value only with
   the inconsistent-extension error, and only when the first extension addition is absent while a
   later one is present.
   (Statements pinned here; proofs in Uper/Proofs.v; model Uper/Writer.v / Uper/Reader.v; the
   reference layout [seq_assemble] / [ext_part] / [flags_of] / [enc_field] is in Uper/Spec.v and
   Uper/Proofs.v.)

   Reference layout of a SEQUENCE value, from the per-component results [fes] = (present, bits):
     not extensible:  flags_of fs fes ++ payload_of fes
     extensible:      eb :: flags_of root ++ payload_of root ++ xp        with (eb, xp) = ext_part:
        no addition in the type, or all absent:   (false, [])
        first addition present:  (true, normally-small (count - 1) ++ one presence bit per addition
                                        ++ the present additions (open types, see [wraps]))
        first absent, a later one present:        Err E_EXT_INCONSISTENT. *)
From A1 Require Import Uper.Spec Uper.Proofs.
Local Open Scope N_scope.

(** * the preamble *)
(* the written bits are the reference layout; the presence bits are [presence] of each component
   ([is_some] for OPTIONAL, [negb (val_eqb default x)] for DEFAULT), and the root components have
   exactly [std_optional_fields] presence bits *)
Theorem C03_preamble : forall m fs so fc ea vals w w',
  wf_ty (TSeq fs so fc ea) -> wst_wf w -> w_scope w = None ->
  write_ty m (TSeq fs so fc ea) (VSeq vals) w = Ok w' ->
  exists fes bs, enc_fields m fs vals = Ok fes /\ map fst fes = presences fs vals /\
    seq_assemble m fs fes ea = Ok bs /\ w_bits w' = w_bits w ++ bs /\
    N.of_nat (length (flags_of (firstn (root_len fs ea) fs) (firstn (root_len fs ea) fes))) = so.
Proof. exact seq_preamble. Qed.

Theorem C03_presence_bits : forall m fs vals fes, enc_fields m fs vals = Ok fes ->
  map fst fes = presences fs vals /\
  Forall (fun fe => fst fe = false -> snd fe = []) fes.
Proof. exact enc_fields_presence. Qed.

(** * the extension bit *)
Theorem C03_ext_bit_iff : forall m afs afe eb xp, ext_part m afs afe = Ok (eb, xp) ->
  eb = existsb fst afe /\ (eb = false -> xp = []).
Proof. exact ext_part_bit. Qed.

(** * omitted components; what they decode to follows from the round trip *)
Theorem C03_omitted_components : forall m ft d x,
  enc_field m (FOpt, ft) None = Ok (false, []) /\
  (val_eqb d x = true -> enc_field m (FDef d, ft) (Some x) = Ok (false, []) /\ x = d).
Proof. exact omitted_components. Qed.

(* decoding returns the written component list: absent OPTIONAL components as None, DEFAULT
   components equal to their default as the default *)
Theorem C03_decodes : forall m fs so fc ea vals w w',
  wf_ty (TSeq fs so fc ea) -> wf_val (TSeq fs so fc ea) (VSeq vals) ->
  ~ Known_C01 m (TSeq fs so fc ea) (VSeq vals) -> wst_wf w -> w_scope w = None ->
  write_ty m (TSeq fs so fc ea) (VSeq vals) w = Ok w' ->
  exists bs, w_bits w' = w_bits w ++ bs /\ w_scope w' = None /\ wst_wf w' /\
    forall s tail, rsrc s bs tail ->
      read_ty m (TSeq fs so fc ea) (r_of_src s) = Ok (VSeq vals, r_of_src (src_adv s (bl bs) tail)).
Proof. exact (fun m fs so fc ea vals => C01_roundtrip_thm m (TSeq fs so fc ea) (VSeq vals)). Qed.

(** * refusals *)
(* when every component's own encoding succeeds, the writer's answer is the reference layout's,
   error kind included; the dev-profile "scope not exhausted" assertion never fires *)
Theorem C03_refusal_exact : forall m fs so fc ea vals fes w,
  wf_ty (TSeq fs so fc ea) -> wst_wf w -> w_scope w = None ->
  enc_fields m fs vals = Ok fes ->
  write_ty m (TSeq fs so fc ea) (VSeq vals) w = w_put w (seq_assemble m fs fes ea).
Proof. exact seq_write_reference. Qed.

(* the reference layout refuses only with the inconsistent-extension error and only in the stated
   pattern (the bounds exclude nothing the crate can hold in memory) *)
Theorem C03_refusal_only : forall m afs afe e, ext_part m afs afe = Err e ->
  Forall (fun fe => bl (snd fe) < two63) afe -> N.of_nat (length afe) < two64 ->
  e = E_EXT_INCONSISTENT /\ exists b rest, afe = (false, b) :: rest /\ existsb fst rest = true.
Proof. exact ext_part_refusal. Qed.

Theorem C03_refusal_complete : forall m fs so fc e vals fes w b rest,
  wf_ty (TSeq fs so fc (Some e)) -> wst_wf w -> w_scope w = None ->
  enc_fields m fs vals = Ok fes ->
  skipn (S (N.to_nat e)) fes = (false, b) :: rest -> existsb fst rest = true ->
  write_ty m (TSeq fs so fc (Some e)) (VSeq vals) w = Err E_EXT_INCONSISTENT.
Proof. exact seq_refusal_complete. Qed.

(* all other failures come from a component's own writer *)
Theorem C03_component_failure : forall m fs so fc ea vals w,
  wf_ty (TSeq fs so fc ea) -> wst_wf w -> w_scope w = None ->
  is_ok (enc_fields m fs vals) = false ->
  is_ok (write_ty m (TSeq fs so fc ea) (VSeq vals) w) = false.
Proof. exact seq_component_failure. Qed.

(** * non-vacuity: SEQUENCE { a, b OPTIONAL, c DEFAULT 7, ..., d OPTIONAL, e OPTIONAL } *)
Example C03_nonvacuous :
  wf_ty ex3_ty /\
  (exists w', write_ty dev_mode ex3_ty ex3_val w_empty = Ok w' /\
     w_bits w' = [true; false; false; true] ++ [false; false; false; false; false; false; true] ++ [true; false]
                 ++ bits_of_bytes [1; 128]) /\
  write_ty dev_mode ex3_ty ex3_bad w_empty = Err E_EXT_INCONSISTENT /\
  (exists w', write_ty release_mode ex3_ty ex3_val w_empty = Ok w' /\
     read_ty release_mode ex3_ty (r_of_src (src_of_bits (w_bits w') (bl (w_bits w'))))
     = Ok (ex3_val, r_of_src (src_adv (src_of_bits (w_bits w') (bl (w_bits w'))) (bl (w_bits w')) []))).
Proof. exact nonvacuous_c03. Qed.

Print Assumptions C03_preamble.
Print Assumptions C03_presence_bits.
Print Assumptions C03_ext_bit_iff.
Print Assumptions C03_omitted_components.
Print Assumptions C03_decodes.
Print Assumptions C03_refusal_exact.
Print Assumptions C03_refusal_only.
Print Assumptions C03_refusal_complete.
Print Assumptions C03_component_failure.
Print Assumptions C03_nonvacuous.
