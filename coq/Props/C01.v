(* Props/C01.v -- stub, to be filled *)
