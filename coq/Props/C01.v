(* C01 — UPER round trip: for every type and every value of its generated Rust type, if UPER
   encoding succeeds then decoding the produced bits yields a value equal to the original and
   consumes exactly the produced bits; also when several values are written back-to-back into one
   writer and read back in the same order from one reader.
   (Statements pinned here; proofs in Uper/Proofs.v.  Model: Uper/Writer.v, Uper/Reader.v — the
   executable model of src/rw/uper.rs; reference encoder [enc], [wf_ty], [wf_val] and the excluded
   classes [Known_C01] in Uper/Spec.v.  Both cargo profiles: [forall m : mode].)

   Vocabulary:
     [wst_wf w]       the writer's bit count equals the number of bits in its sink;
     [rsrc s bs tail] the reader source [s] is positioned at the start of [bs ++ tail], [bs] lies
                      within its declared length and its slice, the source still carries its whole
                      buffer (absolute positions are meaningful) and the declared length is a usize;
     [wsim r w e]     the writer run [r] from [w] succeeds with exactly the bits of the reference
                      encoding [e] appended, or both fail;
     [Rprop m t]      the reader inverts [enc m t] on every well-formed value outside [Known_C01].
   Known classes ([Known_C01 m t v] = some node of the value is in one of them), each with a witness:
     Known_C10_bitstring_16k / Known_C10_sized_length   BIT STRING of 16K bits or more with the
         unconstrained length form (F10-2); OCTET/BIT STRING size constraints of the F10-1 family;
     Known_C01_count_16k   SEQUENCE OF / restricted string with 16K elements or more and the
         unconstrained length form (no fragmentation: a 16K multiple is announced, everything written);
     Known_C01_size_F10_1  size constraints (lo, no hi) or hi >= 64K (values with lo <= n < 2*lo are
         refused; the round trip of the others is not claimed here);
     Known_C01_open_type_16k  open types (extension additions, extension CHOICE alternatives) whose
         content is 16K octets or more (the writer fragments, the reader does not). *)
From A1 Require Import Uper.Spec Uper.Proofs.
Local Open Scope N_scope.

(** * the main theorem: any type (SEQUENCE/SET nested arbitrarily, extensible or not, inside
      open types, SEQUENCE OF, CHOICE), any writer state without an enclosing scope *)
Theorem C01_roundtrip : forall m t v w w',
  wf_ty t -> wf_val t v -> ~ Known_C01 m t v -> wst_wf w -> w_scope w = None ->
  write_ty m t v w = Ok w' ->
  exists bs, w_bits w' = w_bits w ++ bs /\ w_scope w' = None /\ wst_wf w' /\
    forall s tail, rsrc s bs tail ->
      read_ty m t (r_of_src s) = Ok (v, r_of_src (src_adv s (bl bs) tail)).
Proof. exact C01_roundtrip_thm. Qed.

(* the same with the produced bits identified as the reference encoding *)
Theorem C01_roundtrip_reference : forall m t v w w',
  wf_ty t -> wf_val t v -> ~ Known_C01 m t v -> wst_wf w -> w_scope w = None ->
  write_ty m t v w = Ok w' ->
  exists bs, enc m t v = Ok bs /\ w' = w_append w bs /\
    w_bits w' = w_bits w ++ bs /\ w_scope w' = None /\ wst_wf w' /\
    forall s tail, rsrc s bs tail ->
      read_ty m t (r_of_src s) = Ok (v, r_of_src (src_adv s (bl bs) tail)).
Proof. exact C01_roundtrip_full. Qed.

(** * the two halves *)
(* writer = reference encoder, including failure (no hypothesis on the value, no excluded class) *)
Theorem C01_writer_is_reference : forall m t, wf_ty t ->
  forall v w, wst_wf w -> w_scope w = None -> wsim (write_ty m t v w) w (enc m t v).
Proof. exact write_enc. Qed.

(* reader inverts the reference encoder *)
Theorem C01_reader_inverts_reference : forall m t,
  wf_ty t -> forall v bs, enc m t v = Ok bs -> wf_val t v -> ~ Known_C01 m t v ->
  forall s tail, rsrc s bs tail ->
  read_ty m t (r_of_src s) = Ok (v, r_of_src (src_adv s (bl bs) tail)).
Proof. exact read_enc. Qed.

(** * several values back to back (history form) *)
Theorem C01_sequence : forall m l w',
  Forall (item_ok m) l -> write_all m l w_empty = Ok w' -> bl (w_bits w') < two64 ->
  exists r, read_all m (map fst l) (r_of_src (src_of_bits (w_bits w') (bl (w_bits w')))) = Ok (map snd l, r)
            /\ src_remaining m (r_src r) = Ok 0.
Proof. exact C01_sequence_full. Qed.

Theorem C01_sequence_any_writer : forall m l w w', Forall (item_ok m) l -> wst_wf w -> w_scope w = None ->
  write_all m l w = Ok w' ->
  exists bs, w' = w_append w bs /\
    forall s tail, rsrc s bs tail ->
      read_all m (map fst l) (r_of_src s) = Ok (map snd l, r_of_src (src_adv s (bl bs) tail)).
Proof. exact sequence_gen. Qed.

(** * ingredients of independent interest *)
Theorem C01_utf8_roundtrip : forall cs, Forall scalar cs -> utf8_decode (utf8_encode cs) = Some cs.
Proof. exact utf8_roundtrip. Qed.

Theorem C01_octet_padding : forall l,
  bits_of_bytes (bytes_of_bits l) = l ++ repeat false (pad8 (length l)).
Proof. exact bits_of_bytes_of_bits. Qed.

(** * witnesses of the excluded classes ([rt_fails]: the write succeeds and reading the produced
      bits back does not return the value at the end of the bits) *)
Theorem C01_refuted_count_16k :
  exists m t v, wf_ty t /\ wf_val t v /\ Known_C01 m t v /\ rt_fails m t v = true.
Proof. exact refuted_count_16k. Qed.

Theorem C01_refuted_bitstring_16k :
  exists m t v, wf_ty t /\ Known_C01 m t v /\ rt_fails m t v = true.
Proof. exact refuted_bitstring_16k. Qed.

Theorem C01_refuted_open_type_16k :
  exists m t v, wf_ty t /\ is_ok (write_ty m t v w_empty) = true /\ rt_fails m t v = true.
Proof. exact refuted_open_type_16k. Qed.

Theorem C01_refuted_size_F10_1 :
  exists m t v, wf_ty t /\ wf_val t v /\ Known_C01 m t v /\ is_ok (write_ty m t v w_empty) = false.
Proof. exact refuted_size_F10_1. Qed.

(** * non-vacuity: a nested extensible SEQUENCE with OPTIONAL, DEFAULT, CHOICE (extension
      alternative), a SEQUENCE OF of 3 elements and three extension additions *)
Example C01_nonvacuous :
  wf_ty ex_ty /\ wf_val ex_ty ex_val /\
  (exists w', write_ty dev_mode ex_ty ex_val w_empty = Ok w' /\
     let bs := w_bits w' in
     enc dev_mode ex_ty ex_val = Ok bs /\
     read_ty dev_mode ex_ty (r_of_src (src_of_bits (bs ++ [true; false]) (bl bs + 2)))
     = Ok (ex_val, r_of_src (src_adv (src_of_bits (bs ++ [true; false]) (bl bs + 2)) (bl bs) [true; false]))).
Proof. exact nonvacuous_c01. Qed.

Print Assumptions C01_roundtrip.
Print Assumptions C01_roundtrip_reference.
Print Assumptions C01_writer_is_reference.
Print Assumptions C01_reader_inverts_reference.
Print Assumptions C01_sequence.
Print Assumptions C01_sequence_any_writer.
Print Assumptions C01_utf8_roundtrip.
Print Assumptions C01_octet_padding.
Print Assumptions C01_refuted_count_16k.
Print Assumptions C01_refuted_bitstring_16k.
Print Assumptions C01_refuted_open_type_16k.
Print Assumptions C01_refuted_size_F10_1.
Print Assumptions C01_nonvacuous.
