(* Props/C17.v -- stub, to be filled *)
