(* C17 -- protobuf write/read round trip up to ProtobufEq, both writer back ends.
   This file only pins statements; proofs live in Proto/Proofs.v (primitives, sweeps), Proto/RwLemmas.v (writer:
   buffer frame, back ends, records) and Proto/RoundtripProofs.v (reader, unbounded round trip).  Where the faithful
   model refutes the property the witness is pinned here (closed by computation) together with the class predicate.
   Finding classes ([Known_C17] = [Known_ty] on the type, closed under nesting, or a BitVec with excess bytes in
   the value): CHOICE with a NULL alternative (F17-1), CHOICE with a SEQUENCE OF alternative (F17-2),
   SEQUENCE OF SEQUENCE OF (F17-3, F17-4), BitVec with excess bytes (F17-5), SEQUENCE OF NULL (F17-7, constructor
   [K_list_null] of [Known_ty]; witness [C17_refuted_list_of_null]).
   Repaired in /repo 4788e65 and no longer a class: an extensible INTEGER (64-bit Rust type) used to be cast to the
   32-bit format selected by its root bounds; it now always gets the 64-bit format ([C17_extensible_int_fixed]).
   Not a C17 violation: the property is about one value per writer.  A ProtobufWriter that is reused after a
   top-level CHOICE keeps is_root = false and wraps the next value as field 2; this is documented by the Example
   [C17_writer_reuse_after_choice] only. *)
From A1 Require Import Proto.Wire Proto.Rw Proto.Proofs Proto.RwLemmas Proto.RoundtripProofs.
Local Open Scope N_scope.

(** ** proved for every input *)
Theorem C17_varint_roundtrip : forall v tail, v < two64 ->
  read_varint (write_varint v ++ tail) = Ok (v, tail).
Proof. exact varint_roundtrip. Qed.

Theorem C17_zigzag_roundtrip :
  (forall z, is_i32 z -> unzz32 (zz32 z) = z) /\ (forall z, is_i64 z -> unzz64 (zz64 z) = z).
Proof. split; [exact zigzag32_roundtrip | exact zigzag64_roundtrip]. Qed.

Theorem C17_tag_roundtrip : forall field f tail, field < 2 ^ 29 ->
  read_tag (write_tag field f ++ tail) = Ok (field, f, tail).
Proof. exact tag_roundtrip. Qed.

(* every integer kind (the writer's choice among uint32/uint64/sint32/sint64 and all `as` casts), including the
   64-bit Rust types of extensible INTEGERs ([KExt signed MIN MAX]): every value of the Rust type *)
Theorem C17_number_roundtrip : forall k z, in_kind k z = true ->
  number_read k (number_bytes k z) = Ok z.
Proof. exact number_roundtrip. Qed.

(** ** the message-level round trip: proved for one-component integer messages (all kinds, all values,
       both profiles) and, bounded-exhaustively, for every value of a flat SEQUENCE with an OPTIONAL *)
Theorem C17_roundtrip_partial : forall m k z, in_kind k z = true ->
  let t := TSeq [(false, TInt k)] in
  let v := VSeq [VInt z] in
  exists bs, pwrite_vec m t v = Ok bs /\ pread m t bs = Ok v /\ peq t v v = true.
Proof. exact roundtrip_int_message. Qed.

Theorem C17_roundtrip_flat_partial : forall m b x oy,
  (m = dev_mode \/ m = release_mode) ->
  x < 256 -> (forall y, oy = Some y -> (-32 <= y < 32)%Z) ->
  let v := VSeq [VBool b; VInt (Z.of_N x); VOpt (option_map VInt oy)] in
  exists bs v', pwrite_vec m flat_ty v = Ok bs /\ pread m flat_ty bs = Ok v' /\ peq flat_ty v v' = true.
Proof. exact roundtrip_flat. Qed.

Theorem C17_backends_agree_partial : forall m b x oy,
  (m = dev_mode \/ m = release_mode) ->
  x < 256 -> (forall y, oy = Some y -> (-32 <= y < 32)%Z) ->
  let v := VSeq [VBool b; VInt (Z.of_N x); VOpt (option_map VInt oy)] in
  exists bs, pwrite_vec m flat_ty v = Ok bs /\
    pwrite_slice m (N.of_nat (length bs)) flat_ty v = Ok bs /\
    pwrite_slice m (N.of_nat (length bs) + 3) flat_ty v = Ok bs /\
    pwrite_slice m (N.of_nat (length bs) - 1) flat_ty v = Err E_IO.
Proof. exact backends_agree_flat. Qed.

(** ** the message-level round trip, unbounded: every generated type (SEQUENCE / SET / tuple struct with any number of
       required / OPTIONAL / DEFAULT components of any kind, nested to any depth; SEQUENCE OF of scalars, ENUMERATED,
       messages and CHOICEs; CHOICE; ENUMERATED) outside the finding classes, every value, both profiles.
       [wf_pty]: top-level SEQUENCE / CHOICE / ENUMERATED with the sizes a generated type has (non-empty ENUMERATED and
       CHOICE, at most 2^32 variants, field numbers below 2^29); [wf_pval]: the value inhabits the type (a BitVec may
       hold excess bytes); [Known_C17]: the type contains a CHOICE with a NULL or SEQUENCE OF alternative, a
       SEQUENCE OF SEQUENCE OF or a SEQUENCE OF NULL, or the value contains a BitVec with excess bytes.
       The guard [nlen bs < two64] says the encoding fits a 64-bit address space (always true of a Vec<u8>). *)
Theorem C17_roundtrip : forall m t v, wf_pty t -> wf_pval t v -> ~ Known_C17 t v ->
  exists bs, pwrite m t v = Ok bs /\
    (nlen bs < two64 -> exists v', pread m t bs = Ok v' /\ peq t v v' = true).
Proof. exact roundtrip_unbounded. Qed.

(* the fixed-slice back end produces exactly the bytes of the growable one when they fit and Err(Io) otherwise:
   every type, every value (no well-formedness needed), every capacity, both profiles *)
Theorem C17_backends_agree : forall m t v bs cap, pwrite_vec m t v = Ok bs ->
  pwrite_slice m cap t v = if N.of_nat (length bs) <=? cap then Ok bs else Err E_IO.
Proof. exact backends_agree. Qed.

(** ** classes in which the faithful model refutes the property *)
(* a CHOICE with a NULL alternative (nothing is written, read_choice needs a tag) or a SEQUENCE OF alternative
   (only the first element's header is consumed) *)
Definition Known_choice_alternative (t : pty) : Prop :=
  exists alts, t = TChoice alts /\ (In TNull alts \/ exists e, In (TSeqOf e) alts).
(* SEQUENCE OF SEQUENCE OF: the inner read_sequence_of runs in State::Root and never ends *)
Definition Known_nested_list (t : pty) : Prop := exists e, t = TSeqOf (TSeqOf e).
(* a BitVec holding more bytes than its bit length needs (BitVec::from_bytes keeps them) *)
Definition Known_bitvec_excess (v : pval) : Prop :=
  exists bytes n, v = VBits bytes n /\ N.of_nat (length bytes) <> (n + 7) / 8.

(* repaired in /repo b404bbf (write_null / read_null advance the tag counter): a present OPTIONAL NULL no longer
   shifts the following components; it reads back as absent, which ProtobufEq accepts (Null == Null::default()) *)
Definition t_optnull := TSeq [(true, TNull); (true, TInt KU8); (false, TInt KU8)].
Example C17_optional_null_fixed :
  let v := VSeq [VOpt (Some VNull); VOpt None; VInt 5] in
  let v' := VSeq [VOpt None; VOpt None; VInt 5] in
  wf_val t_optnull v = true /\
  pwrite_vec dev_mode t_optnull v = Ok [24; 5] /\ pread dev_mode t_optnull [24; 5] = Ok v' /\
  peq t_optnull v v' = true /\
  pread dev_mode (TSeq [(false, TInt KU8); (false, TNull); (false, TInt KU8)]) [8; 1; 24; 2]
  = Ok (VSeq [VInt 1; VNull; VInt 2]).
Proof. vm_compute. repeat split; reflexivity. Qed.

Definition t_chnull := TChoice [TNull; TInt KU8].
Theorem C17_refuted_choice_null :
  Known_choice_alternative t_chnull /\
  pwrite_vec dev_mode t_chnull (VChoice 0 VNull) = Ok [] /\ pread dev_mode t_chnull [] = Err E_IO /\
  (* also when nested in a SEQUENCE *)
  pwrite_vec dev_mode (TSeq [(false, t_chnull)]) (VSeq [VChoice 0 VNull]) = Ok [10; 0] /\
  pread dev_mode (TSeq [(false, t_chnull)]) [10; 0] = Err E_IO.
Proof.
  split; [exists [TNull; TInt KU8]; split; [reflexivity|left; left; reflexivity]|].
  vm_compute. repeat split; reflexivity.
Qed.

Definition t_chlist := TChoice [TSeqOf (TInt KU8); TInt KU8].
Theorem C17_refuted_choice_list :
  Known_choice_alternative t_chlist /\
  pwrite_vec dev_mode t_chlist (VChoice 0 (VList [VInt 1; VInt 2])) = Ok [8; 1; 8; 2] /\
  pread dev_mode t_chlist [8; 1; 8; 2] = Ok (VChoice 0 (VList [VInt 1])) /\
  pwrite_vec dev_mode t_chlist (VChoice 0 (VList [])) = Ok [] /\
  pread dev_mode t_chlist [] = Err E_IO.
Proof.
  split; [exists [TSeqOf (TInt KU8); TInt KU8]; split; [reflexivity|right; exists (TInt KU8); left; reflexivity]|].
  vm_compute. repeat split; reflexivity.
Qed.

Definition t_nested := TSeq [(false, TSeqOf (TSeqOf (TInt KU8))); (false, TInt KU8)].
Theorem C17_refuted_nested_list :
  Known_nested_list (TSeqOf (TSeqOf (TInt KU8))) /\
  pwrite_vec dev_mode t_nested (VSeq [VList [VList [VInt 7]]; VInt 9]) = Ok [8; 7; 16; 9] /\
  pread dev_mode t_nested [8; 7; 16; 9] = Panic P_UNBOUNDED /\
  pread release_mode t_nested [8; 7; 16; 9] = Panic P_UNBOUNDED /\
  (* and the nesting is lost on the wire: [[1],[2]] and [[1,2]] have the same bytes *)
  pwrite_vec dev_mode t_nested (VSeq [VList [VList [VInt 1]; VList [VInt 2]]; VInt 0])
  = pwrite_vec dev_mode t_nested (VSeq [VList [VList [VInt 1; VInt 2]]; VInt 0]).
Proof.
  split; [exists (TInt KU8); reflexivity|].
  vm_compute. repeat split; reflexivity.
Qed.

Theorem C17_refuted_bitvec_excess :
  let t := TSeq [(false, TBits)] in
  let v := VSeq [VBits [224; 255] 3] in
  Known_bitvec_excess (VBits [224; 255] 3) /\
  exists bs, pwrite_vec dev_mode t v = Ok bs /\ pread dev_mode t bs = Ok (VSeq [VBits [224] 3]) /\
             peq t v (VSeq [VBits [224] 3]) = false.
Proof.
  split; [exists [224; 255], 3; split; [reflexivity|vm_compute; discriminate]|].
  exists [10; 9; 224; 0; 0; 0; 0; 0; 0; 0; 3]. vm_compute. repeat split; reflexivity.
Qed.

(* the type part of [Known_C17] ([Known_ty], closed under nesting) contains the classes above, and a type in it is
   never in the proved fragment *)
Theorem C17_known_classes :
  (forall t, Known_choice_alternative t -> Known_ty t) /\ (forall t, Known_nested_list t -> Known_ty t) /\
  (forall t, Known_ty t -> good t = false) /\
  (forall t v, Known_bitvec_excess v -> wf_val t v = true -> False).
Proof.
  split; [|split; [|split]].
  - intros t (alts & -> & [H | [e H]]); [apply K_choice_null, H|eapply K_choice_list, H].
  - intros t (e & ->). apply K_nested_list.
  - exact known_not_good.
  - intros t v (bytes & n & -> & Hne) Hwf. destruct t; try discriminate Hwf. cbn [wf_val] in Hwf.
    apply andb_true_iff in Hwf. destruct Hwf as [Hwf _]. apply andb_true_iff in Hwf. destruct Hwf as [_ Hwf].
    apply N.eqb_eq in Hwf. contradiction.
Qed.

(* F17-7, found while proving C17_roundtrip and confirmed on the crate (zoo type 21, corpus/C17/f17-7-list-of-null.txt):
   the elements of a SEQUENCE OF NULL leave no trace on the wire (write_null writes nothing, the element loop resets
   the counter), so the list reads back empty *)
Definition t_listnull := TSeq [(false, TSeqOf TNull); (false, TInt KU8)].
Theorem C17_refuted_list_of_null :
  let v := VSeq [VList [VNull; VNull]; VInt 7] in
  Known_ty t_listnull /\ wf_val t_listnull v = true /\
  pwrite_vec dev_mode t_listnull v = Ok [16; 7] /\
  pread dev_mode t_listnull [16; 7] = Ok (VSeq [VList []; VInt 7]) /\
  peq t_listnull v (VSeq [VList []; VInt 7]) = false.
Proof.
  split; [apply (K_in_seq _ false (TSeqOf TNull)); [left; reflexivity|apply K_list_null]|].
  vm_compute. repeat split; reflexivity.
Qed.

(* repaired in /repo 4788e65: an INTEGER with an extension marker is a u64 / i64 in Rust; write_number / read_number
   now take a 32-bit format only for `!C::EXTENSIBLE`, so every KExt kind gets the 64-bit format of its signedness and
   every value of the 64-bit type round-trips (it used to be cast `as i32` / `as u32`: 2^31 came back as -2^31) *)
Definition t_xs5 := TSeq [(false, TInt (KExt true (Some (-5)%Z) (Some 5%Z)))].
Definition t_xu255 := TSeq [(false, TInt (KExt false (Some 0%Z) (Some 255%Z)))].
Theorem C17_extensible_int_fixed :
  (forall sg mn mx z, in_kind (KExt sg mn mx) z = true ->
     (kind_sel (KExt sg mn mx) = PUInt64 \/ kind_sel (KExt sg mn mx) = PSInt64) /\
     number_read (KExt sg mn mx) (number_bytes (KExt sg mn mx) z) = Ok z) /\
  wf_pty t_xs5 /\ wf_pval t_xs5 (VSeq [VInt 2147483648]) /\ ~ Known_C17 t_xs5 (VSeq [VInt 2147483648]) /\
  pwrite_vec dev_mode t_xs5 (VSeq [VInt 2147483648]) = Ok [8; 128; 128; 128; 128; 16] /\
  pread dev_mode t_xs5 [8; 128; 128; 128; 128; 16] = Ok (VSeq [VInt 2147483648]) /\
  pwrite_vec dev_mode t_xs5 (VSeq [VInt (-9223372036854775808)]) = Ok [8; 255; 255; 255; 255; 255; 255; 255; 255; 255; 1] /\
  pread dev_mode t_xs5 [8; 255; 255; 255; 255; 255; 255; 255; 255; 255; 1] = Ok (VSeq [VInt (-9223372036854775808)]) /\
  pwrite_vec dev_mode t_xu255 (VSeq [VInt 4294967296]) = Ok [8; 128; 128; 128; 128; 16] /\
  pread dev_mode t_xu255 [8; 128; 128; 128; 128; 16] = Ok (VSeq [VInt 4294967296]) /\
  pread dev_mode t_xu255 [8; 255; 255; 255; 255; 255; 255; 255; 255; 255; 1] = Ok (VSeq [VInt 18446744073709551615]).
Proof.
  split.
  - intros sg mn mx z H. split; [apply ext_sel64|apply number_roundtrip, H].
  - split; [split; reflexivity|]. split; [reflexivity|]. split.
    + intros [K|E]; [apply known_not_good in K; vm_compute in K; discriminate K|vm_compute in E; discriminate E].
    + vm_compute. repeat split; reflexivity.
Qed.

(* documentation only, not a C17 violation (C17 speaks about one value per writer): the writer is left with
   is_root = false after a top-level CHOICE (write_choice takes the flag and never restores it, unlike
   write_set_or_sequence), so a second value written with the same writer is wrapped as field 2 *)
Example C17_writer_reuse_after_choice :
  let t := TChoice [TInt KU8; TBytes] in
  (match wr dev_mode t (VChoice 0 (VInt 5)) (wst0 None) with
   | Ok s1 => match wr dev_mode t (VChoice 0 (VInt 5)) s1 with Ok s2 => Some (w_root s1, w_buf s2) | _ => None end
   | _ => None end) = Some (false, [8; 5; 18; 2; 8; 5]) /\
  (match wr dev_mode (TSeq [(false, TInt KU8)]) (VSeq [VInt 5]) (wst0 None) with
   | Ok s1 => match wr dev_mode (TSeq [(false, TInt KU8)]) (VSeq [VInt 5]) s1 with Ok s2 => Some (w_root s1, w_buf s2) | _ => None end
   | _ => None end) = Some (true, [8; 5; 8; 5]).
Proof. vm_compute. split; reflexivity. Qed.

(** ** C04 (protobuf reader on arbitrary bytes) *)
Definition t_inner := TSeq [(false, TInt KU16); (true, TStr)].
(* still reachable through the public primitive ProtoRead::read_bit_vec (op 4015):
   BitVec::from_vec_with_trailing_bit_len computes bytes.len() - 8 on fewer than 8 bytes *)
Theorem C04_proto_refuted_bit_vec_short :
  read_bit_vec dev_mode [1; 2; 3] = Panic P_ARITH /\
  read_bit_vec release_mode [1; 2; 3] = Panic P_SLICE_RANGE /\
  read_bit_vec dev_mode [] = Panic P_ARITH.
Proof. vm_compute. repeat split; reflexivity. Qed.

(* repaired in /repo f907d9b: Reader::read_bit_string checks the length before calling it *)
Example C04_proto_bit_string_fixed :
  pread dev_mode (TSeq [(false, TBits)]) [] = Ok (VSeq [VBits [] 0]) /\
  pread release_mode (TSeq [(false, TBits)]) [] = Ok (VSeq [VBits [] 0]) /\
  pread dev_mode (TSeq [(false, TBits)]) [10; 3; 1; 2; 3] = Err E_IO /\
  pread release_mode (TSeq [(false, TBits)]) [10; 7; 1; 2; 3; 4; 5; 6; 7] = Err E_IO /\
  pread dev_mode (TSeq [(false, TBits)]) [10; 9; 160; 0; 0; 0; 0; 0; 0; 0; 3] = Ok (VSeq [VBits [160] 3]).
Proof. vm_compute. repeat split; reflexivity. Qed.

(* repaired in /repo b1b1c99: index_enclosed uses checked_add and bounds every field by the enclosing range *)
Example C04_proto_length_overflow_fixed :
  pread dev_mode t_inner [10; 255; 255; 255; 255; 255; 255; 255; 255; 255; 1] = Err E_IO /\
  pread release_mode t_inner [10; 255; 255; 255; 255; 255; 255; 255; 255; 255; 1] = Err E_IO /\
  pread release_mode t_inner [8; 129; 128; 2; 18; 245; 255; 255; 255; 255; 255; 255; 255; 255; 1; 97] = Err E_IO.
Proof. vm_compute. repeat split; reflexivity. Qed.

Example C04_proto_trusted_length_fixed :
  pread dev_mode t_inner [18; 5] = Err E_IO /\ pread release_mode t_inner [18; 5] = Err E_IO /\
  pread dev_mode t_inner [8; 7; 18; 2; 104; 105] = Ok (VSeq [VInt 7; VOpt (Some (VStr [104; 105]))]).
Proof. vm_compute. repeat split; reflexivity. Qed.

(* non-vacuity: hypotheses inhabited by non-trivial values, and the model produces the expected bytes *)
Example C17_nonvacuous :
  300 < two64 /\ write_varint 300 = [172; 2] /\ is_i32 (-2147483648) /\
  write_sint32 1073741824 = [128; 128; 128; 128; 248; 255; 255; 255; 255; 1] /\
  in_kind KI16 (-300) = true /\
  pwrite_vec dev_mode (TSeq [(false, TInt KI16)]) (VSeq [VInt (-300)]) = Ok [8; 215; 4] /\
  pwrite_vec dev_mode flat_ty (VSeq [VBool true; VInt 200; VOpt (Some (VInt (-3)))]) = Ok [8; 1; 16; 200; 1; 24; 5] /\
  wf_val t_optnull (VSeq [VOpt (Some VNull); VOpt None; VInt 5]) = true.
Proof. vm_compute. repeat split; congruence. Qed.

(* non-vacuity of C17_roundtrip: a type with nesting, lists, a CHOICE, OPTIONALs, a BitVec and a NULL satisfies the
   hypotheses; the value read back differs from the one written (the empty OPTIONAL list comes back absent) *)
Definition t_rich := TSeq [(false, TBool); (true, TStr);
   (false, TSeqOf (TSeq [(false, TInt KU16); (true, TStr)]));
   (false, TChoice [TInt KI16; TSeq [(false, TInt KU16)]; TEnum 3]);
   (true, TSeqOf (TInt KU8)); (false, TBits); (false, TNull); (false, TInt KI64)].
Definition v_rich := VSeq [VBool true; VOpt None; VList [VSeq [VInt 300; VOpt (Some (VStr [104]))]; VSeq [VInt 1; VOpt None]];
   VChoice 1 (VSeq [VInt 7]); VOpt (Some (VList [])); VBits [160] 3; VNull; VInt (-2)].
Example C17_roundtrip_nonvacuous :
  wf_pty t_rich /\ wf_pval t_rich v_rich /\ ~ Known_C17 t_rich v_rich /\
  pwrite dev_mode t_rich v_rich =
    Ok [8; 1; 26; 6; 8; 172; 2; 18; 1; 104; 26; 2; 8; 1; 34; 4; 18; 2; 8; 7; 50; 9; 160; 0; 0; 0; 0; 0; 0; 0; 3; 64; 3] /\
  pread dev_mode t_rich
    [8; 1; 26; 6; 8; 172; 2; 18; 1; 104; 26; 2; 8; 1; 34; 4; 18; 2; 8; 7; 50; 9; 160; 0; 0; 0; 0; 0; 0; 0; 3; 64; 3] =
    Ok (VSeq [VBool true; VOpt None; VList [VSeq [VInt 300; VOpt (Some (VStr [104]))]; VSeq [VInt 1; VOpt None]];
              VChoice 1 (VSeq [VInt 7]); VOpt None; VBits [160] 3; VNull; VInt (-2)]) /\
  pwrite_slice dev_mode 33 t_rich v_rich = pwrite_vec dev_mode t_rich v_rich /\
  pwrite_slice dev_mode 32 t_rich v_rich = Err E_IO.
Proof.
  split; [split; reflexivity|]. split; [reflexivity|]. split.
  - intros [K|E]; [apply known_not_good in K; vm_compute in K; discriminate K|vm_compute in E; discriminate E].
  - vm_compute. repeat split; reflexivity.
Qed.

Print Assumptions C17_varint_roundtrip.
Print Assumptions C17_zigzag_roundtrip.
Print Assumptions C17_tag_roundtrip.
Print Assumptions C17_number_roundtrip.
Print Assumptions C17_roundtrip_partial.
Print Assumptions C17_roundtrip_flat_partial.
Print Assumptions C17_backends_agree_partial.
Print Assumptions C17_roundtrip.
Print Assumptions C17_backends_agree.
Print Assumptions C17_known_classes.
Print Assumptions C17_refuted_list_of_null.
Print Assumptions C17_extensible_int_fixed.
Print Assumptions C17_refuted_choice_null.
Print Assumptions C17_refuted_choice_list.
Print Assumptions C17_refuted_nested_list.
Print Assumptions C17_refuted_bitvec_excess.
Print Assumptions C04_proto_refuted_bit_vec_short.
