(* Props/C15.v -- stub, to be filled *)
