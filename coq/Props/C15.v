(* C15 -- the Rust type chosen for an INTEGER can hold every permitted value.
   This file only pins statements; the model is Front/IntTy.v, proofs live in Front/IntTyProofs.v.

   Vocabulary.  A source range [r] is plain INTEGER or INTEGER (lo..hi[,...]) with bounds [Lit z] or [Kw]
   (MIN resp. MAX).  [src_int_type m r] is the whole chain integer.rs (parse + resolve) -> rust.rs (type choice)
   under cargo profile [m]; its result [t] carries the kind [rk t] and the Range kept in the Rust model.
   [permitted lo hi v]: v satisfies the (root) constraint.  [rep64 lo v]: v is representable in 64 bits of the
   signedness the lower bound calls for (negative or absent lower bound: i64, otherwise u64).
   [fits k v]: v is a value of Rust type k.

   Findings (model = crate, property fails; each has a witness below):
     Known_no_lower_bound_unsigned (= Known_C15): lower bound MIN / plain INTEGER is taken as 0, the type is unsigned
       (except INTEGER (MIN..h,...) with h < 0, which becomes i64)
     Known_max_keyword_i64max_on_u64: upper bound MAX on a non-negative lower bound gives u64 whose kept upper
       bound and value_max() are i64::MAX, not u64::MAX *)
From A1 Require Import Front.IntTy Front.IntTyProofs.
Local Open Scope Z_scope.

(* a well-formed source range always gets a type: no resolve error and no panic in either profile *)
Theorem C15_total : forall m r, wf_srange r -> exists t, src_int_type m r = Ok t.
Proof. exact src_total. Qed.

(* wide enough, right signedness: every permitted value within 64 bits is a value of the chosen type *)
Theorem C15_holds_all : forall m r t,
  wf_srange r -> ~ Known_C15 r -> src_int_type m r = Ok t ->
  forall v, permitted (sr_lo r) (sr_hi r) v -> rep64 (sr_lo r) v -> fits (rk t) v.
Proof. exact holds_all. Qed.

(* narrowest: signed exactly when the lower bound is negative, and no kind that holds all permitted values is narrower *)
Theorem C15_narrowest : forall m r t,
  wf_srange r -> sr_ext r = false -> ~ Known_C15 r -> src_int_type m r = Ok t ->
  signed (rk t) = needs_signed (sr_lo r) /\
  forall k, (forall v, permitted (sr_lo r) (sr_hi r) v -> rep64 (sr_lo r) v -> fits k v) -> width (rk t) <= width k.
Proof. exact narrowest. Qed.

(* extensible ranges map to 64-bit types (no side condition at all) *)
Theorem C15_ext_is_64 : forall m r t, sr_ext r = true -> src_int_type m r = Ok t -> width (rk t) = 64.
Proof. exact ext_is_64. Qed.

(* value_min()/value_max(): return type is the chosen kind, the text reads back as the declared bound
   (a literal bound itself; for a keyword the extreme of the type) *)
Theorem C15_accessors : forall m r t,
  wf_srange r -> ~ Known_C15 r -> src_int_type m r = Ok t ->
  exists a b, min_max_fn_text m t = Ok (rk t, a, b) /\
              parse_num a = Some (declared_lo r (rk t)) /\
              (~ Known_max_keyword_i64max_on_u64 r -> parse_num b = Some (declared_hi r (rk t))).
Proof. exact accessors. Qed.

(* the Range kept in the Rust model (from which the walker prints MIN/MIN_T/MAX/MAX_T/EXTENSIBLE) *)
Theorem C15_declared_bounds : forall m r t,
  wf_srange r -> ~ Known_C15 r -> src_int_type m r = Ok t ->
  rext t = sr_ext r /\
  (forall x, rmin t = Some x -> x = declared_lo r (rk t)) /\
  (forall y, rmax t = Some y -> ~ Known_max_keyword_i64max_on_u64 r -> y = declared_hi r (rk t)).
Proof. exact declared_bounds. Qed.

(** refutations: the faithful model violates the property on the finding classes *)
(* the class is tight: on EVERY well-formed range of Known_C15 some permitted 64-bit value does not fit *)
Theorem C15_refuted_class : forall m r t,
  wf_srange r -> Known_C15 r -> src_int_type m r = Ok t ->
  exists v, permitted (sr_lo r) (sr_hi r) v /\ rep64 (sr_lo r) v /\ ~ fits (rk t) v.
Proof. exact known_refuted. Qed.

(* INTEGER (MIN..100) -> u8: -1 is permitted and not representable *)
Ltac comp := first [ vm_compute; reflexivity | vm_compute; congruence | vm_compute; intuition congruence ].

Theorem C15_refuted_no_lower_bound :
  exists r t v, wf_srange r /\ Known_C15 r /\ src_int_type dev_mode r = Ok t /\ src_int_type release_mode r = Ok t /\
                rk t = U8 /\ permitted (sr_lo r) (sr_hi r) v /\ rep64 (sr_lo r) v /\ ~ fits (rk t) v.
Proof.
  exists (Constrained Kw (Lit 100) false), {| rk := U8; rmin := Some 0; rmax := Some 100; rext := false |}, (-1).
  split; [comp|]. split.
  { split; [reflexivity|]. intros ([=] & _). }
  split; [comp|]. split; [comp|]. split; [comp|]. split; [comp|]. split; [comp|].
  unfold fits; cbn. lia.
Qed.

(* plain INTEGER -> u64 (pinned by the crate's tests/basic_integer.rs) *)
Theorem C15_refuted_unconstrained :
  exists t v, Known_C15 Unconstrained /\ src_int_type dev_mode Unconstrained = Ok t /\ rk t = U64 /\
              permitted Kw Kw v /\ rep64 Kw v /\ ~ fits (rk t) v.
Proof.
  exists {| rk := U64; rmin := None; rmax := None; rext := false |}, (-1).
  split.
  { split; [reflexivity|]. intros ([=] & _). }
  split; [comp|]. split; [comp|]. split; [comp|]. split; [comp|].
  unfold fits; cbn. lia.
Qed.

(* INTEGER (1..MAX) -> u64 with upper bound and value_max() = i64::MAX *)
Theorem C15_refuted_max_keyword :
  exists r t b, wf_srange r /\ ~ Known_C15 r /\ Known_max_keyword_i64max_on_u64 r /\
                src_int_type dev_mode r = Ok t /\ rk t = U64 /\
                min_max_fn_text dev_mode t = Ok (U64, [49], b) /\
                parse_num b = Some i64_max /\ rmax t = Some i64_max /\ i64_max <> declared_hi r (rk t).
Proof.
  exists (Constrained (Lit 1) Kw false), {| rk := U64; rmin := Some 1; rmax := Some i64_max; rext := false |},
         [57; 95; 50; 50; 51; 95; 51; 55; 50; 95; 48; 51; 54; 95; 56; 53; 52; 95; 55; 55; 53; 95; 56; 48; 55].
  split; [comp|]. split.
  { intros ([=] & _). }
  split; [split; reflexivity|].
  split; [comp|]. split; [comp|]. split; [comp|]. split; [comp|]. split; [comp|]. comp.
Qed.

(* non-vacuity: the hypotheses of the main theorems are inhabited by non-trivial ranges, and the model computes *)
Example C15_nonvacuous :
  let r := Constrained (Lit (-129)) (Lit 127) false in
  wf_srange r /\ ~ Known_C15 r /\ sr_ext r = false /\
  src_int_type dev_mode r = Ok {| rk := I16; rmin := Some (-129); rmax := Some 127; rext := false |} /\
  permitted (sr_lo r) (sr_hi r) (-129) /\ rep64 (sr_lo r) (-129) /\
  min_max_fn_text dev_mode {| rk := I32; rmin := Some (-100000); rmax := Some 1000; rext := false |}
    = Ok (I32, [45; 49; 48; 48; 95; 48; 48; 48], [49; 95; 48; 48; 48]) /\
  parse_num [45; 49; 48; 48; 95; 48; 48; 48] = Some (-100000) /\
  (let r' := Constrained Kw (Lit (-5)) true in
   wf_srange r' /\ ~ Known_C15 r' /\ src_int_type release_mode r' =
     Ok {| rk := I64; rmin := Some i64_min; rmax := Some (-5); rext := true |}) /\
  (let r'' := Constrained (Lit (-5)) Kw false in ~ Known_max_keyword_i64max_on_u64 r'' /\ wf_srange r'').
Proof.
  cbv zeta.
  split; [comp|]. split.
  { intros ([=] & _). }
  split; [comp|]. split; [comp|]. split; [comp|]. split; [comp|]. split; [comp|]. split; [comp|].
  split.
  - split; [comp|]. split; [|comp].
    intros (_ & H). apply H. split; [reflexivity|]. exists (-5). split; [reflexivity|lia].
  - split; [|comp]. intros (_ & [=]).
Qed.

Print Assumptions C15_total.
Print Assumptions C15_holds_all.
Print Assumptions C15_narrowest.
Print Assumptions C15_ext_is_64.
Print Assumptions C15_accessors.
Print Assumptions C15_declared_bounds.
Print Assumptions C15_refuted_class.
Print Assumptions C15_refuted_no_lower_bound.
Print Assumptions C15_refuted_unconstrained.
Print Assumptions C15_refuted_max_keyword.
