(* C16 -- SET components encoded in canonical tag order; tags assigned per X.680.
   This file only pins statements; the model is Front/Tags.v, proofs live in Front/TagsProofs.v.

   What holds of the code (full theorems, any number of components):
     C16_canonical_le_is_X680_8_6, C16_set_sorted, C16_set_stable, C16_sequence_textual, C16_tag_rules,
     C16_automatic_tags, C16_presence_order.
   Where the code leaves X.680 / X.691 (each with a computed witness and a narrow class):
     context_tags_without_automatic_tags, additions_sorted_by_tag, marker_before_first_component,
     empty_extensible_panic, untagged_choice_ref_automatic, field_tag_const, set_own_tag;
     C16_conformant states what remains true outside these classes. *)
From A1 Require Import Front.Tags Front.TagsProofs Gen.TagConsts.
From Coq Require Import Sorting.Permutation Sorting.Sorted.
Local Open Scope N_scope.

(* ------------------------------------------------------------------------- *)
(** * Full theorems *)

(* The order `enum Tag` derives is UNIVERSAL < APPLICATION < context < PRIVATE, then the number.  Proved
   against the variant order generated from asn/tag.rs. *)
Theorem C16_canonical_le_is_X680_8_6 :
  TAG_DERIVES_ORD = 1 /\
  (forall a b : tag, tag_le a b = true <-> x680_le a b) /\
  (forall a b : tag, tag_cmp a b = Eq -> a = b) /\
  (forall a b : tag, tag_cmp a b = Gt -> tag_cmp b a = Lt).
Proof.
  split; [reflexivity|]. split; [exact tag_le_is_x680_le|]. split; [exact tag_cmp_eq|exact tag_cmp_gt_lt].
Qed.

(* SET: the emitted order is a rearrangement of the fields; the fields in front of the first addition come
   first, ascending by tag; the additions follow, ALSO ascending by tag (the code sorts them too); the sort
   succeeds whenever every field has a tag to be sorted by. *)
Theorem C16_set_sorted : forall fs ext,
  (forall out, sort_fields_canonically fs ext = Ok out ->
     let filled := map fill fs in
     let nroot := root_count ext (length fs) in
     exists roots adds,
       out = roots ++ adds
       /\ Permutation roots (firstn nroot filled) /\ Permutation adds (skipn nroot filled)
       /\ Sorted ftag_le roots /\ Sorted ftag_le adds
       /\ Permutation out filled
       /\ Forall (fun f => exists t, rf_tag f = Some t) out)
  /\ (Forall (fun f => sort_tag f <> None) fs -> exists out, sort_fields_canonically fs ext = Ok out).
Proof.
  intros fs ext. split.
  - intros out H. exact (sort_fields_canonically_sorted fs ext out H).
  - exact (sort_fields_canonically_ok fs ext).
Qed.

(* the sort is stable (fields with the same key keep their textual order) and leaves an ordered list alone *)
Theorem C16_set_stable :
  (forall (k : key) l,
     filter (fun a => key_eqb (field_key a) k) (sort_by field_cmp l)
     = filter (fun a => key_eqb (field_key a) k) l)
  /\ (forall l, Sorted ftag_le l -> sort_by ftag_cmp l = l).
Proof.
  split; [exact field_sort_stable|]. intros l H. apply (sort_by_id ftag_cmp). exact H.
Qed.

(* SEQUENCE keeps the textual order *)
Theorem C16_sequence_textual :
  (forall own fs ext l, write_constraints Keep own fs ext = Ok l ->
     l_wire l = assign_implicit_tags fs /\ map rf_idx (l_wire l) = map rf_idx fs)
  /\ (forall d l, s_set d = false -> layout_of d = Ok l ->
        map rf_idx (l_wire l) = seq 0 (length (s_comps d))).
Proof. split; [exact write_constraints_keep|exact layout_of_sequence_textual]. Qed.

(* The tag a component is ordered by: its own tag if it has one; else, for a reference, what TagResolver
   finds for the referenced definition; else the universal tag of the type.  The tag an untagged CHOICE
   contributes is the smallest one of the collected root alternatives.  The emitted TAG constant is that same
   tag unless the field is untagged and DEFAULT or SET OF. *)
Theorem C16_tag_rules :
  (forall fuel e ext i c f, comp_to_rfield fuel e ext i c = Ok f ->
     rf_idx f = i /\ rf_tag f = c_tag c /\
     is_optional (rf_ty f) = (match c_pres c with Mandatory => is_addition ext i | _ => true end) /\
     match c_tag c with
     | Some t => sort_tag f = Some t
     | None =>
         match c_ty c with
         | TBuiltin k => sort_tag f = Some (builtin_tag k)
         | TRef rf => resolve_tag fuel e rf = Ok (sort_tag f)
         | ty => resolve_type_tag fuel e ty = Ok (sort_tag f)
         end
     end)
  /\ (forall ts t, hd_error (sort_by tag_cmp ts) = Some t ->
        In t ts /\ Forall (fun u => tag_le t u = true) ts)
  /\ (forall f t, (rf_tag f <> None \/ tag_const_deviates (rf_ty f) = false) ->
        sort_tag f = Some t -> tag_const (rf_ty f) (rf_tag f) = Ok t).
Proof.
  split; [exact comp_effective_tag|]. split; [exact hd_sort_min|exact tag_const_is_sort_tag].
Qed.

(* context tags 0..n-1 in textual order are assigned exactly when no field of the list carries a tag *)
Theorem C16_automatic_tags : forall fs,
  (Exists (fun f => rf_tag f <> None) fs -> assign_implicit_tags fs = fs) /\
  (Forall (fun f => rf_tag f = None) fs ->
     map rf_tag (assign_implicit_tags fs)
       = map (fun i => Some (ContextSpecific, N.of_nat i)) (seq 0 (length fs))
     /\ map rf_idx (assign_implicit_tags fs) = map rf_idx fs
     /\ map rf_ty (assign_implicit_tags fs) = map rf_ty fs).
Proof. exact assign_implicit_tags_spec. Qed.

(* the presence bitmap: STD_OPTIONAL_FIELDS counts, and the codec visits, the OPTIONAL/DEFAULT fields among the
   first root_count fields of the emitted order -- for a SET these are the root fields in tag order *)
Theorem C16_presence_order : forall o own fs ext l,
  write_constraints o own fs ext = Ok l ->
  l_std_optional l = length (presence_fields (l_wire l) ext) /\ l_extended_after l = ext /\
  l_own l = match own with Some t => t | None => tag_of_code DEFAULT_SEQUENCE end /\
  match o with
  | Keep => l_wire l = assign_implicit_tags fs
  | Sort => sort_fields_canonically (assign_implicit_tags fs) ext = Ok (l_wire l)
  end.
Proof. exact write_constraints_consts. Qed.

(* ------------------------------------------------------------------------- *)
(** * Known deviations: classes *)

(* no AUTOMATIC TAGS in the module header, yet no component is tagged: the code numbers them anyway *)
Definition Known_C16_context_tags_without_automatic_tags (d : sdef) : Prop :=
  s_auto d = false /\ s_comps d <> [] /\ Forall (fun c => c_tag c = None) (s_comps d).
(* extension additions of a SET whose tags do not ascend in textual order (X.691 21.1 keeps them textual) *)
Definition Known_C16_additions_sorted_by_tag (fs : list rfield) (ext : option nat) : Prop :=
  ~ Sorted ftag_le (skipn (root_count ext (length fs)) (map fill fs)).
(* `...` in front of the first component *)
Definition Known_C16_marker_before_first_component (d : sdef) : Prop :=
  s_marker d = Some O /\ s_comps d <> [].
Definition Known_C16_empty_extensible_panic (d : sdef) : Prop :=
  s_marker d <> None /\ s_comps d = [].
(* untagged DEFAULT or SET OF field: TAG constant UNIVERSAL 16 *)
Definition Known_C16_field_tag_const (f : rfield) : Prop :=
  rf_tag f = None /\ tag_const_deviates (rf_ty f) = true.
(* an untagged SET: own TAG constant UNIVERSAL 16 *)
Definition Known_C16_set_own_tag (d : sdef) : Prop := s_set d = true /\ s_own d = None.
(* AUTOMATIC TAGS module, untagged component whose type is an untagged CHOICE without tagged alternatives *)
Fixpoint chases_untagged_choice (fuel : nat) (e : env) (ty : aty) : bool :=
  match fuel with
  | O => false
  | S f =>
      match ty with
      | TChoice _ alts => forallb (fun a => match fst a with None => true | Some _ => false end) alts
      | TRef (RIdx j) =>
          match nth_error e j with
          | Some d => match d_tag d with None => chases_untagged_choice f e (d_ty d) | Some _ => false end
          | None => false
          end
      | _ => false
      end
  end.
Definition Known_C16_untagged_choice_ref_automatic (d : sdef) : Prop :=
  s_auto d = true /\
  Exists (fun c => c_tag c = None /\ chases_untagged_choice (fuel_for (s_env d)) (s_env d) (c_ty c) = true) (s_comps d).

(* what remains true outside the classes that have a positive counterpart at this level *)
Theorem C16_conformant :
  (* additions stay textual unless their tags are out of order *)
  (forall fs ext out, sort_fields_canonically fs ext = Ok out ->
     ~ Known_C16_additions_sorted_by_tag fs ext ->
     out = sort_by ftag_cmp (firstn (root_count ext (length fs)) (map fill fs))
           ++ skipn (root_count ext (length fs)) (map fill fs))
  (* the TAG constant is the tag the field is ordered by *)
  /\ (forall f t, ~ Known_C16_field_tag_const f -> sort_tag f = Some t ->
        tag_const (rf_ty f) (rf_tag f) = Ok t)
  (* the root fields are the components in front of the marker *)
  /\ (forall d, ~ Known_C16_marker_before_first_component d -> ~ Known_C16_empty_extensible_panic d ->
        root_count (ext_after_of_marker (s_marker d)) (length (s_comps d))
        = match s_marker d with None => length (s_comps d) | Some p => Nat.min p (length (s_comps d)) end)
  (* the type's own TAG constant: right for every SEQUENCE and every tagged SET *)
  /\ (forall o own fs ext l, write_constraints o own fs ext = Ok l ->
        ~ (o = Sort /\ own = None) ->
        l_own l = match own with
                  | Some t => t
                  | None => tag_of_code (match o with Keep => DEFAULT_SEQUENCE | Sort => DEFAULT_SET end)
                  end).
Proof.
  split.
  { intros fs ext out H HK. apply sort_fields_canonically_additions_textual; [exact H|].
    unfold Known_C16_additions_sorted_by_tag in HK.
    set (l := skipn _ _) in *.
    (* Sorted is decidable here only classically; derive it from the double negation by induction on l *)
    assert (Hdec : forall l : list rfield, Sorted ftag_le l \/ ~ Sorted ftag_le l).
    { clear. induction l as [|x l IH]; [left; constructor|].
      destruct IH as [IH|IH].
      - destruct l as [|y l].
        + left. repeat constructor.
        + destruct (ftag_cmp x y) eqn:E.
          * left. constructor; [exact IH|]. constructor. unfold ftag_le. rewrite E. discriminate.
          * left. constructor; [exact IH|]. constructor. unfold ftag_le. rewrite E. discriminate.
          * right. intros HS. inversion HS as [|? ? _ Hhd]; subst. inversion Hhd as [|? ? Hle]; subst.
            unfold ftag_le in Hle. congruence.
      - right. intros HS. inversion HS; subst. auto. }
    destruct (Hdec l) as [HS|HS]; [exact HS|contradiction]. }
  split.
  { intros f t HK Hs. apply tag_const_is_sort_tag; [|exact Hs].
    unfold Known_C16_field_tag_const in HK.
    destruct (rf_tag f) eqn:E; [left; discriminate|].
    right. destruct (tag_const_deviates (rf_ty f)) eqn:E2; [|reflexivity]. exfalso. apply HK. auto. }
  split.
  { intros d HK1 HK2. destruct (s_marker d) as [p|] eqn:E; [|reflexivity].
    destruct p as [|p].
    - (* marker first: then there are no components (else Known), and then Known empty_extensible *)
      exfalso. destruct (s_comps d) eqn:EC.
      + apply HK2. split; congruence.
      + apply HK1. split; congruence.
    - apply root_count_marker. discriminate. }
  { intros o own fs ext l H HK. apply write_constraints_consts in H. destruct H as [_ [_ [H _]]].
    rewrite H. destruct own; [reflexivity|]. destruct o; [reflexivity|]. exfalso. apply HK. auto. }
Qed.

(* ------------------------------------------------------------------------- *)
(** * Witnesses: the code against the standard on concrete definitions *)

Definition untagged (k : bkind) (p : presence) : comp := {| c_tag := None; c_ty := TBuiltin k; c_pres := p |}.
Definition tagged (t : tag) (k : bkind) (p : presence) : comp := {| c_tag := Some t; c_ty := TBuiltin k; c_pres := p |}.
Definition mk (is_set : bool) (marker : option nat) (auto : bool) (cs : list comp) (e : env) : sdef :=
  {| s_set := is_set; s_marker := marker; s_auto := auto; s_own := None; s_comps := cs; s_env := e |}.

(* Mod DEFINITIONS ::= BEGIN Top ::= SET { c0 INTEGER, c1 BOOLEAN } END
   X.680 without AUTOMATIC TAGS: tags UNIVERSAL 2 and UNIVERSAL 1, canonical order c1, c0.
   asn1rs: tags [0] and [1], order c0, c1. *)
Theorem C16_refuted_context_tags_without_automatic_tags :
  exists d l, Known_C16_context_tags_without_automatic_tags d /\ s_set d = true /\
    layout_of d = Ok l /\
    map rf_idx (l_wire l) = [0; 1]%nat /\
    l_tags l = [(ContextSpecific, 0); (ContextSpecific, 1)] /\
    map c_ty (s_comps d) = [TBuiltin KInt; TBuiltin KBool] /\
    x680_lt (builtin_tag KBool) (builtin_tag KInt).
Proof.
  exists (mk true None false [untagged KInt Mandatory; untagged KBool Mandatory] []).
  eexists. split.
  { split; [reflexivity|]. split; [discriminate|]. repeat constructor. }
  split; [reflexivity|]. split; [vm_compute; reflexivity|].
  split; [reflexivity|]. split; [reflexivity|]. split; [reflexivity|].
  right. vm_compute. split; reflexivity.
Qed.

(* Top ::= SET { c0 [0] INTEGER, ..., c1 [2] INTEGER, c2 [1] INTEGER }
   X.691 21.1: c0, c1, c2 (additions in textual order).  asn1rs: c0, c2, c1. *)
Theorem C16_refuted_additions_sorted_by_tag :
  exists d l, s_set d = true /\ s_marker d = Some 1%nat /\ layout_of d = Ok l /\
    map rf_idx (l_wire l) = [0; 2; 1]%nat /\
    l_tags l = [(ContextSpecific, 0); (ContextSpecific, 1); (ContextSpecific, 2)].
Proof.
  exists (mk true (Some 1%nat) true
            [tagged (ContextSpecific, 0) KInt Mandatory; tagged (ContextSpecific, 2) KInt Mandatory;
             tagged (ContextSpecific, 1) KInt Mandatory] []).
  eexists. split; [reflexivity|]. split; [reflexivity|]. split; [vm_compute; reflexivity|].
  split; reflexivity.
Qed.

(* Top ::= SET { ..., c0 [1] INTEGER OPTIONAL, c1 [0] BOOLEAN }
   X.680: no root component, two additions.  asn1rs: EXTENDED_AFTER_FIELD = Some(0), c0 is a root field with
   a presence bit. *)
Theorem C16_refuted_marker_before_first_component :
  exists d l, Known_C16_marker_before_first_component d /\ layout_of d = Ok l /\
    l_extended_after l = Some 0%nat /\ l_std_optional l = 1%nat /\ map rf_idx (l_wire l) = [0; 1]%nat.
Proof.
  exists (mk true (Some 0%nat) true
            [tagged (ContextSpecific, 1) KInt Optional; tagged (ContextSpecific, 0) KBool Mandatory] []).
  eexists. split; [split; [reflexivity|discriminate]|]. split; [vm_compute; reflexivity|].
  repeat split; reflexivity.
Qed.

(* Top ::= SEQUENCE { ... } : RustCodeGenerator indexes fields[0] of an empty list *)
Theorem C16_refuted_empty_extensible_panic :
  exists d, Known_C16_empty_extensible_panic d /\ layout_of d = Panic P_INDEX_OOB.
Proof.
  exists (mk false (Some 0%nat) true [] []). split; [split; [discriminate|reflexivity]|].
  vm_compute. reflexivity.
Qed.

(* Mod DEFINITIONS AUTOMATIC TAGS ::= BEGIN Top ::= SET { c0 [APPLICATION 1] BOOLEAN, c1 R0 }
   R0 ::= CHOICE { a0 INTEGER, a1 BOOLEAN } END
   X.680: the alternatives of R0 are automatically tagged [0], [1]; c1 is ordered by [0].
   asn1rs: c1 is ordered by (and carries) UNIVERSAL 1. *)
Theorem C16_refuted_untagged_choice_ref_automatic :
  exists d l, Known_C16_untagged_choice_ref_automatic d /\ layout_of d = Ok l /\
    map rf_idx (l_wire l) = [1; 0]%nat /\ l_tags l = [(Universal, 1); (Application, 1)].
Proof.
  exists (mk true None true
            [tagged (Application, 1) KBool Mandatory; {| c_tag := None; c_ty := TRef (RIdx 0); c_pres := Mandatory |}]
            [{| d_tag := None; d_ty := TChoice None [(None, TBuiltin KInt); (None, TBuiltin KBool)] |}]).
  eexists. split.
  { split; [reflexivity|]. apply Exists_cons_tl. apply Exists_cons_hd. split; reflexivity. }
  split; [vm_compute; reflexivity|]. split; reflexivity.
Qed.

(* Top ::= SET { c0 [0] BOOLEAN, c1 INTEGER DEFAULT 0, c2 SET OF INTEGER }
   asn1rs orders c1 by UNIVERSAL 2 and c2 by UNIVERSAL 17 but emits TAG = UNIVERSAL 16 for both. *)
Theorem C16_refuted_field_tag_const :
  exists d l fs, layout_of d = Ok l /\
    comps_to_rfields (fuel_for (s_env d)) (s_env d) None 0 (s_comps d) = Ok fs /\
    Forall Known_C16_field_tag_const (skipn 1 fs) /\
    map rf_idx (l_wire l) = [1; 2; 0]%nat /\
    l_tags l = [(Universal, 16); (Universal, 16); (ContextSpecific, 0)] /\
    map sort_tag (l_wire l) = [Some (Universal, 2); Some (Universal, 17); Some (ContextSpecific, 0)].
Proof.
  exists (mk true None true
            [tagged (ContextSpecific, 0) KBool Mandatory; untagged KInt Default; untagged KSetOf Mandatory] []).
  eexists. eexists. split; [vm_compute; reflexivity|]. split; [vm_compute; reflexivity|].
  split; [cbn [skipn]; constructor; [split; reflexivity|]; constructor; [split; reflexivity|]; constructor|].
  split; [reflexivity|]. split; reflexivity.
Qed.

(* Top ::= SET { } : own TAG constant UNIVERSAL 16, X.680: UNIVERSAL 17 (= Tag::DEFAULT_SET) *)
Theorem C16_refuted_set_own_tag :
  exists d l, Known_C16_set_own_tag d /\ layout_of d = Ok l /\
    l_own l = (Universal, 16) /\ tag_of_code DEFAULT_SET = (Universal, 17).
Proof.
  exists (mk true None true [] []). eexists. split; [split; reflexivity|].
  split; [vm_compute; reflexivity|]. split; reflexivity.
Qed.

(* non-vacuity: a SET in an AUTOMATIC TAGS module with mixed classes, a reference and an addition goes
   through the whole path and comes out in canonical order; the hypotheses of the theorems above are
   inhabited by it.
   Top ::= SET { c0 [PRIVATE 1] INTEGER, c1 R0 OPTIONAL, c2 [5] BOOLEAN, c3 [APPLICATION 30] NULL, ...,
                 c4 [0] UTF8String }        R0 ::= ENUMERATED { .. } *)
Example C16_nonvacuous :
  let d := mk true (Some 4%nat) true
             [tagged (Private, 1) KInt Mandatory;
              {| c_tag := None; c_ty := TRef (RIdx 0); c_pres := Optional |};
              tagged (ContextSpecific, 5) KBool Mandatory;
              tagged (Application, 30) KNull Mandatory;
              tagged (ContextSpecific, 0) KUtf8 Mandatory]
             [{| d_tag := None; d_ty := TConstr KEnum |}] in
  exists l, layout_of d = Ok l /\
    map rf_idx (l_wire l) = [1; 3; 2; 0; 4]%nat /\
    l_tags l = [(Universal, 10); (Application, 30); (ContextSpecific, 5); (Private, 1); (ContextSpecific, 0)] /\
    l_std_optional l = 1%nat /\ l_extended_after l = Some 3%nat /\
    ~ Known_C16_marker_before_first_component d /\ ~ Known_C16_empty_extensible_panic d /\
    ~ Known_C16_context_tags_without_automatic_tags d /\
    Forall (fun f => sort_tag f <> None) (l_wire l) /\
    Sorted ftag_le (firstn 4 (l_wire l)).
Proof.
  cbv zeta. eexists. split; [vm_compute; reflexivity|].
  split; [reflexivity|]. split; [reflexivity|]. split; [reflexivity|]. split; [reflexivity|].
  split; [intros [H _]; discriminate|]. split; [intros [_ H]; discriminate|].
  split; [intros [H _]; discriminate|].
  split; [repeat constructor; discriminate|].
  repeat constructor; discriminate.
Qed.

Print Assumptions C16_canonical_le_is_X680_8_6.
Print Assumptions C16_set_sorted.
Print Assumptions C16_set_stable.
Print Assumptions C16_sequence_textual.
Print Assumptions C16_tag_rules.
Print Assumptions C16_automatic_tags.
Print Assumptions C16_presence_order.
Print Assumptions C16_conformant.
Print Assumptions C16_refuted_context_tags_without_automatic_tags.
Print Assumptions C16_refuted_additions_sorted_by_tag.
Print Assumptions C16_refuted_marker_before_first_component.
Print Assumptions C16_refuted_empty_extensible_panic.
Print Assumptions C16_refuted_untagged_choice_ref_automatic.
Print Assumptions C16_refuted_field_tag_const.
Print Assumptions C16_refuted_set_own_tag.
