(* Props/C16.v -- stub, to be filled *)
