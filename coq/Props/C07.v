(* C07 -- parsing preserves every declared element of an ASN.1 module.
   Statements only; models in Front/Lex.v, Front/Parse.v, Front/Resolve.v; surface syntax (abstract syntax plus the
   spellings of numerals / literals), printers, denotations and well-formedness predicates in Front/Print.v; proofs in
   Front/ParseProofs.v (tags, SIZE, INTEGER ranges, named numbers), Front/TypeGrammarProofs.v (everything else) and
   Front/ModuleGrammarProofs.v (the generic module loop).

   Shape:  parse_X (print_X x ++ rest) = POk (denote x, rest)  for every continuation `rest` (in the FOLLOW set where
   the parser looks ahead), numerals abstracted by the decimal parser (every spelling FromStr accepts).
     * C07_parse_print : wf_module A -> parse (print_module A) = POk (denote_module A)  -- whole modules: name, optional
       OBJECT IDENTIFIER value, IMPORTS, type assignments `Name ::= [tag] Type`, value assignments `name Type ::= literal`;
     * C07_parse_print_type : the mutually recursive type grammar (read_role), every type the parser builds: BOOLEAN, NULL,
       INTEGER (named numbers, range), the character string types, OCTET STRING, BIT STRING (named bits), SIZE in both
       spellings, ENUMERATED, SEQUENCE / SET (tags, OPTIONAL, DEFAULT literal / reference, extension marker), SEQUENCE OF /
       SET OF, CHOICE, type references; fuel bound 2 * tokens (parse_fuel is above it);
     * C07_parse_print_enumerated, C07_parse_print_oid, C07_parse_print_opt_oid, C07_parse_print_imports: full for the
       abstract syntax (every value of the model type that the parser can return is printed and read back);
     * C07_parse_print_literal_partial: BOOLEAN / INTEGER / cstring / hstring / bstring literals; PARTIAL: cstrings are
       the ones printable as `"` text pieces `"` on one line (first piece a text directly after the quote, no quote
       character inside), hstrings of even length, bstrings of a multiple of 8 bits;
     * the older _partial statements for tags, SIZE, named numbers, INTEGER ranges (now also covered through
       C07_parse_print_type).
   What wf_* excludes is, class by class, a REFUTED witness below (vm_compute on the whole front-end model: tokenizer,
   parser, resolver): the parser does not preserve these inputs.  Not covered by theorems: the tokenizer direction
   (text -> tokens; differential tie op 3301 and the Python oracle canon(A)) and type assignments interleaved with value
   assignments (Front/ModuleGrammarProofs.parse_module_items allows any order; print_module prints the projection). *)
From Coq Require Import String.
From A1 Require Front.ModuleGrammarProofs.
From A1 Require Import Front.Lex Front.Parse Front.Print Front.ParseProofs Front.TypeGrammarProofs Front.Resolve
  Extract.OpsParse.
Local Open Scope N_scope.

Theorem C07_parse_print_tag_partial : forall t num rest,
  parse_u64 num = Some (tag_number t) ->
  read_tag (print_tag t num ++ rest) = POk (t, rest).
Proof. exact read_tag_print. Qed.

Theorem C07_parse_print_opt_tag_partial : forall t num w rest,
  (forall tg, t = Some tg -> parse_u64 num = Some (tag_number tg)) ->
  next_with_opt_tag (print_opt_tag t num ++ T w :: rest) = POk (T w, t, rest).
Proof. exact next_with_opt_tag_print. Qed.

Theorem C07_parse_print_size_partial : forall s sa sb rest,
  size_wf s sa sb ->
  read_size (print_size s sa sb ++ rest) = POk (s, rest).
Proof. exact read_size_print. Qed.

Theorem C07_parse_print_named_numbers_partial : forall (V : Type) (parser : token -> pres V) its rest,
  Forall (item_ok V parser) its ->
  (its = [] -> peek_is_sep C_LBRACE rest = false) ->
  maybe_read_constants V parser (print_constants its ++ rest) = POk (map item_value its, rest).
Proof. exact maybe_read_constants_print. Qed.

Theorem C07_parse_print_integer_range_partial : forall (its : list (str * str * Z)) r sa sb rest,
  Forall (item_ok Z constant_i64_parser) its ->
  range_wf r sa sb ->
  read_integer (print_constants its ++ print_range r sa sb ++ rest) = POk (r, map item_value its, rest).
Proof. exact read_integer_print. Qed.

Theorem C07_parse_print_integer_unconstrained_partial : forall rest,
  peek_is_sep C_LBRACE rest = false -> peek_is_sep C_LPAREN rest = false ->
  read_integer rest = POk ((None, None, false), [], rest).
Proof. exact read_integer_unconstrained. Qed.

(* non-vacuity of the SIZE and INTEGER hypotheses: SIZE(lo..64, ...) and INTEGER { a(1), b(-2) } (MIN..hi) *)
Example C07_nonvacuous_size :
  size_wf (SRange (Ref (s2n "lo")) (Lit 64) true) (s2n "lo") (s2n "64") /\
  read_size (print_size (SRange (Ref (s2n "lo")) (Lit 64) true) (s2n "lo") (s2n "64") ++ [P C_RPAREN])
    = POk (SRange (Ref (s2n "lo")) (Lit 64) true, [P C_RPAREN]).
Proof.
  split.
  - cbn [size_wf denotes_n]. split; [|split; [|split]].
    + split; [reflexivity | split; [vm_compute; reflexivity | split; vm_compute; reflexivity]].
    + vm_compute; reflexivity.
    + reflexivity.
    + intros [H _]. discriminate H.
  - vm_compute. reflexivity.
Qed.

Example C07_nonvacuous_integer :
  Forall (item_ok Z constant_i64_parser) [(s2n "a", s2n "1", 1%Z); (s2n "b", s2n "-2", (-2)%Z)] /\
  range_wf (None, Some (Ref (s2n "hi")), false) (s2n "MIN") (s2n "hi") /\
  read_integer (print_constants [(s2n "a", s2n "1", 1%Z); (s2n "b", s2n "-2", (-2)%Z)]
                ++ print_range (None, Some (Ref (s2n "hi")), false) (s2n "MIN") (s2n "hi") ++ [P C_COMMA])
    = POk ((None, Some (Ref (s2n "hi")), false), [(s2n "a", 1%Z); (s2n "b", (-2)%Z)], [P C_COMMA]).
Proof.
  split; [|split].
  - constructor; [vm_compute; reflexivity | constructor; [vm_compute; reflexivity | constructor]].
  - cbn [range_wf denotes_z]. split; [reflexivity | split; [|split]].
    + split; [reflexivity | split; vm_compute; reflexivity].
    + intros [H _]. discriminate H.
    + intros [_ H]. discriminate H.
  - vm_compute. reflexivity.
Qed.

(* non-vacuity: [APPLICATION 007] in front of BOOLEAN *)
Example C07_nonvacuous :
  parse_u64 (s2n "007") = Some (tag_number (TagApplication 7)) /\
  next_with_opt_tag (print_opt_tag (Some (TagApplication 7)) (s2n "007") ++ T (s2n "BOOLEAN") :: [P C_RBRACE])
  = POk (T (s2n "BOOLEAN"), Some (TagApplication 7), [P C_RBRACE]).
Proof. split; vm_compute; reflexivity. Qed.

(* ---- ENUMERATED, literals, OBJECT IDENTIFIER values, IMPORTS ---- *)

(* Enumerated::try_from: items with and without numbers, one extension marker after item ext+1 (last or in the
   middle), in front of any continuation.  enum_wf: at least one item (the parser rejects "{ }"), the marker follows
   an existing item, numerals are what FromStr maps to the numbers. *)
Theorem C07_parse_print_enumerated : forall its ext rest,
  enum_wf its ext ->
  read_enumerated (print_enumerated its ext ++ rest) = POk (map enum_item_value its, ext, rest).
Proof. exact read_enumerated_print. Qed.

(* Model::read_literal: TRUE / FALSE in any case, digits | '-' digits, "character strings" (tokens at consistent
   columns on one line, the first token right after the quote is a text: see slit_wf and the REFUTED classes
   string_literal_rebuilt_from_tokens, empty_string_literal_rejected, string_literal_quote_escape_rejected),
   'hex'H with an even number of digits, 'bits'B with a multiple of 8 bits (classes hex_literal_odd_digits_...,
   bit_literal_right_aligned_length_lost), in front of any continuation *)
Theorem C07_parse_print_literal_partial : forall v rest,
  slit_wf v -> read_literal (print_slit v ++ rest) = POk (denote_slit v, rest).
Proof. exact read_literal_print. Qed.

(* a word that is not a literal is handed back with E_UNSUPPORTED_LITERAL (read_field turns it into a reference) *)
Theorem C07_parse_print_value_reference : forall s rest,
  value_ref_ok s -> read_literal (T s :: rest) = PErr E_UNSUPPORTED_LITERAL (Some (T s)).
Proof. exact read_literal_value_ref. Qed.

(* read_oid after "{": NameForm / NumberForm / NameAndNumberForm components up to "}" *)
Theorem C07_parse_print_oid : forall cs rest,
  Forall oidc_ok cs -> read_oid (print_oid_body cs ++ rest) = POk (map fst cs, rest).
Proof. exact read_oid_print. Qed.

Theorem C07_parse_print_opt_oid : forall o rest,
  opt_oid_ok o -> (o = None -> peek_is_sep C_LBRACE rest = false) ->
  maybe_read_oid (print_opt_oid o ++ rest) = POk (denote_opt_oid o, rest).
Proof. exact maybe_read_oid_print. Qed.

(* read_imports after the keyword:  a , b FROM X { oid } c FROM Y ;  (i_from raw, as read_imports stores it) *)
Theorem C07_parse_print_imports : forall is rest,
  Forall import_ok is -> read_imports (print_imports is ++ rest) = POk (map denote_import is, rest).
Proof. exact read_imports_print. Qed.

(* ---- the type grammar ----
   read_role on the printed surface type in front of any continuation in the FOLLOW set: BOOLEAN, NULL, INTEGER
   [{named numbers}] [(range)], the five character string types / OCTET STRING / BIT STRING [{named bits}] with
   [SIZE(..) | (SIZE(..))], ENUMERATED, SEQUENCE / SET { components: [tag] type [OPTIONAL | DEFAULT literal |
   DEFAULT reference], one extension marker }, SEQUENCE / SET [SIZE] OF type, CHOICE { [tag] alternatives, one
   marker }, type references.  Excluded by wf_sty, each a REFUTED class below: reference names spelled like builtin
   words, the folded (0..MAX) / SIZE(0..MAX) forms, markers before the first component or a second marker, WITH
   COMPONENTS (not printed), and the literal restrictions of slit_wf.
   The fuel of the type grammar is depth-like: twice the number of printed tokens is enough. *)
Theorem C07_parse_print_type : forall s rest fuel,
  wf_sty s -> follow_ok s rest -> (2 * length (print_sty s) <= fuel)%nat ->
  read_role fuel (print_sty s ++ rest) = POk (denote_sty s, rest).
Proof. exact read_role_print. Qed.

(* ---- whole modules:  Name [oid] DEFINITIONS AUTOMATIC TAGS ::= BEGIN [IMPORTS ..;] Name ::= [tag] Type ...
   name Type ::= literal ... END  (type assignments first: the canonical projection of the two lists) ---- *)
Theorem C07_parse_print : forall m, wf_module m -> parse (print_module m) = POk (denote_module m).
Proof. exact parse_print_module. Qed.

(* the same at the level of token chunks, for assignments in ANY order (type and value assignments interleaved) and
   any header without BEGIN: an item is a name followed by a chunk that read_definition / read_value_reference
   parses to its value in front of every continuation satisfying the item's follow condition
   (Front/ModuleGrammarProofs.v; C07_parse_print is the instance with the printers of the type grammar) *)
Theorem C07_parse_print_module_items : forall fuel name oid_toks oid hdr itoks imps its trailing,
  let body := (itoks ++ ModuleGrammarProofs.print_items its ++ T (KW "END") :: trailing)%list in
  maybe_read_oid (oid_toks ++ hdr ++ T (KW "BEGIN") :: body) = POk (oid, (hdr ++ T (KW "BEGIN") :: body)%list) ->
  Forall (fun x => eq_text_ic x (KW "BEGIN") = false) hdr ->
  ModuleGrammarProofs.imports_ok itoks imps ->
  Forall (ModuleGrammarProofs.item_ok fuel) its ->
  ModuleGrammarProofs.follows its (T (KW "END") :: trailing) ->
  parse_module fuel (T name :: oid_toks ++ hdr ++ T (KW "BEGIN") :: body)
  = POk {| m_name := make_name_nice name; m_oid := oid;
           m_imports := map ModuleGrammarProofs.nice_import imps;
           m_definitions := ModuleGrammarProofs.item_defs its;
           m_value_references := ModuleGrammarProofs.item_vals its |}.
Proof. exact ModuleGrammarProofs.parse_module_items. Qed.

(* ---- non-vacuity of the new hypotheses ---- *)

Ltac wf_leaf :=
  match goal with
  | |- True => exact I
  | |- Forall _ [] => constructor
  | |- _ <> _ => discriminate
  | |- ~ _ => first [ let H := fresh in intros [H _]; discriminate H | let H := fresh in intros [_ H]; discriminate H ]
  | |- stag_ok _ => let tg := fresh in let H := fresh in intros tg H; inversion H; subst; vm_compute; reflexivity
  | |- (_ < _)%nat => vm_compute; lia
  | |- _ = _ => vm_compute; reflexivity
  end.
Ltac wf_go :=
  repeat first [ wf_leaf
               | match goal with |- _ /\ _ => split | |- Forall _ (_ :: _) => constructor end
               | progress cbn [wf_sty wf_sfields wf_svariants sdefault_wf ssize_wf size_wf range_wf slit_wf denotes_n
                               denotes_z ext_pos_ok defs_wf val_wf fst snd sfields_length svariants_length length
                               si_what si_from si_oid sm_name sm_oid sm_imports sm_defs sm_vals]
               | progress unfold enum_wf, enum_item_ok, value_ref_ok, const_ok, piece_ok, oidc_ok, opt_oid_ok, import_ok,
                                 assign_name_ok, wf_module ].

Definition ex_enum_items : list senum_item :=
  [(s2n "a", None); (s2n "b", Some (s2n "2", 2)); (s2n "c", None)].

(* { a , b ( 2 ) , ... , c } *)
Example C07_nonvacuous_enumerated :
  enum_wf ex_enum_items (Some 1) /\
  read_enumerated (print_enumerated ex_enum_items (Some 1) ++ [P C_COMMA])
  = POk ([(s2n "a", None); (s2n "b", Some 2); (s2n "c", None)], Some 1, [P C_COMMA]).
Proof. split; [unfold ex_enum_items; wf_go | vm_compute; reflexivity]. Qed.

(* "ab  cd, e" , '0aF3'h , '0000010111111111'B , True , -12 *)
Example C07_nonvacuous_literal :
  slit_wf (SLString 3 10 (s2n "ab") [PcText 2 (s2n "cd"); PcSep 0 44; PcText 1 (s2n "e")]) /\
  read_literal (print_slit (SLString 3 10 (s2n "ab") [PcText 2 (s2n "cd"); PcSep 0 44; PcText 1 (s2n "e")]) ++ [P C_RBRACE])
  = POk (LString (s2n "ab  cd, e"), [P C_RBRACE]) /\
  slit_wf (SLHex 1 1 (s2n "0aF3") (s2n "h")) /\
  read_literal (print_slit (SLHex 1 1 (s2n "0aF3") (s2n "h")) ++ []) = POk (LOctets [10; 243], []) /\
  slit_wf (SLBits 1 1 (s2n "0000010111111111") (s2n "B")) /\
  read_literal (print_slit (SLBits 1 1 (s2n "0000010111111111") (s2n "B")) ++ []) = POk (LOctets [5; 255], []) /\
  slit_wf (SLBool (s2n "True") true) /\ slit_wf (SLInt (s2n "-12") (-12)%Z) /\ value_ref_ok (s2n "+7").
Proof. wf_go. Qed.

(* { iso ( 1 ) 2 demo } and  A , b FROM Other { 1 } C FROM Third ; *)
Definition ex_oid : list soidc :=
  [(NameAndNumberForm (s2n "iso") 1, s2n "1"); (NumberForm 2, s2n "2"); (NameForm (s2n "demo"), [])].
Definition ex_imports : list simport :=
  [{| si_what := [s2n "A"; s2n "b"]; si_from := s2n "Other"; si_oid := Some [(NumberForm 1, s2n "1")] |};
   {| si_what := [s2n "C"]; si_from := s2n "Third"; si_oid := None |}].

Example C07_nonvacuous_oid_imports :
  Forall oidc_ok ex_oid /\
  read_oid (print_oid_body ex_oid ++ [T (KW "DEFINITIONS")])
  = POk ([NameAndNumberForm (s2n "iso") 1; NumberForm 2; NameForm (s2n "demo")], [T (KW "DEFINITIONS")]) /\
  Forall import_ok ex_imports /\
  read_imports (print_imports ex_imports ++ [T (KW "END")])
  = POk ([{| i_what := [s2n "A"; s2n "b"]; i_from := s2n "Other"; i_from_oid := Some [NumberForm 1] |};
          {| i_what := [s2n "C"]; i_from := s2n "Third"; i_from_oid := None |}], [T (KW "END")]).
Proof. unfold ex_oid, ex_imports. wf_go. Qed.

(* SEQUENCE { a [0] INTEGER (0..7) OPTIONAL, b UTF8String (SIZE(1..4)) DEFAULT "hi", ..., c SEQUENCE SIZE(2) OF BOOLEAN,
              d [APPLICATION 3] CHOICE { x NULL, ..., y [1] Other }, e ENUMERATED { a, b(2), ..., c } DEFAULT dflt,
              f BIT STRING { flag(0) }, g SET OF OCTET STRING } *)
Definition ex_ty : sty :=
  SSequence
    (SFCons (s2n "a") (Some (TagContext 0), s2n "0")
       (SInteger [] (Some ((Some (Lit 0%Z), Some (Lit 7%Z), false), s2n "0", s2n "7"))) SDOptional
    (SFCons (s2n "b") (None, [])
       (SString Utf8 (SSParen (SRange (Lit 1) (Lit 4) false) (s2n "1") (s2n "4"))) (SDLit (SLString 1 1 (s2n "hi") []))
    (SFCons (s2n "c") (None, []) (SSequenceOf (SSBare (SFix (Lit 2) false) (s2n "2") []) SBoolean) SDNone
    (SFCons (s2n "d") (Some (TagApplication 3), s2n "3")
       (SChoice (SVCons (s2n "x") (None, []) SNull
                (SVCons (s2n "y") (Some (TagContext 1), s2n "1") (SRef (s2n "Other")) SVNil)) (Some 0)) SDNone
    (SFCons (s2n "e") (None, []) (SEnumerated ex_enum_items (Some 1)) (SDRef (s2n "dflt"))
    (SFCons (s2n "f") (None, []) (SBitString [(s2n "flag", s2n "0", 0)] SSNone) SDNone
    (SFCons (s2n "g") (None, []) (SSetOf SSNone (SOctetString SSNone)) SDNone SFNil)))))))
    (Some 1).

Example C07_nonvacuous_type :
  wf_sty ex_ty /\ follow_ok ex_ty [T (KW "END")] /\
  read_role (2 * length (print_sty ex_ty)) (print_sty ex_ty ++ [T (KW "END")]) = POk (denote_sty ex_ty, [T (KW "END")]).
Proof.
  split; [|split].
  - unfold ex_ty, ex_enum_items. wf_go.
  - unfold follow_ok. cbn [follow_req ex_ty]. repeat split; intros H; discriminate H.
  - vm_compute. reflexivity.
Qed.

Definition ex_module : smodule :=
  {| sm_name := s2n "Demo";
     sm_oid := Some ex_oid;
     sm_imports := ex_imports;
     sm_defs := [(s2n "T1", (Some (TagApplication 1), s2n "1"), ex_ty);
                 (s2n "T2", (None, []), SOctetString SSNone);
                 (s2n "T3", (None, []), SInteger [] None)];
     sm_vals := [(s2n "v", SInteger [] None, SLInt (s2n "5") 5%Z);
                 (s2n "w", SRef (s2n "T2"), SLHex 9 1 (s2n "00ff") (s2n "H"))] |}.

Example C07_nonvacuous_module :
  wf_module ex_module /\ parse (print_module ex_module) = POk (denote_module ex_module).
Proof.
  split; [| vm_compute; reflexivity].
  unfold wf_module, ex_module, ex_oid, ex_imports. cbn [sm_name sm_oid sm_imports sm_defs sm_vals].
  split; [vm_compute; reflexivity|]. split; [wf_go|]. split; [wf_go|]. split.
  - cbn [defs_wf]. unfold ex_ty, ex_enum_items.
    repeat match goal with
           | |- follow_ok _ _ /\ _ => split; [unfold follow_ok; cbn [follow_req]; repeat split; intros _; vm_compute; reflexivity|]
           | |- _ /\ _ => split
           | _ => wf_go
           end.
  - wf_go.
Qed.

(* ---- witnesses ---- *)

Definition resolved (s : string) : option (amodel rasn) :=
  match tokenize dev_mode (s2n s) with
  | Ok ts => match parse ts with
             | POk u => match resolve_single u with ROk r => Some r | _ => None end
             | _ => None
             end
  | _ => None
  end.

Definition def_types (s : string) : option (list rty) :=
  match resolved s with
  | Some r => Some (map (fun d => snd (fst (snd d))) (m_definitions r))
  | None => None
  end.

Definition parse_error_kind (s : string) : option N :=
  match tokenize dev_mode (s2n s) with
  | Ok ts => match parse ts with PErr k _ => Some k | _ => None end
  | _ => None
  end.

(* the lower bound 0 is dropped: INTEGER (0..MAX) = INTEGER *)
Example C07_refuted_integer_0_max_becomes_unconstrained :
  def_types "M DEFINITIONS ::= BEGIN A ::= INTEGER (0..MAX) B ::= INTEGER C ::= INTEGER (1..MAX) END"
  = Some [TInteger (None, None, false) []; TInteger (None, None, false) []; TInteger (Some 1%Z, None, false) []].
Proof. vm_compute. reflexivity. Qed.

Example C07_refuted_size_0_max_becomes_unconstrained :
  def_types "M DEFINITIONS ::= BEGIN A ::= OCTET STRING (SIZE(0..MAX)) B ::= OCTET STRING (SIZE(1..MAX)) END"
  = Some [TOctetString SAny; TOctetString (SRange 1 9223372036854775807 false)].
Proof. vm_compute. reflexivity. Qed.

(* marker before the first component and marker after it give the same model *)
Example C07_refuted_marker_before_first_component :
  def_types "M DEFINITIONS ::= BEGIN A ::= SEQUENCE { ..., a BOOLEAN } END"
  = def_types "M DEFINITIONS ::= BEGIN A ::= SEQUENCE { a BOOLEAN, ... } END" /\
  def_types "M DEFINITIONS ::= BEGIN A ::= SEQUENCE { ... } END" = Some [TSequence [] (Some 0)].
Proof. split; vm_compute; reflexivity. Qed.

(* { a, ..., b, ..., c }: b is an addition, c a root component; recorded: extension after index 1 *)
Example C07_refuted_second_extension_marker_overwrites_first :
  def_types "M DEFINITIONS ::= BEGIN A ::= SEQUENCE { a BOOLEAN, ..., b NULL, ..., c BOOLEAN } END"
  = def_types "M DEFINITIONS ::= BEGIN A ::= SEQUENCE { a BOOLEAN, b NULL, ..., c BOOLEAN } END".
Proof. vm_compute. reflexivity. Qed.

Example C07_refuted_with_components_dropped :
  def_types "M DEFINITIONS ::= BEGIN A ::= B (WITH COMPONENTS { ..., a PRESENT }) END"
  = def_types "M DEFINITIONS ::= BEGIN A ::= B END".
Proof. vm_compute. reflexivity. Qed.

(* a reference to the type named Integer is read as the builtin: the constraint (0..5) is gone *)
Example C07_refuted_type_reference_read_as_keyword :
  def_types "M DEFINITIONS ::= BEGIN Integer ::= INTEGER (0..5) A ::= Integer END"
  = Some [TInteger (Some 0%Z, Some 5%Z, false) []; TInteger (None, None, false) []].
Proof. vm_compute. reflexivity. Qed.

(* the value assignment named `end` ends the module: B is dropped without an error *)
Example C07_refuted_assignment_named_end_truncates_module :
  def_types "M DEFINITIONS ::= BEGIN A ::= BOOLEAN end INTEGER ::= 5 B ::= NULL END" = Some [TBoolean].
Proof. vm_compute. reflexivity. Qed.

(* SIZE(0..MAX, ...) is rejected (ExpectedSeparatorGot ')'), SIZE(1..MAX, ...) is accepted *)
Example C07_refuted_size_0_max_extensible_rejected :
  parse_error_kind "M DEFINITIONS ::= BEGIN A ::= OCTET STRING (SIZE(0..MAX, ...)) END" = Some E_EXPECTED_SEPARATOR_GOT /\
  def_types "M DEFINITIONS ::= BEGIN A ::= OCTET STRING (SIZE(1..MAX, ...)) END"
  = Some [TOctetString (SRange 1 9223372036854775807 true)].
Proof. split; vm_compute; reflexivity. Qed.

(* '101'B and '00000101'B are the same default value: the bit length is lost *)
Example C07_refuted_bit_literal_right_aligned_length_lost :
  def_types "M DEFINITIONS ::= BEGIN A ::= SEQUENCE { a BIT STRING DEFAULT '101'B } END"
  = def_types "M DEFINITIONS ::= BEGIN A ::= SEQUENCE { a BIT STRING DEFAULT '00000101'B } END".
Proof. vm_compute. reflexivity. Qed.

Example C07_refuted_module_name_suffix_stripped :
  match resolved "Proto-Module DEFINITIONS ::= BEGIN A ::= BOOLEAN END" with
  | Some r => m_name r = s2n "Proto-"
  | None => False
  end.
Proof. vm_compute. reflexivity. Qed.

(* ---- witnesses for the classes excluded above ---- *)

Definition field_defaults (s : string) : option (list (list (str * option literal))) :=
  match resolved s with
  | Some r => Some (map (fun d => match snd (fst (snd d)) with
                                  | TSequence fs _ => map (fun f => (fst f, snd (snd f))) fs
                                  | _ => []
                                  end) (m_definitions r))
  | None => None
  end.

(* a cstring is rebuilt from tokens and columns: a leading separator character becomes a blank, outer blanks vanish *)
Example C07_refuted_string_literal_rebuilt_from_tokens :
  field_defaults "M DEFINITIONS ::= BEGIN A ::= SEQUENCE { a UTF8String DEFAULT ""(a)"" } END"
  = Some [[(s2n "a", Some (LString (s2n " a)")))]] /\
  field_defaults "M DEFINITIONS ::= BEGIN A ::= SEQUENCE { a UTF8String DEFAULT "" ab "" } END"
  = Some [[(s2n "a", Some (LString (s2n "ab")))]].
Proof. split; vm_compute; reflexivity. Qed.

(* the closing quote of "" (and of ''H) is taken as content: the following tokens are swallowed up to the next quote *)
Example C07_refuted_empty_string_literal_rejected :
  parse_error_kind "M DEFINITIONS ::= BEGIN A ::= SEQUENCE { a UTF8String DEFAULT """" } END" = Some E_END_OF_STREAM /\
  parse_error_kind "M DEFINITIONS ::= BEGIN A ::= SEQUENCE { a UTF8String DEFAULT """", b UTF8String DEFAULT ""x"" } END"
  = Some E_UNEXPECTED_TOKEN /\
  parse_error_kind "M DEFINITIONS ::= BEGIN A ::= SEQUENCE { a OCTET STRING DEFAULT ''H } END" = Some E_END_OF_STREAM.
Proof. repeat split; vm_compute; reflexivity. Qed.

(* the doubled quote that stands for a quote character inside a cstring ends the literal *)
Example C07_refuted_string_literal_quote_escape_rejected :
  parse_error_kind "M DEFINITIONS ::= BEGIN A ::= SEQUENCE { a UTF8String DEFAULT ""a""""b"" } END" = Some E_UNEXPECTED_TOKEN.
Proof. vm_compute; reflexivity. Qed.

(* '123'H and '0123'H are the same default value (X.680 pads '123'H to 12 30) *)
Example C07_refuted_hex_literal_odd_digits_padded_in_front :
  def_types "M DEFINITIONS ::= BEGIN A ::= SEQUENCE { a OCTET STRING DEFAULT '123'H } END"
  = def_types "M DEFINITIONS ::= BEGIN A ::= SEQUENCE { a OCTET STRING DEFAULT '0123'H } END" /\
  field_defaults "M DEFINITIONS ::= BEGIN A ::= SEQUENCE { a OCTET STRING DEFAULT '123'H } END"
  = Some [[(s2n "a", Some (LOctets [1; 35]))]].
Proof. split; vm_compute; reflexivity. Qed.

(* an assignment named Size / size after a string type without a constraint is taken for its SIZE constraint *)
Example C07_refuted_assignment_named_size_after_string_type_rejected :
  parse_error_kind "M DEFINITIONS ::= BEGIN A ::= OCTET STRING Size ::= INTEGER END" = Some E_EXPECTED_SEPARATOR_GOT /\
  parse_error_kind "M DEFINITIONS ::= BEGIN A ::= UTF8String size INTEGER ::= 5 END" = Some E_EXPECTED_SEPARATOR_GOT /\
  def_types "M DEFINITIONS ::= BEGIN A ::= OCTET STRING Siz ::= INTEGER END"
  = Some [TOctetString SAny; TInteger (None, None, false) []].
Proof. repeat split; vm_compute; reflexivity. Qed.

(* DEFAULT <identifier>: the named numbers of the component's own INTEGER type are never consulted: without a value of
   that name the legal module is rejected (FailedToResolveReference), with one the value (50) is taken, not the named
   number (5) *)
Definition resolve_error_of (s : string) : option rerr :=
  match tokenize dev_mode (s2n s) with
  | Ok ts => match parse ts with
             | POk u => match resolve_single u with RErr e => Some e | _ => None end
             | _ => None
             end
  | _ => None
  end.

Example C07_refuted_default_named_number_not_consulted :
  resolve_error_of "M DEFINITIONS ::= BEGIN S ::= SEQUENCE { n INTEGER { medium(5) } DEFAULT medium } END"
  = Some (FailedToResolveReference (s2n "medium")) /\
  def_types "M DEFINITIONS ::= BEGIN medium INTEGER ::= 50 S ::= SEQUENCE { n INTEGER { medium(5) } DEFAULT medium } END"
  = Some [TSequence [(s2n "n", (None, TInteger (None, None, false) [(s2n "medium", 5%Z)], Some (LInteger 50)))] None].
Proof. split; vm_compute; reflexivity. Qed.

(* DEFAULT <item> through a type reference to the ENUMERATED: only a definition that is itself an ENUMERATED is
   inspected; compare the direct reference, which gives the item with or without the value *)
Example C07_refuted_default_item_through_reference_chain_not_followed :
  resolve_error_of "M DEFINITIONS ::= BEGIN Level ::= ENUMERATED { low, medium, high } L2 ::= Level S ::= SEQUENCE { x L2 DEFAULT medium } END"
  = Some (FailedToResolveReference (s2n "medium")) /\
  def_types "M DEFINITIONS ::= BEGIN Level ::= ENUMERATED { low, medium } L2 ::= Level medium INTEGER ::= 50 S ::= SEQUENCE { x L2 DEFAULT medium, y Level DEFAULT medium } END"
  = Some [TEnumerated [(s2n "low", None); (s2n "medium", None)] None; TRef (s2n "Level") None;
          TSequence [(s2n "x", (None, TRef (s2n "L2") None, Some (LInteger 50)));
                     (s2n "y", (None, TRef (s2n "Level") None, Some (LEnumVariant (s2n "Level") (s2n "medium"))))] None].
Proof. split; vm_compute; reflexivity. Qed.

Print Assumptions C07_parse_print_tag_partial.
Print Assumptions C07_parse_print_opt_tag_partial.
Print Assumptions C07_parse_print_size_partial.
Print Assumptions C07_parse_print_named_numbers_partial.
Print Assumptions C07_parse_print_integer_range_partial.
Print Assumptions C07_parse_print_integer_unconstrained_partial.
Print Assumptions C07_parse_print_enumerated.
Print Assumptions C07_parse_print_literal_partial.
Print Assumptions C07_parse_print_value_reference.
Print Assumptions C07_parse_print_oid.
Print Assumptions C07_parse_print_opt_oid.
Print Assumptions C07_parse_print_imports.
Print Assumptions C07_parse_print_type.
Print Assumptions C07_parse_print.
Print Assumptions C07_parse_print_module_items.
Print Assumptions C07_refuted_integer_0_max_becomes_unconstrained.
Print Assumptions C07_refuted_size_0_max_becomes_unconstrained.
Print Assumptions C07_refuted_marker_before_first_component.
Print Assumptions C07_refuted_second_extension_marker_overwrites_first.
Print Assumptions C07_refuted_with_components_dropped.
Print Assumptions C07_refuted_type_reference_read_as_keyword.
Print Assumptions C07_refuted_assignment_named_end_truncates_module.
Print Assumptions C07_refuted_size_0_max_extensible_rejected.
Print Assumptions C07_refuted_bit_literal_right_aligned_length_lost.
Print Assumptions C07_refuted_module_name_suffix_stripped.
Print Assumptions C07_refuted_string_literal_rebuilt_from_tokens.
Print Assumptions C07_refuted_empty_string_literal_rejected.
Print Assumptions C07_refuted_string_literal_quote_escape_rejected.
Print Assumptions C07_refuted_hex_literal_odd_digits_padded_in_front.
Print Assumptions C07_refuted_assignment_named_size_after_string_type_rejected.
Print Assumptions C07_refuted_default_named_number_not_consulted.
Print Assumptions C07_refuted_default_item_through_reference_chain_not_followed.
