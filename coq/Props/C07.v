(* C07 -- parsing preserves every declared element of an ASN.1 module.
   Statements only; models in Front/Lex.v, Front/Parse.v, Front/Resolve.v, printers in Front/Print.v, proofs in
   Front/ParseProofs.v.

   PARTIAL.  Covered productions of  parse_X (print_X x ++ rest) = POk (x, rest):
     * Tag  (UNIVERSAL / APPLICATION / PRIVATE / context-specific, every numeral FromStr accepts), for every rest;
     * "[ tag ] word" in front of a type (next_with_opt_tag), tag optional, for every rest;
     * SIZE ( a ) | SIZE ( a , ... ) | SIZE ( a .. b ) | SIZE ( a .. b , ... )  with a, b numerals or value
       references (Size::try_from), except the two forms the parser rewrites (SIZE(0..MAX) -> no constraint: class
       size_0_max_becomes_unconstrained; SIZE(a..a) = SIZE(a), the canonical projection), for every rest;
     * named numbers / named bits { n ( v ) , ... } for any value parser (maybe_read_constants), and
       INTEGER [{ named numbers }] ( lo .. hi [, ...] ) with lo, hi numerals, value references or MIN / MAX
       (Integer::try_from), except the two folded forms (0..MAX), (MIN..i64::MAX) (classes integer_0_max_...,
       integer_min_i64max_...); the unconstrained INTEGER under the follow-set condition "neither { nor ( follows".
   NOT covered by theorems: ENUMERATED, literals, OIDs, imports and the
   mutually recursive type grammar (components / CHOICE / OF), module level; these are covered by the differential
   tie of whole modules (op 3301: the model's dump equals the crate's) and by the Python oracle canon(A) only.
   Refuted classes: one vm_compute witness each on the whole front-end model (tokenizer, parser, resolver). *)
From Coq Require Import String.
From A1 Require Import Front.Lex Front.Parse Front.Print Front.ParseProofs Front.Resolve Extract.OpsParse.
Local Open Scope N_scope.

Theorem C07_parse_print_tag_partial : forall t num rest,
  parse_u64 num = Some (tag_number t) ->
  read_tag (print_tag t num ++ rest) = POk (t, rest).
Proof. exact read_tag_print. Qed.

Theorem C07_parse_print_opt_tag_partial : forall t num w rest,
  (forall tg, t = Some tg -> parse_u64 num = Some (tag_number tg)) ->
  next_with_opt_tag (print_opt_tag t num ++ T w :: rest) = POk (T w, t, rest).
Proof. exact next_with_opt_tag_print. Qed.

Theorem C07_parse_print_size_partial : forall s sa sb rest,
  size_wf s sa sb ->
  read_size (print_size s sa sb ++ rest) = POk (s, rest).
Proof. exact read_size_print. Qed.

Theorem C07_parse_print_named_numbers_partial : forall (V : Type) (parser : token -> pres V) its rest,
  Forall (item_ok V parser) its ->
  (its = [] -> peek_is_sep C_LBRACE rest = false) ->
  maybe_read_constants V parser (print_constants its ++ rest) = POk (map item_value its, rest).
Proof. exact maybe_read_constants_print. Qed.

Theorem C07_parse_print_integer_range_partial : forall (its : list (str * str * Z)) r sa sb rest,
  Forall (item_ok Z constant_i64_parser) its ->
  range_wf r sa sb ->
  read_integer (print_constants its ++ print_range r sa sb ++ rest) = POk (r, map item_value its, rest).
Proof. exact read_integer_print. Qed.

Theorem C07_parse_print_integer_unconstrained_partial : forall rest,
  peek_is_sep C_LBRACE rest = false -> peek_is_sep C_LPAREN rest = false ->
  read_integer rest = POk ((None, None, false), [], rest).
Proof. exact read_integer_unconstrained. Qed.

(* non-vacuity of the SIZE and INTEGER hypotheses: SIZE(lo..64, ...) and INTEGER { a(1), b(-2) } (MIN..hi) *)
Example C07_nonvacuous_size :
  size_wf (SRange (Ref (s2n "lo")) (Lit 64) true) (s2n "lo") (s2n "64") /\
  read_size (print_size (SRange (Ref (s2n "lo")) (Lit 64) true) (s2n "lo") (s2n "64") ++ [P C_RPAREN])
    = POk (SRange (Ref (s2n "lo")) (Lit 64) true, [P C_RPAREN]).
Proof.
  split.
  - cbn [size_wf denotes_n]. split; [|split; [|split]].
    + split; [reflexivity | split; [vm_compute; reflexivity | split; vm_compute; reflexivity]].
    + vm_compute; reflexivity.
    + reflexivity.
    + intros [H _]. discriminate H.
  - vm_compute. reflexivity.
Qed.

Example C07_nonvacuous_integer :
  Forall (item_ok Z constant_i64_parser) [(s2n "a", s2n "1", 1%Z); (s2n "b", s2n "-2", (-2)%Z)] /\
  range_wf (None, Some (Ref (s2n "hi")), false) (s2n "MIN") (s2n "hi") /\
  read_integer (print_constants [(s2n "a", s2n "1", 1%Z); (s2n "b", s2n "-2", (-2)%Z)]
                ++ print_range (None, Some (Ref (s2n "hi")), false) (s2n "MIN") (s2n "hi") ++ [P C_COMMA])
    = POk ((None, Some (Ref (s2n "hi")), false), [(s2n "a", 1%Z); (s2n "b", (-2)%Z)], [P C_COMMA]).
Proof.
  split; [|split].
  - constructor; [vm_compute; reflexivity | constructor; [vm_compute; reflexivity | constructor]].
  - cbn [range_wf denotes_z]. split; [reflexivity | split; [|split]].
    + split; [reflexivity | split; vm_compute; reflexivity].
    + intros [H _]. discriminate H.
    + intros [_ H]. discriminate H.
  - vm_compute. reflexivity.
Qed.

(* non-vacuity: [APPLICATION 007] in front of BOOLEAN *)
Example C07_nonvacuous :
  parse_u64 (s2n "007") = Some (tag_number (TagApplication 7)) /\
  next_with_opt_tag (print_opt_tag (Some (TagApplication 7)) (s2n "007") ++ T (s2n "BOOLEAN") :: [P C_RBRACE])
  = POk (T (s2n "BOOLEAN"), Some (TagApplication 7), [P C_RBRACE]).
Proof. split; vm_compute; reflexivity. Qed.

(* ---- witnesses ---- *)

Definition resolved (s : string) : option (amodel rasn) :=
  match tokenize dev_mode (s2n s) with
  | Ok ts => match parse ts with
             | POk u => match resolve_single u with ROk r => Some r | _ => None end
             | _ => None
             end
  | _ => None
  end.

Definition def_types (s : string) : option (list rty) :=
  match resolved s with
  | Some r => Some (map (fun d => snd (fst (snd d))) (m_definitions r))
  | None => None
  end.

Definition parse_error_kind (s : string) : option N :=
  match tokenize dev_mode (s2n s) with
  | Ok ts => match parse ts with PErr k _ => Some k | _ => None end
  | _ => None
  end.

(* the lower bound 0 is dropped: INTEGER (0..MAX) = INTEGER *)
Example C07_refuted_integer_0_max_becomes_unconstrained :
  def_types "M DEFINITIONS ::= BEGIN A ::= INTEGER (0..MAX) B ::= INTEGER C ::= INTEGER (1..MAX) END"
  = Some [TInteger (None, None, false) []; TInteger (None, None, false) []; TInteger (Some 1%Z, None, false) []].
Proof. vm_compute. reflexivity. Qed.

Example C07_refuted_size_0_max_becomes_unconstrained :
  def_types "M DEFINITIONS ::= BEGIN A ::= OCTET STRING (SIZE(0..MAX)) B ::= OCTET STRING (SIZE(1..MAX)) END"
  = Some [TOctetString SAny; TOctetString (SRange 1 9223372036854775807 false)].
Proof. vm_compute. reflexivity. Qed.

(* marker before the first component and marker after it give the same model *)
Example C07_refuted_marker_before_first_component :
  def_types "M DEFINITIONS ::= BEGIN A ::= SEQUENCE { ..., a BOOLEAN } END"
  = def_types "M DEFINITIONS ::= BEGIN A ::= SEQUENCE { a BOOLEAN, ... } END" /\
  def_types "M DEFINITIONS ::= BEGIN A ::= SEQUENCE { ... } END" = Some [TSequence [] (Some 0)].
Proof. split; vm_compute; reflexivity. Qed.

(* { a, ..., b, ..., c }: b is an addition, c a root component; recorded: extension after index 1 *)
Example C07_refuted_second_extension_marker_overwrites_first :
  def_types "M DEFINITIONS ::= BEGIN A ::= SEQUENCE { a BOOLEAN, ..., b NULL, ..., c BOOLEAN } END"
  = def_types "M DEFINITIONS ::= BEGIN A ::= SEQUENCE { a BOOLEAN, b NULL, ..., c BOOLEAN } END".
Proof. vm_compute. reflexivity. Qed.

Example C07_refuted_with_components_dropped :
  def_types "M DEFINITIONS ::= BEGIN A ::= B (WITH COMPONENTS { ..., a PRESENT }) END"
  = def_types "M DEFINITIONS ::= BEGIN A ::= B END".
Proof. vm_compute. reflexivity. Qed.

(* a reference to the type named Integer is read as the builtin: the constraint (0..5) is gone *)
Example C07_refuted_type_reference_read_as_keyword :
  def_types "M DEFINITIONS ::= BEGIN Integer ::= INTEGER (0..5) A ::= Integer END"
  = Some [TInteger (Some 0%Z, Some 5%Z, false) []; TInteger (None, None, false) []].
Proof. vm_compute. reflexivity. Qed.

(* the value assignment named `end` ends the module: B is dropped without an error *)
Example C07_refuted_assignment_named_end_truncates_module :
  def_types "M DEFINITIONS ::= BEGIN A ::= BOOLEAN end INTEGER ::= 5 B ::= NULL END" = Some [TBoolean].
Proof. vm_compute. reflexivity. Qed.

(* SIZE(0..MAX, ...) is rejected (ExpectedSeparatorGot ')'), SIZE(1..MAX, ...) is accepted *)
Example C07_refuted_size_0_max_extensible_rejected :
  parse_error_kind "M DEFINITIONS ::= BEGIN A ::= OCTET STRING (SIZE(0..MAX, ...)) END" = Some E_EXPECTED_SEPARATOR_GOT /\
  def_types "M DEFINITIONS ::= BEGIN A ::= OCTET STRING (SIZE(1..MAX, ...)) END"
  = Some [TOctetString (SRange 1 9223372036854775807 true)].
Proof. split; vm_compute; reflexivity. Qed.

(* '101'B and '00000101'B are the same default value: the bit length is lost *)
Example C07_refuted_bit_literal_right_aligned_length_lost :
  def_types "M DEFINITIONS ::= BEGIN A ::= SEQUENCE { a BIT STRING DEFAULT '101'B } END"
  = def_types "M DEFINITIONS ::= BEGIN A ::= SEQUENCE { a BIT STRING DEFAULT '00000101'B } END".
Proof. vm_compute. reflexivity. Qed.

Example C07_refuted_module_name_suffix_stripped :
  match resolved "Proto-Module DEFINITIONS ::= BEGIN A ::= BOOLEAN END" with
  | Some r => m_name r = s2n "Proto-"
  | None => False
  end.
Proof. vm_compute. reflexivity. Qed.

Print Assumptions C07_parse_print_tag_partial.
Print Assumptions C07_parse_print_opt_tag_partial.
Print Assumptions C07_parse_print_size_partial.
Print Assumptions C07_parse_print_named_numbers_partial.
Print Assumptions C07_parse_print_integer_range_partial.
Print Assumptions C07_parse_print_integer_unconstrained_partial.
Print Assumptions C07_refuted_integer_0_max_becomes_unconstrained.
Print Assumptions C07_refuted_size_0_max_becomes_unconstrained.
Print Assumptions C07_refuted_marker_before_first_component.
Print Assumptions C07_refuted_second_extension_marker_overwrites_first.
Print Assumptions C07_refuted_with_components_dropped.
Print Assumptions C07_refuted_type_reference_read_as_keyword.
Print Assumptions C07_refuted_assignment_named_end_truncates_module.
Print Assumptions C07_refuted_size_0_max_extensible_rejected.
Print Assumptions C07_refuted_bit_literal_right_aligned_length_lost.
Print Assumptions C07_refuted_module_name_suffix_stripped.
