(* Props/C07.v -- stub, to be filled *)
