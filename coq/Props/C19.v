(* C19 — the diagnostic feature flag does not change decoding results.  Statements pinned here.
   [read_ty_d] (Uper/ReaderD.v) is the reader built with `descriptive-deserialize-errors`: the state carries
   the log `scope_description` and every cfg-gated statement of src/rw/uper.rs is a push at its program point;
   [read_ty] (Uper/Reader.v) is the reader of the default build; [erase] drops the log. *)
From A1 Require Import Uper.Reader Uper.ReaderD Uper.ErasureProofs.
Local Open Scope N_scope.

(* same Ok value, same error kind, same panic class; the state afterwards (cursor, declared length,
   scope) is the same, so the same number of bits was consumed *)
Theorem C19_erasure : forall m t r,
  match read_ty_d m t r with
  | Ok (v, r') => read_ty m t (erase r) = Ok (v, erase r')
  | Err e => read_ty m t (erase r) = Err e
  | Panic p => read_ty m t (erase r) = Panic p
  end.
Proof. exact erasure. Qed.

(* several values read one after the other from one reader: the log accumulated by the earlier reads
   (it is never cleared on success) does not influence the later ones *)
Theorem C19_erasure_history : forall m ts r,
  match read_all_d m ts r with
  | Ok (vs, r') => read_all m ts (erase r) = Ok (vs, erase r')
  | Err e => read_all m ts (erase r) = Err e
  | Panic p => read_all m ts (erase r) = Panic p
  end.
Proof. exact erasure_history. Qed.

Example C19_nonvacuous :
  (* Outer ::= SEQUENCE { a BOOLEAN, ..., b Inner OPTIONAL, c OCTET STRING OPTIONAL }
     Inner ::= SEQUENCE { x INTEGER (0..255), ..., y BOOLEAN OPTIONAL } *)
  let inner := TSeq [(FReq, TInt U8 (Some 0%Z) (Some 255%Z) false); (FOpt, TBool)] 0 2 (Some 0) in
  let outer := TSeq [(FReq, TBool); (FOpt, inner); (FOpt, TOctets None None false)] 0 3 (Some 0) in
  let expected := VSeq [Some (VBool true); Some (VSeq [Some (VInt 7); Some (VBool true)]); Some (VOctets [1; 2])] in
  let bytes := [192; 224; 176; 112; 16; 24; 0; 0; 96; 64; 32; 64] in
  let r := r_of_src (src_of_bytes bytes 91) in
  (* the complete encoding: both builds give the value and end at bit 91; the feature build logged 30 entries *)
  (exists r', read_ty dev_mode outer r = Ok (expected, r') /\ s_pos (r_src r') = 91) /\
  (exists rd', read_ty_d dev_mode outer (rd_of r) = Ok (expected, rd') /\ s_pos (r_src (erase rd')) = 91 /\
               length (r_log rd') = 30%nat) /\
  (* the encoding cut inside the last addition: both builds fail with EndOfStream; the error of the
     feature build carries 30 log entries, the last ones being Result(Err), ReadWholeSubSlice, End *)
  let rt := r_of_src (src_of_bytes bytes 82) in
  read_ty dev_mode outer rt = Err E_END_OF_STREAM /\
  read_ty_d dev_mode outer (rd_of rt) = Err E_END_OF_STREAM /\
  option_map (fun l => (length l, skipn 27 l)) (log_on_error dev_mode outer (rd_of rt))
    = Some (30%nat, [L_RESULT; L_SUB_SLICE; L_END]).
Proof. vm_compute. repeat split; try (eexists; repeat split; reflexivity). Qed.

Print Assumptions C19_erasure.
Print Assumptions C19_erasure_history.
