(* Props/C19.v -- stub, to be filled *)
