(* C02 — UPER encodings are bit-exact X.691 within the conformance profile: for every type inside
   the conformance profile (DESIGN.md section 4) and every value, the bits produced by the UPER
   writer equal the canonical unaligned PER encoding defined by ITU-T X.691 for the source ASN.1
   type, and the UPER reader decodes every such canonical encoding to that value.
   (Statements pinned here; proofs in Uper/ConformanceProofs.v.  Model: Uper/Writer.v, Uper/Reader.v;
   X.691 at type level: Uper/X691Type.v ([x691 t v = None]: v is not a value of t) over the primitive
   transcriptions of Per/X691.v; [enc]: the reference encoder of Uper/Spec.v, equal to the writer by
   C01_writer_is_reference.  Both cargo profiles: [forall m : mode].)

   Vocabulary:
     [in_profile t]   descriptor-level image of the profile: INTEGER with both bounds or none (an
                      extension marker only with bounds), SIZE with both bounds or none, recursively;
     [sat t v]        v is a value of the ASN.1 type t (constraints hold unless extensible, characters
                      in the alphabet, indices in range);
     [Known_C02 t v]  some node of (t, v) lies in one of the deviation classes below (each with a
                      witness [C02_refuted_*]; the model reproduces the crate):
       size_upper_bound_64k     an in-root size under an upper bound >= 65536 (F02-1 / F10-1);
       fragmentation_16k        >= 16384 characters / bits / elements under the unconstrained length
                                form: known-multiplier strings, BIT STRING, SEQUENCE OF (F02-2);
       open_type_16k            an open type (extension addition, extension alternative) with >= 16384
                                octets of content: written as X.691 says, not read back (F01-3);
       empty_open_type          an open type whose content encodes to zero bits (F02-3);
       mandatory_choice_addition_inline   a mandatory CHOICE component after the marker (F02-4);
       more_than_64_additions   more than 64 extension additions, one present (11.9.3.4 second form);
       first_addition_absent    first addition absent, a later one present: refused (sanctioned by C03);
       (INTEGER) ~ is_i64 z     a value of a u64 INTEGER above i64::MAX travels as its i64 reinterpretation. *)
From A1 Require Import Uper.Spec Uper.X691Type Uper.Proofs Uper.ConformanceProofs.
Local Open Scope N_scope.

(** * the reference encoder (= the writer, C01) produces exactly the X.691 encoding *)
Theorem C02_reference_is_X691 : forall m t v,
  wf_ty t -> wf_val t v -> in_profile t -> sat t v -> ~ Known_C02 t v ->
  exists bs, x691 t v = Some bs /\ enc m t v = Ok bs.
Proof. exact reference_is_x691_sat. Qed.

(* the same for any value on which the transcription is defined, and: it is defined on every value
   of the type outside the classes *)
Theorem C02_reference_is_X691_defined : forall m t v,
  wf_ty t -> wf_val t v -> in_profile t -> x691 t v <> None -> ~ Known_C02 t v ->
  exists bs, x691 t v = Some bs /\ enc m t v = Ok bs.
Proof. exact reference_is_x691. Qed.

Theorem C02_x691_defined_on_values : forall t,
  wf_ty t -> in_profile t -> forall v, wf_val t v -> sat t v -> ~ Known_C02 t v -> x691 t v <> None.
Proof. exact sat_defined. Qed.

(** * the writer's bits are the X.691 encoding (with C01_writer_is_reference) *)
Theorem C02_writer_is_X691 : forall m t v bs w,
  wf_ty t -> wf_val t v -> in_profile t -> ~ Known_C02 t v ->
  x691 t v = Some bs -> wst_wf w -> w_scope w = None ->
  write_ty m t v w = Ok (w_append w bs).
Proof. exact writer_is_x691. Qed.

(** * the reader decodes every X.691 encoding to the value, consuming exactly its bits
      (with C01_reader_inverts_reference; the classes of C01 are inside [Known_C02]) *)
Theorem C02_reader_accepts_X691 : forall m t v bs,
  wf_ty t -> wf_val t v -> in_profile t -> ~ Known_C02 t v ->
  x691 t v = Some bs ->
  forall s tail, rsrc s bs tail ->
  read_ty m t (r_of_src s) = Ok (v, r_of_src (src_adv s (bl bs) tail)).
Proof. exact reader_accepts_x691. Qed.

(** * what X.691 does not encode (constraint violated and not extensible, character outside the
      alphabet) is not encoded by the writer either *)
Theorem C02_not_a_value_rejected : forall m t v w,
  wf_ty t -> wf_val t v -> in_profile t -> ~ Known_C02 t v ->
  x691 t v = None -> wst_wf w -> w_scope w = None -> is_ok (write_ty m t v w) = false.
Proof. exact not_a_value_rejected. Qed.

Theorem C02_not_a_value_not_encoded : forall m t,
  wf_ty t -> in_profile t -> forall v, wf_val t v -> ~ Known_C02 t v ->
  x691 t v = None -> is_ok (enc m t v) = false.
Proof. exact not_a_value_not_encoded. Qed.

Theorem C02_writer_exact : forall m t v w,
  wf_ty t -> wf_val t v -> in_profile t -> ~ Known_C02 t v -> wst_wf w -> w_scope w = None ->
  match x691 t v with
  | Some bs => write_ty m t v w = Ok (w_append w bs)
  | None => is_ok (write_ty m t v w) = false
  end.
Proof. exact writer_exact. Qed.

Theorem C02_known_C01_inside : forall m t v bs,
  wf_ty t -> in_profile t -> wf_val t v -> x691 t v = Some bs -> ~ Known_C02 t v -> ~ Known_C01 m t v.
Proof. intros m t v bs H1 H2 H3 H4 H5. exact (known_c01_c02 m t H1 H2 v bs H3 H4 H5). Qed.

(** * witnesses of the deviation classes ([deviates m t v = true] implies
      [enc m t v <> match x691 t v with Some b => Ok b | None => Err 0 end]) *)
Theorem C02_deviates_means : forall m t v, deviates m t v = true -> enc m t v <> x691_res t v.
Proof. exact deviates_neq. Qed.

Theorem C02_refuted_size_upper_bound_64k :
  exists m t v, wf_ty t /\ wf_val t v /\ in_profile t /\
    (exists lo hi ext bs, t = TOctets lo hi ext /\ v = VOctets bs /\ size_upper_bound_64k lo hi (blen bs)) /\
    Known_C02 t v /\ deviates m t v = true.
Proof. exact refuted_size_upper_bound_64k. Qed.

Theorem C02_refuted_fragmentation_16k :
  exists m t v, wf_ty t /\ wf_val t v /\ in_profile t /\
    (exists c lo hi ext cs, t = TStr c lo hi ext /\ v = VStr cs /\ fragmentation_16k lo hi ext (N.of_nat (length cs))) /\
    Known_C02 t v /\ deviates m t v = true.
Proof. exact refuted_fragmentation_16k. Qed.

Theorem C02_refuted_empty_open_type :
  exists m t v, wf_ty t /\ wf_val t v /\ in_profile t /\
    (t = w3_ty /\ v = w3_val /\ empty_open_type TNull VNull) /\
    Known_C02 t v /\ deviates m t v = true.
Proof. exact refuted_empty_open_type. Qed.

Theorem C02_refuted_mandatory_choice_addition_inline :
  exists m t v, wf_ty t /\ wf_val t v /\ in_profile t /\
    (t = w4_ty /\ v = w4_val /\ mandatory_choice_addition_inline FReq (TChoice [TBool] 1 false)) /\
    Known_C02 t v /\ deviates m t v = true.
Proof. exact refuted_mandatory_choice_addition_inline. Qed.

Theorem C02_refuted_more_than_64_additions :
  exists m t v, wf_ty t /\ wf_val t v /\ in_profile t /\
    (exists fs so fc ea vals, t = TSeq fs so fc ea /\ v = VSeq vals /\
       more_than_64_additions (skipn (root_len fs ea) (presents fs vals))) /\
    Known_C02 t v /\ deviates m t v = true.
Proof. exact refuted_more_than_64_additions. Qed.

Theorem C02_refuted_first_addition_absent :
  exists m t v, wf_ty t /\ wf_val t v /\ in_profile t /\
    (exists fs so fc ea vals, t = TSeq fs so fc ea /\ v = VSeq vals /\
       first_addition_absent (skipn (root_len fs ea) (presents fs vals))) /\
    Known_C02 t v /\ enc m t v = Err E_EXT_INCONSISTENT /\ deviates m t v = true.
Proof. exact refuted_first_addition_absent. Qed.

Theorem C02_refuted_int_beyond_i64 :
  exists m t v, wf_ty t /\ wf_val t v /\ in_profile t /\
    (exists k lo hi ext z, t = TInt k lo hi ext /\ v = VInt z /\ ~ is_i64 z) /\
    Known_C02 t v /\ deviates m t v = true.
Proof. exact refuted_int_beyond_i64. Qed.

(* reader side only: the writer agrees with X.691 (fragmented open type), the reader does not decode it *)
Theorem C02_refuted_open_type_16k_reader :
  exists m t v, wf_ty t /\ in_profile t /\ Known_C02 t v /\
    deviates m t v = false /\ reader_misses_x691 m t v = true.
Proof. exact refuted_open_type_16k_reader. Qed.

(** * non-vacuity: the nested extensible SEQUENCE of C01 (OPTIONAL, DEFAULT, a CHOICE taking its
      extension alternative, a SEQUENCE OF of 3 elements, three extension additions) *)
Example C02_nonvacuous :
  wf_ty ex_ty /\ wf_val ex_ty ex_val /\ in_profile ex_ty /\ sat ex_ty ex_val /\ ~ Known_C02 ex_ty ex_val /\
  exists bs, x691 ex_ty ex_val = Some bs /\ enc dev_mode ex_ty ex_val = Ok bs /\
             enc release_mode ex_ty ex_val = Ok bs /\ bl bs = 128 /\
             write_ty dev_mode ex_ty ex_val w_empty = Ok (w_append w_empty bs) /\
             read_ty dev_mode ex_ty (r_of_src (src_of_bits (bs ++ [true; false]) (bl bs + 2)))
             = Ok (ex_val, r_of_src (src_adv (src_of_bits (bs ++ [true; false]) (bl bs + 2)) (bl bs) [true; false])).
Proof.
  destruct nonvacuous_c02 as (H1 & H2 & H3 & H4 & H5).
  exact (conj H1 (conj H2 (conj H3 (conj nonvacuous_sat (conj H4 H5))))).
Qed.

Print Assumptions C02_reference_is_X691.
Print Assumptions C02_reference_is_X691_defined.
Print Assumptions C02_x691_defined_on_values.
Print Assumptions C02_writer_is_X691.
Print Assumptions C02_not_a_value_rejected.
Print Assumptions C02_not_a_value_not_encoded.
Print Assumptions C02_writer_exact.
Print Assumptions C02_reader_accepts_X691.
Print Assumptions C02_known_C01_inside.
Print Assumptions C02_deviates_means.
Print Assumptions C02_refuted_size_upper_bound_64k.
Print Assumptions C02_refuted_fragmentation_16k.
Print Assumptions C02_refuted_empty_open_type.
Print Assumptions C02_refuted_mandatory_choice_addition_inline.
Print Assumptions C02_refuted_more_than_64_additions.
Print Assumptions C02_refuted_first_addition_absent.
Print Assumptions C02_refuted_int_beyond_i64.
Print Assumptions C02_refuted_open_type_16k_reader.
Print Assumptions C02_nonvacuous.
