(* Props/C02.v -- stub, to be filled *)
