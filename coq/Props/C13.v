(* Props/C13.v -- stub, to be filled *)
