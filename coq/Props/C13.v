(* C13 -- the token sequence and every token's location are invariant under whitespace / comment layout.
   This file only pins statements; model in Front/Lex.v, specification (render, lex_safe,
   positions) and proofs in Front/LexProofs.v.

   Coverage of the (full, not partial) theorems: every token list whose text items are non-empty runs of
   non-control, non-blank, non-separator characters without "--" and "/*" that do not end in '-', and whose
   separator items are the 13 separator characters of the tokenizer; every layout that puts at each of the
   n+1 boundaries a gap = list of items from
     space | tab | CR LF | LF | "--" c (LF | CR LF)  with c free of CR, LF
     | "/*" body "*/"  with body a balanced sequence of characters (other than '*', '/', CR, LF), LF, CR LF,
       nested "/*" and "*/", nesting depth below 2^31 - 1 (nest_lvl is an i32);
   two adjacent text items need a non-empty gap (X.680 12.1); both cargo profiles (forall m).
   Outside: '*' and '/' as comment content, "--" c "--" comments, lone CR (covered by the differential tie only).
   History: before repair 58b7ab0 of /repo a block comment did not push the pending token, so
   SEQUENCE/* c */OF gave the single token SEQUENCEOF (class block_comment_only_gap); the model follows the
   repaired code and the theorems hold for every lex_safe layout. *)
From A1 Require Import Front.Lex Front.LexProofs.
Local Open Scope N_scope.

(* the tokenizer returns exactly the printed items at the places where they were printed *)
Theorem C13_tokenize : forall m ts gs, lex_safe ts gs ->
  tokenize m (render ts gs) = Ok (expect ts gs).
Proof. exact tokenize_render. Qed.

Theorem C13_layout_invariant : forall m ts g1 g2, lex_safe ts g1 -> lex_safe ts g2 ->
  exists o1 o2, tokenize m (render ts g1) = Ok o1 /\ tokenize m (render ts g2) = Ok o2 /\
                map strip o1 = ts /\ map strip o2 = map strip o1.
Proof. exact layout_invariant. Qed.

Theorem C13_locations : forall m ts g, lex_safe ts g ->
  exists o, tokenize m (render ts g) = Ok o /\ map loc o = positions ts g.
Proof. exact locations. Qed.

(* `positions` is intrinsic: line/column (1-based, LF-counted) of the offsets at which the items lie *)
Theorem C13_positions_intrinsic : forall ts gs,
  positions ts gs = map (pos_at (render ts gs)) (offsets ts gs).
Proof. exact positions_at. Qed.

(* SEQUENCE/* c */OF : two tokens, at (1,1) and (1,16) (S..E = columns 1-8, the comment = columns 9-15) *)
Definition w_ts : list ptoken := [PText [83; 69; 81; 85; 69; 78; 67; 69]; PText [79; 70]].
Definition w_gs : list gap := [[]; [GBlock [CChar 32; CChar 99; CChar 32]]; []].

Example C13_fixed_block_comment_gap :
  lex_safe w_ts w_gs /\
  render w_ts w_gs = [83; 69; 81; 85; 69; 78; 67; 69; 47; 42; 32; 99; 32; 42; 47; 79; 70] /\
  tokenize dev_mode (render w_ts w_gs) = Ok [Text 1 1 [83; 69; 81; 85; 69; 78; 67; 69]; Text 1 16 [79; 70]] /\
  tokenize release_mode (render w_ts w_gs) = Ok [Text 1 1 [83; 69; 81; 85; 69; 78; 67; 69]; Text 1 16 [79; 70]].
Proof. repeat split; vm_compute; reflexivity. Qed.

(* non-vacuity: a layout with all seven kinds of gap items satisfies the hypotheses, and the
   conclusion says something about it *)
Definition ex_ts : list ptoken :=
  [PText [65]; PSep 58; PSep 58; PSep 61; PText [83; 69; 81]; PText [79; 70]; PText [45; 53]; PSep 125].
Definition ex_gs : list gap :=
  [ [GLine [32; 104; 105] true; GTab];
    [GSpace];
    [];
    [];
    [GBlock [CChar 120; COpen; CChar 121; CNl; CClose; CChar 122]; GLf];
    [GBlock [CChar 99]; GBlock [CCrNl]];
    [GCrLf; GLine [] false; GSpace; GSpace];
    [GBlock []];
    [GLf] ].

Example C13_nonvacuous :
  lex_safe ex_ts ex_gs /\
  tokenize release_mode (render ex_ts ex_gs) = Ok (expect ex_ts ex_gs) /\
  map loc (expect ex_ts ex_gs) = [(2, 2); (2, 4); (2, 5); (2, 6); (4, 1); (5, 3); (7, 3); (7, 9)].
Proof.
  repeat split; vm_compute; reflexivity.
Qed.

Print Assumptions C13_tokenize.
Print Assumptions C13_layout_invariant.
Print Assumptions C13_locations.
Print Assumptions C13_positions_intrinsic.
Print Assumptions C13_fixed_block_comment_gap.
