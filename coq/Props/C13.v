(* C13 -- the token sequence and every token's location are invariant under whitespace / comment layout.
   This file only pins statements; model in Front/Lex.v, specification (render, lex_safe,
   positions) and proofs in Front/LexProofs.v.

   Coverage of the (full, not partial) theorems: every token list whose text items are non-empty runs of
   non-control, non-blank, non-separator characters without "--" and "/*" that do not end in '-', and whose
   separator items are the 13 separator characters of the tokenizer; every layout that puts at each of the
   n+1 boundaries a gap = list of items from
     space | tab | CR LF | LF | lone CR (a CR with no LF behind it)
     | "--" c (LF | CR LF)   with c free of CR, LF
     | "--" c "--"           (X.680 12.6.3) with c free of CR, LF, "--", not ending in '-', provided the rest
                             of its line -- up to a LF / CR LF / "--" c LF in the SAME gap -- holds only space,
                             tab, lone CR, further "--" c "--" and block comments without a line end
     | "/*" body "*/"        with body a balanced sequence of content characters, LF, CR LF, nested "/*" and
                             "*/", nesting depth below 2^31 - 1 (nest_lvl is an i32).  Content is EVERY character
                             except LF -- '*', '/' and CR included; the only condition is that a content '*' is
                             not directly followed by '/' and a content '/' not directly followed by '*'
                             (then they are not content but the delimiters "*/" and "/*", read from left to
                             right: "/*/" opens and has content '/', "/**/" is the empty comment, "**/" is
                             content '*' and the closing).  LexProofs.body_of / render_body_of / body_of_ok:
                             every text that is balanced in this reading has such a body, so no comment text is
                             excluded;
   two adjacent text items need a non-empty gap (X.680 12.1); both cargo profiles (forall m).
   Position rule (adv1, pos_at): LF starts a new line; every other character, a lone CR included, advances
   the column by one.  This is what the crate reports (str::lines does not split at a lone CR):
   "a\rb" gives a at (1,1), b at (1,3).
   The class of the first version (no '*' '/' CR content, no "--" c "--", no lone CR) is included:
   LexProofs.lex_safe_old_sub.

   Outside, because the crate is NOT layout-invariant there (witnesses below, all deviations from X.680 clause 12):
     * "--" c "--" followed on the same line by a token or by the beginning of a multi-line block comment:
       the crate does not end a line comment at the second "--" (X.680 12.6.3 does), it skips the whole rest
       of the line, so `a -- c -- b` loses b (C13_refuted_dashdash_closes_line_comment; known finding F13-1, class
       dashdash_does_not_close_line_comment in checks/C13.py).  For the same
       reason a GLine item "--" c LF whose c contains "--" is in the class only in the crate's reading; the
       layouts with LexProofs.x680_lines gs = true are those where the printer's comments are X.680's comments.
     * a lone CR as the line end of a "--" comment: `a -- c CR b LF` loses b (X.680 12.1.6: CR is a newline
       character) (C13_refuted_cr_ends_line_comment; known finding F13-2, class
       lone_cr_does_not_end_line_comment).  Hence no CR inside line-comment content.
     * VT and FF (white-space in X.680 12.1.6) are dropped without separating: `a VT b` is the one token ab
       (C13_refuted_vt_ff_white_space); they are not among the separators of the property's quantifier.
   Also outside (a matter of the printer's shape, not of the crate): a "--" c "--" comment whose line is
   ended by the end of the text instead of a LF.
   History: before repair 58b7ab0 of /repo a block comment did not push the pending token, so
   SEQUENCE/* c */OF gave the single token SEQUENCEOF (class block_comment_only_gap); the model follows the
   repaired code and the theorems hold for every lex_safe layout. *)
From A1 Require Import Front.Lex Front.LexProofs.
Local Open Scope N_scope.

(* the tokenizer returns exactly the printed items at the places where they were printed *)
Theorem C13_tokenize : forall m ts gs, lex_safe ts gs ->
  tokenize m (render ts gs) = Ok (expect ts gs).
Proof. exact tokenize_render. Qed.

Theorem C13_layout_invariant : forall m ts g1 g2, lex_safe ts g1 -> lex_safe ts g2 ->
  exists o1 o2, tokenize m (render ts g1) = Ok o1 /\ tokenize m (render ts g2) = Ok o2 /\
                map strip o1 = ts /\ map strip o2 = map strip o1.
Proof. exact layout_invariant. Qed.

Theorem C13_locations : forall m ts g, lex_safe ts g ->
  exists o, tokenize m (render ts g) = Ok o /\ map loc o = positions ts g.
Proof. exact locations. Qed.

(* `positions` is intrinsic: line/column (1-based, LF-counted) of the offsets at which the items lie *)
Theorem C13_positions_intrinsic : forall ts gs,
  positions ts gs = map (pos_at (render ts gs)) (offsets ts gs).
Proof. exact positions_at. Qed.

(* SEQUENCE/* c */OF : two tokens, at (1,1) and (1,16) (S..E = columns 1-8, the comment = columns 9-15) *)
Definition w_ts : list ptoken := [PText [83; 69; 81; 85; 69; 78; 67; 69]; PText [79; 70]].
Definition w_gs : list gap := [[]; [GBlock [CChar 32; CChar 99; CChar 32]]; []].

Example C13_fixed_block_comment_gap :
  lex_safe w_ts w_gs /\
  render w_ts w_gs = [83; 69; 81; 85; 69; 78; 67; 69; 47; 42; 32; 99; 32; 42; 47; 79; 70] /\
  tokenize dev_mode (render w_ts w_gs) = Ok [Text 1 1 [83; 69; 81; 85; 69; 78; 67; 69]; Text 1 16 [79; 70]] /\
  tokenize release_mode (render w_ts w_gs) = Ok [Text 1 1 [83; 69; 81; 85; 69; 78; 67; 69]; Text 1 16 [79; 70]].
Proof. repeat split; vm_compute; reflexivity. Qed.

(* non-vacuity: a layout with the seven kinds of gap items of the first version satisfies the
   hypotheses, and the conclusion says something about it *)
Definition ex_ts : list ptoken :=
  [PText [65]; PSep 58; PSep 58; PSep 61; PText [83; 69; 81]; PText [79; 70]; PText [45; 53]; PSep 125].
Definition ex_gs : list gap :=
  [ [GLine [32; 104; 105] true; GTab];
    [GSpace];
    [];
    [];
    [GBlock [CChar 120; COpen; CChar 121; CNl; CClose; CChar 122]; GLf];
    [GBlock [CChar 99]; GBlock [CCrNl]];
    [GCrLf; GLine [] false; GSpace; GSpace];
    [GBlock []];
    [GLf] ].

Example C13_nonvacuous :
  lex_safe ex_ts ex_gs /\
  tokenize release_mode (render ex_ts ex_gs) = Ok (expect ex_ts ex_gs) /\
  map loc (expect ex_ts ex_gs) = [(2, 2); (2, 4); (2, 5); (2, 6); (4, 1); (5, 3); (7, 3); (7, 9)].
Proof.
  repeat split; vm_compute; reflexivity.
Qed.

(* non-vacuity for the items added with the second version of the theorems:
     /* a * b / c **/x/*/ x */y -- c -- ----/***/ CR -- d CR LF
     , CR z/* CR ** /*/ */* LF
     //**/**/ CR CR w--- x-- HT LF
   '*' and '/' as comment content (also directly behind "/*", in front of "*/" and around nested comments),
   "--" c "--" comments with a comment-only rest of the line, lone CRs in gaps and in a comment *)
Definition n_ts : list ptoken := [PText [120]; PText [121]; PSep 44; PText [122]; PText [119]].
Definition n_gs : list gap :=
  [ [GBlock [CChar 32; CChar 97; CChar 32; CChar 42; CChar 32; CChar 98; CChar 32; CChar 47; CChar 32;
             CChar 99; CChar 32; CChar 42]];
    [GBlock [CChar 47; CChar 32; CChar 120; CChar 32]];
    [GSpace; GLineD [32; 99; 32]; GSpace; GLineD []; GBlock [CChar 42]; GCr; GLine [32; 100] true];
    [GCr];
    [GBlock [CChar 13; CChar 42; CChar 42; CChar 32; COpen; CChar 47; CChar 32; CClose; CChar 42; CNl;
             CChar 47; COpen; CClose; CChar 42]; GCr; GCr];
    [GLineD [45; 32; 120]; GTab; GLf] ].

Example C13_nonvacuous_star_slash_dashdash_cr :
  lex_safe n_ts n_gs /\ x680_lines n_gs = true /\
  render n_ts n_gs =
    [47; 42; 32; 97; 32; 42; 32; 98; 32; 47; 32; 99; 32; 42; 42; 47; 120;
     47; 42; 47; 32; 120; 32; 42; 47; 121; 32; 45; 45; 32; 99; 32; 45; 45;
     32; 45; 45; 45; 45; 47; 42; 42; 42; 47; 13; 45; 45; 32; 100; 13; 10;
     44; 13; 122; 47; 42; 13; 42; 42; 32; 47; 42; 47; 32; 42; 47; 42; 10;
     47; 47; 42; 42; 47; 42; 42; 47; 13; 13; 119; 45; 45; 45; 32; 120; 45; 45; 9; 10] /\
  tokenize dev_mode (render n_ts n_gs)
    = Ok [Text 1 17 [120]; Text 1 26 [121]; Separator 2 1 44; Text 2 3 [122]; Text 3 11 [119]] /\
  tokenize release_mode (render n_ts n_gs) = Ok (expect n_ts n_gs) /\
  map loc (expect n_ts n_gs) = [(1, 17); (1, 26); (2, 1); (2, 3); (3, 11)].
Proof. repeat split; vm_compute; reflexivity. Qed.

(* ---- where the crate is not layout-invariant (deviations from X.680 clause 12) ---- *)

(* a -- c -- b LF : by X.680 12.6.3 the comment ends at the second "--" and b is a token; the crate skips
   the rest of the line.  As a layout: a, gap [space; "--" c "--"; space], b, gap [LF] -- not lex_safe, and
   the theorems cannot be extended to it: the printed item b is lost *)
Definition r_ts : list ptoken := [PText [97]; PText [98]].
Definition r_gs : list gap := [[]; [GSpace; GLineD [32; 99; 32]; GSpace]; [GLf]].

Example C13_refuted_dashdash_closes_line_comment :
  render r_ts r_gs = [97; 32; 45; 45; 32; 99; 32; 45; 45; 32; 98; 10] /\
  lex_safeb r_ts r_gs = false /\
  tokenize dev_mode (render r_ts r_gs) = Ok [Text 1 1 [97]] /\
  tokenize release_mode (render r_ts r_gs) = Ok [Text 1 1 [97]] /\
  map strip [Text 1 1 [97]] <> r_ts /\
  (* the same items with the line ended right behind the comment: both tokens *)
  lex_safe r_ts [[]; [GSpace; GLineD [32; 99; 32]; GLf]; [GLf]] /\
  tokenize dev_mode (render r_ts [[]; [GSpace; GLineD [32; 99; 32]; GLf]; [GLf]])
    = Ok [Text 1 1 [97]; Text 2 1 [98]].
Proof. repeat split; try (vm_compute; reflexivity). vm_compute. discriminate. Qed.

(* a -- c CR b LF : X.680 12.1.6 lists CR among the newline characters that end a "--" comment (12.6.3);
   str::lines does not split there and the crate skips b as well *)
Example C13_refuted_cr_ends_line_comment :
  tokenize dev_mode [97; 32; 45; 45; 32; 99; 13; 98; 10] = Ok [Text 1 1 [97]] /\
  tokenize release_mode [97; 32; 45; 45; 32; 99; 13; 98; 10] = Ok [Text 1 1 [97]] /\
  (* with CR LF instead: both tokens *)
  tokenize dev_mode [97; 32; 45; 45; 32; 99; 13; 10; 98; 10] = Ok [Text 1 1 [97]; Text 2 1 [98]].
Proof. repeat split; vm_compute; reflexivity. Qed.

(* a VT b FF c : VT (11) and FF (12) are white-space in X.680 12.1.6; the crate drops them ("Ignoring
   unexpected character") without ending the pending token: one token abc.  (Not among the separators the
   property quantifies over.) *)
Example C13_refuted_vt_ff_white_space :
  tokenize dev_mode [97; 11; 98; 12; 99] = Ok [Text 1 1 [97; 98; 99]] /\
  tokenize release_mode [97; 11; 98; 12; 99] = Ok [Text 1 1 [97; 98; 99]].
Proof. repeat split; vm_compute; reflexivity. Qed.

(* a lone CR is a blank that advances the column (this IS inside the theorems: item GCr) *)
Example C13_lone_cr_is_a_blank :
  lex_safe r_ts [[]; [GCr]; []] /\
  tokenize dev_mode (render r_ts [[]; [GCr]; []]) = Ok [Text 1 1 [97]; Text 1 3 [98]].
Proof. repeat split; vm_compute; reflexivity. Qed.

Print Assumptions C13_tokenize.
Print Assumptions C13_layout_invariant.
Print Assumptions C13_locations.
Print Assumptions C13_positions_intrinsic.
Print Assumptions C13_fixed_block_comment_gap.
Print Assumptions C13_nonvacuous.
Print Assumptions C13_nonvacuous_star_slash_dashdash_cr.
Print Assumptions C13_refuted_dashdash_closes_line_comment.
Print Assumptions C13_refuted_cr_ends_line_comment.
Print Assumptions C13_refuted_vt_ff_white_space.
Print Assumptions C13_lone_cr_is_a_blank.
