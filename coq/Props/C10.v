(* Props/C10.v -- stub, to be filled *)
