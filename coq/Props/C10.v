(* C10 — the public packed-encoding primitives produce the X.691 bit pattern for every
   admissible argument tuple, read it back to the same value consuming the same number of
   bits, and reject inadmissible arguments with an error (statements pinned here; proofs
   in Per/Proofs.v).  Model: Per/Prim.v; reference: Per/X691.v; both cargo profiles
   ([forall m : mode]).

   Vocabulary (Per/Proofs.v):
     [at_src s w tail]  the source [s] is positioned at the start of [w ++ tail] and [w] lies
                        within its declared length and its slice;
     [src_adv s n tail] [s] advanced by [n] bits with [tail] left to read; [bl w] = bit length;
     [nn_bounded lb ub] at least one bound is given;  [fits k v] = v is representable in k bits
     (2's complement); [twos_bits k v] = the k-bit 2's-complement pattern of v;
     [len_frag ub v] / [len_result ub v] = the fragment size the length writer reports / the
     count the length reader reports (the first fragment's size for counts of 16K or more);
     [np r] = r is not a panic.
   Known classes (the model reproduces the crate; see the [C10_refuted_*] witnesses):
     [Known_C10_length_semi_or_large_bound lb ub]  (F10-1) a lower bound without an upper bound,
         or an upper bound of 64K or more;
     [Known_C10_sized_length lb ub n]  an in-root size whose length determinant is in F10-1;
     [Known_C10_bitstring_16k lb ub n] (F10-2) a BIT STRING of 16K bits or more encoded with the
         unconstrained length form. *)
From A1 Require Import Per.Prim Per.X691 Per.Proofs.
Local Open Scope N_scope.

(** * 1. constrained whole number (11.5) *)
Theorem C10_constrained_write : forall m lb ub v,
  is_i64 lb -> is_i64 ub -> (lb <= v <= ub)%Z ->
  exists bs, w_constrained m lb ub v = Ok bs /\ x_constrained lb ub v = Some bs.
Proof. exact constrained_write. Qed.

Theorem C10_constrained_reject : forall m lb ub v,
  (v < lb \/ ub < v)%Z -> w_constrained m lb ub v = Err E_VALUE_RANGE.
Proof. exact constrained_reject. Qed.

Theorem C10_constrained_read : forall m lb ub v bs s tail,
  is_i64 lb -> is_i64 ub -> (lb <= v <= ub)%Z ->
  x_constrained lb ub v = Some bs -> at_src s bs tail ->
  r_constrained m lb ub s = Ok (v, src_adv s (bl bs) tail).
Proof. exact constrained_read. Qed.

(** * 2. non-negative-binary-integer (11.3), bounded and minimal-octets forms *)
Theorem C10_nnbi_write : forall m lb ub v,
  nn_bounded lb ub -> opt_or ub I64_MAX < two64 ->
  opt_or lb 0 <= v <= opt_or ub I64_MAX ->
  exists bs, w_nnbi m lb ub v = Ok bs /\
    x_constrained (Z.of_N (opt_or lb 0)) (Z.of_N (opt_or ub I64_MAX)) (Z.of_N v) = Some bs.
Proof. exact nnbi_write. Qed.

Theorem C10_nnbi_reject : forall m lb ub v,
  nn_bounded lb ub -> v < opt_or lb 0 \/ opt_or ub I64_MAX < v ->
  w_nnbi m lb ub v = Err E_VALUE_RANGE.
Proof. exact w_nnbi_reject. Qed.

Theorem C10_nnbi_read : forall m lb ub v bs s tail,
  nn_bounded lb ub -> opt_or ub I64_MAX < two64 ->
  x_constrained (Z.of_N (opt_or lb 0)) (Z.of_N (opt_or ub I64_MAX)) (Z.of_N v) = Some bs ->
  at_src s bs tail ->
  r_nnbi m lb ub s = Ok (v, src_adv s (bl bs) tail).
Proof. exact nnbi_read. Qed.

Theorem C10_nnbi_unbounded_write : forall m v, v < two64 ->
  w_nnbi m None None v = Ok (x_len_short (noctets v) ++ field (8 * noctets v) v).
Proof. exact w_nnbi_unbounded. Qed.

Theorem C10_nnbi_unbounded_read : forall m v s tail, v < two64 ->
  let w := x_len_short (noctets v) ++ field (8 * noctets v) v in
  at_src s w tail -> r_nnbi m None None s = Ok (v, src_adv s (bl w) tail).
Proof. exact r_nnbi_unbounded. Qed.

(** * 3. normally small (11.6), semi-constrained (11.7), unconstrained (11.8) whole numbers *)
Theorem C10_normally_small_write : forall m v, v < two64 ->
  w_normally_small m v = Ok (x_normally_small v).
Proof. exact normally_small_write. Qed.

Theorem C10_normally_small_read : forall m v s tail, v < two64 ->
  at_src s (x_normally_small v) tail ->
  r_normally_small m s = Ok (v, src_adv s (bl (x_normally_small v)) tail).
Proof. exact normally_small_read. Qed.

Theorem C10_semi_constrained_write : forall m lb v, is_i64 lb -> is_i64 v -> (lb <= v)%Z ->
  exists bs, w_semi_constrained m lb v = Ok bs /\ x_semi_constrained lb v = Some bs.
Proof. exact semi_constrained_write. Qed.

Theorem C10_semi_constrained_reject : forall m lb v, (v < lb)%Z ->
  w_semi_constrained m lb v = Err E_VALUE_RANGE /\ x_semi_constrained lb v = None.
Proof. exact semi_constrained_reject. Qed.

Theorem C10_semi_constrained_read : forall m lb v bs s tail,
  is_i64 lb -> is_i64 v -> (lb <= v)%Z ->
  x_semi_constrained lb v = Some bs -> at_src s bs tail ->
  r_semi_constrained m lb s = Ok (v, src_adv s (bl bs) tail).
Proof. exact semi_constrained_read. Qed.

Theorem C10_unconstrained_write : forall m v, is_i64 v ->
  w_unconstrained m v = Ok (x_unconstrained v).
Proof. exact unconstrained_write. Qed.

Theorem C10_unconstrained_read : forall m v s tail, is_i64 v ->
  at_src s (x_unconstrained v) tail ->
  r_unconstrained m s = Ok (v, src_adv s (bl (x_unconstrained v)) tail).
Proof. exact unconstrained_read. Qed.

(** * 4. enumeration / choice index (14, 23) *)
Theorem C10_index_write : forall m std ext i bs, std < two64 -> i < two64 ->
  x_index std ext i = Some bs -> w_enumeration_index m std ext i = Ok bs.
Proof. exact index_write. Qed.

Theorem C10_index_reject : forall m std ext i,
  x_index std ext i = None -> w_enumeration_index m std ext i = Err E_INVALID_CHOICE.
Proof. exact index_reject. Qed.

Theorem C10_index_inadmissible : forall std ext i,
  x_index std ext i = None <-> std <= i /\ ext = false.
Proof. exact x_index_none. Qed.

Theorem C10_index_read : forall m std ext i bs s tail, std < two64 -> i < two64 ->
  x_index std ext i = Some bs -> at_src s bs tail ->
  r_enumeration_index m std ext s = Ok (i, src_adv s (bl bs) tail).
Proof. exact index_read. Qed.

Theorem C10_index_read_empty : forall m s,
  r_enumeration_index m 0 false s = Err E_INVALID_CHOICE.
Proof. exact index_read_empty. Qed.

(** * 5. length determinant (11.9), outside F10-1 *)
Theorem C10_length_write : forall m lb ub v bs,
  ~ Known_C10_length_semi_or_large_bound lb ub ->
  x_length lb ub v = Some bs ->
  w_length_determinant m lb ub v = Ok (bs, len_frag ub v).
Proof. exact length_write. Qed.

Theorem C10_length_fragment : forall v,
  len_frag None v = (if v <? 16384 then None else Some (N.min (v / 16384) 4 * 16384))
  /\ forall u, len_frag (Some u) v = None.
Proof. exact length_fragment. Qed.

Theorem C10_length_reject : forall m lb ub v,
  ~ Known_C10_length_semi_or_large_bound lb ub ->
  x_length lb ub v = None -> w_length_determinant m lb ub v = Err E_VALUE_RANGE.
Proof. exact length_reject. Qed.

Theorem C10_length_read : forall m lb ub v bs s tail,
  ~ Known_C10_length_semi_or_large_bound lb ub ->
  x_length lb ub v = Some bs -> at_src s bs tail ->
  r_length_determinant m lb ub s = Ok (len_result ub v, src_adv s (bl bs) tail).
Proof. exact length_read. Qed.

Theorem C10_refuted_length_semi_or_large_bound :
  exists m lb ub v bs, Known_C10_length_semi_or_large_bound lb ub /\
    x_length lb ub v = Some bs /\ w_length_determinant m lb ub v <> Ok (bs, None)
    /\ is_ok (w_length_determinant m lb ub v) = true.
Proof. exact refuted_length_semi_or_large_bound. Qed.

Theorem C10_refuted_length_large_bound :
  exists m lb ub v bs, Known_C10_length_semi_or_large_bound lb ub /\ lb = None /\
    x_length lb ub v = Some bs /\ w_length_determinant m lb ub v <> Ok (bs, None)
    /\ is_ok (w_length_determinant m lb ub v) = true.
Proof. exact refuted_length_large_bound. Qed.

(** * 6. OCTET STRING (17), every length, with 16K fragmentation *)
Theorem C10_octetstring_write : forall m lb ub extensible bytes,
  blen bytes < two63 -> ~ Known_C10_sized_length lb ub (blen bytes) ->
  w_octetstring m lb ub extensible bytes =
  match x_octetstring lb ub extensible bytes with Some bs => Ok bs | None => Err E_SIZE_RANGE end.
Proof. exact octetstring_write. Qed.

Theorem C10_octetstring_write_ext : forall m lb ub bytes,
  blen bytes < two63 -> blen bytes < opt_or lb 0 \/ opt_or ub I64_MAX < blen bytes ->
  let bs := true :: x_unconstrained_length_run 8 (blen bytes) (bits_of_bytes bytes) in
  w_octetstring m lb ub true bytes = Ok bs /\ x_octetstring lb ub true bytes = Some bs.
Proof. exact octetstring_write_ext. Qed.

Theorem C10_octetstring_reject : forall m lb ub bytes,
  blen bytes < opt_or lb 0 \/ opt_or ub I64_MAX < blen bytes ->
  w_octetstring m lb ub false bytes = Err E_SIZE_RANGE.
Proof. exact octetstring_reject. Qed.

Theorem C10_octetstring_read : forall m lb ub extensible bytes bs s tail,
  blen bytes <= ALLOC_LIMIT -> ~ Known_C10_sized_length lb ub (blen bytes) ->
  x_octetstring lb ub extensible bytes = Some bs -> at_src s bs tail ->
  r_octetstring m lb ub extensible s = Ok (bits_of_bytes bytes, src_adv s (bl bs) tail).
Proof. exact octetstring_read. Qed.

Theorem C10_refuted_octetstring_sized_length :
  exists m lb ub bytes bs, Known_C10_sized_length lb ub (blen bytes) /\
    x_octetstring lb ub false bytes = Some bs /\ w_octetstring m lb ub false bytes <> Ok bs
    /\ is_ok (w_octetstring m lb ub false bytes) = true.
Proof. exact refuted_octetstring_sized_length. Qed.

(** * 7. BIT STRING (16) writer, outside F10-1 and F10-2 *)
Theorem C10_bitstring_write : forall m lb ub extensible bytes offset len,
  offset + len <= 8 * blen bytes -> len < two63 ->
  ~ Known_C10_sized_length lb ub len -> ~ Known_C10_bitstring_16k lb ub len ->
  w_bitstring m lb ub extensible bytes offset len =
  match x_bitstring lb ub extensible
          (firstn (N.to_nat len) (skipn (N.to_nat offset) (bits_of_bytes bytes))) with
  | Some bs => Ok bs | None => Err E_SIZE_RANGE end.
Proof. exact bitstring_write. Qed.

Theorem C10_bitstring_read : forall m lb ub extensible content bs s tail,
  bl content <= ALLOC_LIMIT ->
  ~ Known_C10_sized_length lb ub (bl content) -> ~ Known_C10_bitstring_16k lb ub (bl content) ->
  x_bitstring lb ub extensible content = Some bs -> at_src s bs tail ->
  r_bitstring m lb ub extensible s =
  Ok (content, bl content, (bl content + 7) / 8, src_adv s (bl bs) tail).
Proof. exact bitstring_read. Qed.

Theorem C10_bitstring_reject : forall m lb ub bytes offset len,
  len < opt_or lb 0 \/ opt_or ub I64_MAX < len ->
  w_bitstring m lb ub false bytes offset len = Err E_SIZE_RANGE.
Proof. exact bitstring_reject. Qed.

Theorem C10_refuted_bitstring_16k :
  exists m lb ub bytes offset len,
    Known_C10_bitstring_16k lb ub len /\ offset + len <= 8 * blen bytes /\
    bitstring_8_bits_short m lb ub bytes offset len = true.
Proof. exact refuted_bitstring_16k. Qed.

(** * 8. 2's-complement-binary-integer (11.4) in a field of [k] bits *)
Theorem C10_twos_write : forall m k v, 1 <= k <= 64 -> fits k v ->
  w_2s_compliment m k v = Ok (twos_bits k v).
Proof. exact twos_write. Qed.

Theorem C10_twos_octets : forall o v, twos_bits (8 * o) v = twos_field o v.
Proof. exact twos_octets_eq. Qed.

Theorem C10_twos_reject_len : forall m k v, k = 0 \/ 64 < k ->
  w_2s_compliment m k v = Err E_BITLEN_RANGE.
Proof. exact twos_reject_len. Qed.

Theorem C10_twos_reject_val : forall m k v, 1 <= k <= 64 -> ~ fits k v ->
  w_2s_compliment m k v = Err E_VALUE_RANGE.
Proof. exact twos_reject_val. Qed.

Theorem C10_twos_read : forall k v s tail, 1 <= k <= 64 -> fits k v ->
  at_src s (twos_bits k v) tail ->
  r_2s_compliment k s = Ok (v, src_adv s k tail).
Proof. exact twos_read. Qed.

(** * 9. no panics: every writer on every argument tuple; readers on arbitrary sources *)
Theorem C10_no_panic_writers : forall m,
  (forall lb ub v, np (w_nnbi m lb ub v)) /\
  (forall lb ub v, np (w_length_determinant m lb ub v)) /\
  (forall k v, np (w_2s_compliment m k v)) /\
  (forall lb ub v, np (w_constrained m lb ub v)) /\
  (forall v, np (w_normally_small m v)) /\
  (forall lb v, np (w_semi_constrained m lb v)) /\
  (forall v, np (w_unconstrained m v)) /\
  (forall std ext i, np (w_enumeration_index m std ext i)) /\
  (forall lb ub ext bytes, np (w_octetstring m lb ub ext bytes)) /\
  (forall lb ub ext bytes offset len, np (w_bitstring m lb ub ext bytes offset len)).
Proof. exact no_panic_writers. Qed.

Theorem C10_no_panic_readers : forall m s,
  np (r_nnbi m None None s) /\
  (forall lb ub, nn_bounded lb ub ->
     opt_or lb 0 + 2 ^ N.size (opt_or ub I64_MAX - opt_or lb 0) <= two64 -> np (r_nnbi m lb ub s)) /\
  (forall lb ub, opt_or lb 0 < two64 -> ~ Known_C10_length_semi_or_large_bound lb ub ->
     np (r_length_determinant m lb ub s)) /\
  (forall k, np (r_2s_compliment k s)) /\
  (forall lb ub, np (r_constrained m lb ub s)) /\
  np (r_normally_small m s) /\
  (forall lb, np (r_semi_constrained m lb s)) /\
  np (r_unconstrained m s) /\
  (forall std ext, std < two64 -> np (r_enumeration_index m std ext s)).
Proof. exact no_panic_readers. Qed.

(* OCTET STRING reader on an arbitrary source: outside F10-1 no decoded count can reach the
   allocation limit (F10-3 lives inside F10-1) and the fragment loop terminates *)
Theorem C10_no_panic_octetstring_read : forall m lb ub extensible s,
  ~ Known_C10_length_semi_or_large_bound lb ub -> opt_or lb 0 <= opt_or ub I64_MAX ->
  np (r_octetstring m lb ub extensible s).
Proof. exact r_octetstring_np. Qed.

Theorem C10_refuted_octetstring_alloc :
  exists m lb bytes,
    r_octetstring m (Some lb) None false (src_of_bytes bytes (8 * blen bytes)) = Panic P_CAPACITY.
Proof. exact refuted_octetstring_alloc. Qed.

(* BIT STRING reader on an arbitrary source: with an upper bound below 64K and no extension
   marker no fragment loop is entered; otherwise F10-2 applies on the read side too *)
Theorem C10_no_panic_bitstring_read_bounded : forall m lb u s,
  u < 65536 -> opt_or lb 0 <= u -> np (r_bitstring m lb (Some u) false s).
Proof. exact r_bitstring_np. Qed.

Theorem C10_refuted_bitstring_read_16k :
  exists bytes,
    r_bitstring dev_mode None None false (src_of_bytes bytes (8 * blen bytes)) = Panic P_ARITH.
Proof. exact refuted_bitstring_read_16k. Qed.

(* the extension branch of the index reader adds std_variants with a checked addition: the input
   that used to overflow (extension bit, normally small number 2^64-1) is an error in both profiles *)
Theorem C10_index_read_overflow_is_error :
  let bytes := [194; 63; 255; 255; 255; 255; 255; 255; 255; 192] in
  forall m, r_enumeration_index m 3 true (src_of_bytes bytes (8 * blen bytes)) = Err E_INVALID_CHOICE.
Proof. exact index_read_overflow_is_error. Qed.

(* reader panic on hostile input found beyond the known classes (dev profile, unchecked `+`) *)
Theorem C10_refuted_nnbi_read_overflow :
  exists lb ub bytes, lb < ub /\ ub < two64 /\
    r_nnbi dev_mode (Some lb) (Some ub) (src_of_bytes bytes (8 * blen bytes)) = Panic P_ARITH.
Proof. exact refuted_nnbi_read_overflow. Qed.

(** * non-vacuity *)
Example C10_nonvacuous :
  (* INTEGER (-5..MAX), value MAX: a 64-bit field *)
  w_constrained dev_mode (-5) 9223372036854775807 9223372036854775807
    = Ok (field 64 9223372036854775812)
  /\ x_constrained (-5) 9223372036854775807 9223372036854775807 = Some (field 64 9223372036854775812)
  (* a 3-octet string, unconstrained *)
  /\ w_octetstring release_mode None None false [1; 2; 3]
    = Ok (bits_of_bytes [3; 1; 2; 3])
  /\ x_octetstring None None false [1; 2; 3] = Some (bits_of_bytes [3; 1; 2; 3])
  (* index 70 of an extensible 3-item enumeration *)
  /\ w_enumeration_index dev_mode 3 true 70 = Ok (true :: true :: bits_of_bytes [1; 67])
  /\ x_index 3 true 70 = Some (true :: true :: bits_of_bytes [1; 67])
  (* length 300, unconstrained *)
  /\ w_length_determinant dev_mode None None 300 = Ok (true :: false :: field 14 300, None)
  (* reading back from a concrete source *)
  /\ (let s := src_of_bits (field 4 9 ++ [true]) 5 in
      at_src s (field 4 9) [true]
      /\ r_constrained dev_mode 1 16 s = Ok (10%Z, src_adv s 4 [true])).
Proof. vm_compute. repeat split; discriminate. Qed.

Print Assumptions C10_constrained_write.
Print Assumptions C10_constrained_reject.
Print Assumptions C10_constrained_read.
Print Assumptions C10_nnbi_write.
Print Assumptions C10_nnbi_reject.
Print Assumptions C10_nnbi_read.
Print Assumptions C10_nnbi_unbounded_write.
Print Assumptions C10_nnbi_unbounded_read.
Print Assumptions C10_normally_small_write.
Print Assumptions C10_normally_small_read.
Print Assumptions C10_semi_constrained_write.
Print Assumptions C10_semi_constrained_reject.
Print Assumptions C10_semi_constrained_read.
Print Assumptions C10_unconstrained_write.
Print Assumptions C10_unconstrained_read.
Print Assumptions C10_index_write.
Print Assumptions C10_index_reject.
Print Assumptions C10_index_inadmissible.
Print Assumptions C10_index_read.
Print Assumptions C10_index_read_empty.
Print Assumptions C10_length_write.
Print Assumptions C10_length_fragment.
Print Assumptions C10_length_reject.
Print Assumptions C10_length_read.
Print Assumptions C10_refuted_length_semi_or_large_bound.
Print Assumptions C10_refuted_length_large_bound.
Print Assumptions C10_octetstring_write.
Print Assumptions C10_octetstring_write_ext.
Print Assumptions C10_octetstring_reject.
Print Assumptions C10_refuted_octetstring_sized_length.
Print Assumptions C10_octetstring_read.
Print Assumptions C10_bitstring_write.
Print Assumptions C10_bitstring_read.
Print Assumptions C10_bitstring_reject.
Print Assumptions C10_refuted_bitstring_16k.
Print Assumptions C10_twos_write.
Print Assumptions C10_twos_octets.
Print Assumptions C10_twos_reject_len.
Print Assumptions C10_twos_reject_val.
Print Assumptions C10_twos_read.
Print Assumptions C10_no_panic_writers.
Print Assumptions C10_no_panic_readers.
Print Assumptions C10_no_panic_octetstring_read.
Print Assumptions C10_refuted_octetstring_alloc.
Print Assumptions C10_no_panic_bitstring_read_bounded.
Print Assumptions C10_refuted_bitstring_read_16k.
Print Assumptions C10_index_read_overflow_is_error.
Print Assumptions C10_refuted_nnbi_read_overflow.
