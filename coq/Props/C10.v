(* C10 statements pinned here *)
From A1 Require Import Per.Prim Per.X691.
