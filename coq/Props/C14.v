(* C14 -- the front end is total: malformed text gives an error, not a panic or hang.
   Statements only; models in Front/Lex.v, Front/Parse.v, Front/Resolve.v, Extract/OpsParse.v (to_rust's TagResolver).

   PARTIAL.  Proved: the tokenizer never returns an error value and panics only with the explicit panic! of the
   unclosed comment block, or (overflow checks on) with the i32 overflow of the comment nesting counter after
   2^31 - 1 unclosed "/*"  (C14_lex_total_partial; the characterisation "the text ends inside a block comment" of
   DESIGN.md is decided by the check's oracle from the text, not proved); C14_parse_total_partial: tags, SIZE,
   object identifiers, IMPORTS and ENUMERATED never panic and never run out of fuel, on any token list.
   NOT proved: fuel sufficiency of the mutually recursive type grammar, of named-number lists, literals and WITH
   COMPONENTS, and of the module loop (C14_parse_total of DESIGN.md); C14_error_carries_token; the parser, resolver and to_rust
   outcome classes are tied to the crate differentially on every generated input (op 3303), where fuel
   exhaustion would appear as the answer -3.
   Refuted: conversion to the Rust model does not return on a cycle of untagged type references / CHOICE
   alternatives (a legal recursive CHOICE suffices), the resolver does not return on cyclic IMPORTS of an
   undefined name: both are stack overflows that abort the process (`3 32`), not error values. *)
From Coq Require Import String.
From A1 Require Import Front.Lex Front.Parse Front.ParseProofs Front.Resolve Extract.OpsParse.
Local Open Scope Z_scope.

Theorem C14_lex_total_partial : forall m s,
  (forall p, tokenize m s = Panic p -> p = P_OTHER \/ (p = P_ARITH /\ overflow_checks m = true)) /\
  (forall e, tokenize m s <> Err e).
Proof. exact tokenize_outcomes. Qed.

(* [safe r]: r is a value or an error value -- neither a panic nor fuel exhaustion.
   Totality of the productions without recursion into the type grammar, for EVERY token list: tags, "[tag] word",
   SIZE, object identifiers, IMPORTS, ENUMERATED.  Their loops run on fuel S (length tokens): the proofs show that
   every iteration consumes a token, which is the termination argument of the corresponding Rust loops. *)
Theorem C14_parse_total_partial : forall ts,
  safe (read_tag ts) /\ safe (next_with_opt_tag ts) /\ safe (read_size ts) /\ safe (maybe_read_size ts) /\
  safe (read_oid ts) /\ safe (maybe_read_oid ts) /\ safe (read_imports ts) /\ safe (read_enumerated ts).
Proof.
  intros ts. repeat split.
  - apply safe_read_tag.
  - apply safe_next_with_opt_tag.
  - apply safe_read_size.
  - apply safe_maybe_read_size.
  - apply safe_read_oid.
  - apply safe_maybe_read_oid.
  - apply safe_read_imports.
  - apply safe_read_enumerated.
Qed.

Theorem C14_safe_means : forall (A : Type) (r : pres A),
  safe r <-> (forall p, r <> PPanic p) /\ r <> POutOfFuel.
Proof.
  intros A [a | k t | p |]; cbn [safe]; split; intro H;
    try exact I; try contradiction;
    try (split; [intros q E | intros E]; discriminate).
  - destruct H as [H _]. exact (H p eq_refl).
  - destruct H as [_ H]. exact (H eq_refl).
Qed.

Definition txt (s : string) : list Z := map Z.of_N (s2n s).

(* a legal recursive CHOICE: tokenizer, parser and resolver succeed, Model::to_rust does not return *)
Example C14_refuted_to_rust_unbounded_recursion_on_recursive_untagged_type :
  op_3303 dev_mode (0 :: txt "M DEFINITIONS ::= BEGIN Expr ::= CHOICE { lit INTEGER, neg Expr } END") = [3; 32] /\
  hd 1 (op_3301 dev_mode (txt "M DEFINITIONS ::= BEGIN Expr ::= CHOICE { lit INTEGER, neg Expr } END")) = 0 /\
  op_3303 dev_mode (0 :: txt "M DEFINITIONS ::= BEGIN A ::= B B ::= A END") = [3; 32] /\
  (* a tagged step ends the recursion *)
  op_3303 release_mode (0 :: txt "M DEFINITIONS ::= BEGIN A ::= [1] B B ::= A END") = [0; 0; 1; 0; 2; 0; 3; 0].
Proof. repeat split; vm_compute; reflexivity. Qed.

Example C14_refuted_resolver_unbounded_recursion_on_cyclic_import :
  op_3303 dev_mode (0 :: txt "M DEFINITIONS ::= BEGIN IMPORTS x FROM M; A ::= INTEGER (0..x) END") = [3; 32] /\
  (* the same reference without the import is an ordinary resolve error *)
  op_3303 dev_mode (0 :: txt "M DEFINITIONS ::= BEGIN A ::= INTEGER (0..x) END") = [0; 0; 1; 0; 2; 1; 1; 0; 0; 0; 0].
Proof. split; vm_compute; reflexivity. Qed.

(* non-vacuity / the sanctioned panic and an error with its token: line 1, column 44, one character *)
Example C14_nonvacuous :
  tokenize dev_mode (s2n "M DEFINITIONS ::= BEGIN A ::= BOOLEAN /* open") = Panic P_OTHER /\
  op_3303 dev_mode (0 :: txt "M DEFINITIONS ::= BEGIN A ::= SEQUENCE { x ) END") = [0; 0; 1; 1; 0; 1; 1; 44; 1].
Proof. split; vm_compute; reflexivity. Qed.

Print Assumptions C14_lex_total_partial.
Print Assumptions C14_parse_total_partial.
Print Assumptions C14_safe_means.
Print Assumptions C14_refuted_to_rust_unbounded_recursion_on_recursive_untagged_type.
Print Assumptions C14_refuted_resolver_unbounded_recursion_on_cyclic_import.
