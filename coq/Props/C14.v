(* C14 -- the front end is total: malformed text gives an error, not a panic or hang.
   Statements only; models in Front/Lex.v, Front/Parse.v, Front/Resolve.v, Extract/OpsParse.v (to_rust's TagResolver).

   Proved (Front/ParseProofs.v, Front/ParseTotalProofs.v):
     * C14_lex_total_partial: the tokenizer never returns an error value and panics only with the explicit panic!
       of the unclosed comment block, or (overflow checks on) with the i32 overflow of the comment nesting counter
       after 2^31 - 1 unclosed "/*" (the characterisation "the text ends inside a block comment" of DESIGN.md is
       decided by the check's oracle from the text, not proved);
     * C14_parse_total: the WHOLE parser model (Model::try_from: module header, object identifiers, IMPORTS, the
       module loop, definitions, value references, the mutually recursive type grammar -- components / CHOICE /
       SEQUENCE OF / SET OF / nesting --, tags, SIZE, INTEGER ranges, named numbers / named bits, ENUMERATED,
       literals, WITH COMPONENTS skipping) returns a model or an error value on EVERY token list, never a panic
       and never fuel exhaustion, as soon as the fuel of the type grammar is at least 2 * length tokens + 4
       (parse_fuel = 4 * length + 16 of the executable model is enough: C14_parse_total_default_fuel).
       Fuel sufficiency is the termination argument of the Rust parser: every loop iteration and every call chain
       back into read_role_given_text consumes at least one token (one invariant, `stp`, proved for each function:
       a value leaves a strictly / weakly shorter suffix of the input).  No loop without progress was found.
       The bound length tokens + 1 is NOT sufficient (C14_fuel_length_plus_1_insufficient: the chain
       role -> components -> loop -> field -> role spends four units of fuel on three tokens).
     * C14_literal_panics_unreachable: the two slice-range panics of LiteralValue::try_from_asn_str exist for a
       direct call (on the strings consisting of a lone quotation mark, or an apostrophe followed by h/H/b/B) but
       read_literal never passes such a string: what it collects starts and ends with the delimiter (length >= 2,
       resp. >= 3 with the H/B suffix), or is true/false/an integer spelling.
     * C14_error_carries_token: an error value of the parser without a token is UnexpectedEndOfStream (or
       MissingModuleName, when the first token is not a text); an error value with a token carries a token of the
       input -- with ONE exception (finding): InvalidLiteral carries a text token that read_literal synthesises
       from the location of the literal's first token and the text it collected (for 'xy'H that token is not in
       the input; its line and column are those of an input token).
     * C14_parse_total_partial (older, kept): the loop-free productions and token loops are `safe` one by one.
   NOT proved here: totality of the resolver and of to_rust (both are refuted below); their outcome classes are
   tied to the crate differentially on every generated input (op 3303).
   Refuted: conversion to the Rust model does not return on a cycle of untagged type references / CHOICE
   alternatives (a legal recursive CHOICE suffices), the resolver does not return on cyclic IMPORTS of an
   undefined name: both are stack overflows that abort the process (`3 32`), not error values. *)
From Coq Require Import String.
From A1 Require Import Front.Lex Front.Parse Front.Print Front.ParseProofs Front.ParseTotalProofs Front.Resolve Extract.OpsParse.
Local Open Scope Z_scope.

Theorem C14_lex_total_partial : forall m s,
  (forall p, tokenize m s = Panic p -> p = P_OTHER \/ (p = P_ARITH /\ overflow_checks m = true)) /\
  (forall e, tokenize m s <> Err e).
Proof. exact tokenize_outcomes. Qed.

(* [safe r]: r is a value or an error value -- neither a panic nor fuel exhaustion.
   Totality of the productions without recursion into the type grammar, for EVERY token list: tags, "[tag] word",
   SIZE, object identifiers, IMPORTS, ENUMERATED.  Their loops run on fuel S (length tokens): the proofs show that
   every iteration consumes a token, which is the termination argument of the corresponding Rust loops. *)
Theorem C14_parse_total_partial : forall ts,
  safe (read_tag ts) /\ safe (next_with_opt_tag ts) /\ safe (read_size ts) /\ safe (maybe_read_size ts) /\
  safe (read_oid ts) /\ safe (maybe_read_oid ts) /\ safe (read_imports ts) /\ safe (read_enumerated ts).
Proof.
  intros ts. repeat split.
  - apply safe_read_tag.
  - apply safe_next_with_opt_tag.
  - apply safe_read_size.
  - apply safe_maybe_read_size.
  - apply safe_read_oid.
  - apply safe_maybe_read_oid.
  - apply safe_read_imports.
  - apply safe_read_enumerated.
Qed.

Theorem C14_safe_means : forall (A : Type) (r : pres A),
  safe r <-> (forall p, r <> PPanic p) /\ r <> POutOfFuel.
Proof.
  intros A [a | k t | p |]; cbn [safe]; split; intro H;
    try exact I; try contradiction;
    try (split; [intros q E | intros E]; discriminate).
  - destruct H as [H _]. exact (H p eq_refl).
  - destruct H as [_ H]. exact (H eq_refl).
Qed.

(* The whole parser, any token list: a model or an error value.  The fuel is the budget of the type grammar
   (handed down, one unit per call / loop iteration); the token loops carry their own fuel S (length tokens). *)
Theorem C14_parse_total : forall (toks : list token) (fuel : nat),
  (2 * length toks + 4 <= fuel)%nat ->
  (forall p, parse_module fuel toks <> PPanic p) /\ parse_module fuel toks <> POutOfFuel.
Proof.
  intros toks fuel Hf. apply C14_safe_means. apply parse_module_total. exact Hf.
Qed.

Theorem C14_parse_total_default_fuel : forall toks : list token,
  (forall p, parse toks <> PPanic p) /\ parse toks <> POutOfFuel.
Proof. intros toks. apply C14_safe_means. apply parse_total. Qed.

Theorem C14_error_carries_token : forall (toks : list token) (fuel : nat) (k : N) (o : option token),
  (2 * length toks + 4 <= fuel)%nat ->
  parse_module fuel toks = PErr k o ->
  match o with
  | None => k = E_END_OF_STREAM \/ k = E_MISSING_MODULE_NAME
  | Some t =>
      In t toks \/
      (k = E_INVALID_LITERAL /\
       exists p, In p toks /\ tok_line t = tok_line p /\ tok_column t = tok_column p)
  end.
Proof. exact parse_module_error_token. Qed.

(* tokenizer and parser together, for every input string: a model, an error value, or one of the two tokenizer
   panics (the sanctioned unclosed-comment panic!, or the nesting-counter overflow in a build with overflow checks) *)
Theorem C14_lex_parse_total : forall (m : mode) (s : list N),
  (exists ts, tokenize m s = Ok ts /\ (forall p, parse ts <> PPanic p) /\ parse ts <> POutOfFuel) \/
  (exists p, tokenize m s = Panic p /\ (p = P_OTHER \/ (p = P_ARITH /\ overflow_checks m = true))).
Proof.
  intros m s. destruct (tokenize_outcomes m s) as [HP HE].
  destruct (tokenize m s) as [ts | e | p] eqn:E.
  - left. exists ts. split; [reflexivity | apply C14_parse_total_default_fuel].
  - exfalso. exact (HE e eq_refl).
  - right. exists p. split; [reflexivity | exact (HP p eq_refl)].
Qed.

(* the slice panics of LiteralValue::try_from_asn_str are real for a direct call, and unreachable from the parser *)
Theorem C14_literal_panics_unreachable :
  literal_of_asn_str [34%N] = PPanic P_SLICE_RANGE /\
  literal_of_asn_str [39%N; 72%N] = PPanic P_SLICE_RANGE /\
  literal_of_asn_str [39%N; 98%N] = PPanic P_SLICE_RANGE /\
  (forall s, lit_shape s -> exists o, literal_of_asn_str s = POk o) /\
  (forall ts, safe (read_literal ts)).
Proof.
  split; [vm_compute; reflexivity|]. split; [vm_compute; reflexivity|]. split; [vm_compute; reflexivity|].
  split; [exact literal_total|].
  intros ts. eapply outcome_safe. apply (stp_read_literal ts ts). apply sub_refl.
Qed.

(* sixteen unclosed levels  A ::= SEQUENCE { a SEQUENCE { a SEQUENCE { ... : 59 tokens, the recursion is 65 calls
   deep before the end of the stream is seen: with fuel = number of tokens + 1 the model runs out of fuel, with
   2n + 4 it reports UnexpectedEndOfStream like the crate *)
Fixpoint nest (n : nat) : list token :=
  match n with
  | O => []
  | S k => P C_LBRACE :: T (s2n "a") :: T (s2n "SEQUENCE") :: nest k
  end.

Definition nested16 : list token :=
  [T (s2n "M"); T (s2n "DEFINITIONS"); P C_COLON; P C_COLON; P C_EQ; T (s2n "BEGIN");
   T (s2n "A"); P C_COLON; P C_COLON; P C_EQ; T (s2n "SEQUENCE")] ++ nest 16.

Example C14_fuel_length_plus_1_insufficient :
  parse_module (length nested16 + 1) nested16 = POutOfFuel /\
  parse_module (2 * length nested16 + 4) nested16 = PErr E_END_OF_STREAM None.
Proof. split; vm_compute; reflexivity. Qed.

(* the InvalidLiteral token is synthesised: 'xy'H *)
Example C14_invalid_literal_token_is_synthesised :
  let ts := [T (s2n "M"); T (s2n "DEFINITIONS"); P C_COLON; P C_COLON; P C_EQ; T (s2n "BEGIN");
             T (s2n "v"); T (s2n "INTEGER"); P C_COLON; P C_COLON; P C_EQ;
             Separator 1 40 C_APOS; Text 1 41 (s2n "xy"); Separator 1 43 C_APOS; Text 1 44 (s2n "H");
             T (s2n "END")] in
  parse ts = PErr E_INVALID_LITERAL (Some (Text 1 40 (s2n "'xy'H"))) /\
  ~ In (Text 1 40 (s2n "'xy'H")) ts.
Proof.
  split; [vm_compute; reflexivity|].
  cbn [In]. intros H. repeat (destruct H as [H | H]; [discriminate H|]). exact H.
Qed.

Definition txt (s : string) : list Z := map Z.of_N (s2n s).

(* a legal recursive CHOICE: tokenizer, parser and resolver succeed, Model::to_rust does not return *)
Example C14_refuted_to_rust_unbounded_recursion_on_recursive_untagged_type :
  op_3303 dev_mode (0 :: txt "M DEFINITIONS ::= BEGIN Expr ::= CHOICE { lit INTEGER, neg Expr } END") = [3; 32] /\
  hd 1 (op_3301 dev_mode (txt "M DEFINITIONS ::= BEGIN Expr ::= CHOICE { lit INTEGER, neg Expr } END")) = 0 /\
  op_3303 dev_mode (0 :: txt "M DEFINITIONS ::= BEGIN A ::= B B ::= A END") = [3; 32] /\
  (* a tagged step ends the recursion *)
  op_3303 release_mode (0 :: txt "M DEFINITIONS ::= BEGIN A ::= [1] B B ::= A END") = [0; 0; 1; 0; 2; 0; 3; 0].
Proof. repeat split; vm_compute; reflexivity. Qed.

Example C14_refuted_resolver_unbounded_recursion_on_cyclic_import :
  op_3303 dev_mode (0 :: txt "M DEFINITIONS ::= BEGIN IMPORTS x FROM M; A ::= INTEGER (0..x) END") = [3; 32] /\
  (* the same reference without the import is an ordinary resolve error *)
  op_3303 dev_mode (0 :: txt "M DEFINITIONS ::= BEGIN A ::= INTEGER (0..x) END") = [0; 0; 1; 0; 2; 1; 1; 0; 0; 0; 0].
Proof. split; vm_compute; reflexivity. Qed.

(* non-vacuity / the sanctioned panic and an error with its token: line 1, column 44, one character *)
Example C14_nonvacuous :
  tokenize dev_mode (s2n "M DEFINITIONS ::= BEGIN A ::= BOOLEAN /* open") = Panic P_OTHER /\
  op_3303 dev_mode (0 :: txt "M DEFINITIONS ::= BEGIN A ::= SEQUENCE { x ) END") = [0; 0; 1; 1; 0; 1; 1; 44; 1].
Proof. split; vm_compute; reflexivity. Qed.

Print Assumptions C14_lex_total_partial.
Print Assumptions C14_parse_total_partial.
Print Assumptions C14_safe_means.
Print Assumptions C14_parse_total.
Print Assumptions C14_parse_total_default_fuel.
Print Assumptions C14_error_carries_token.
Print Assumptions C14_lex_parse_total.
Print Assumptions C14_literal_panics_unreachable.
Print Assumptions C14_fuel_length_plus_1_insufficient.
Print Assumptions C14_invalid_literal_token_is_synthesised.
Print Assumptions C14_refuted_to_rust_unbounded_recursion_on_recursive_untagged_type.
Print Assumptions C14_refuted_resolver_unbounded_recursion_on_cyclic_import.
