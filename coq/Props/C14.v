(* C14 -- the front end is total: malformed text gives an error, not a panic or hang.
   Statements only; models in Front/Lex.v, Front/Parse.v, Front/Resolve.v, Extract/OpsParse.v (to_rust's TagResolver).

   Proved (Front/ParseProofs.v, Front/ParseTotalProofs.v):
     * C14_lex_total_partial: the tokenizer never returns an error value and panics only with the explicit panic!
       of the unclosed comment block, or (overflow checks on) with the i32 overflow of the comment nesting counter
       after 2^31 - 1 unclosed "/*" (the characterisation "the text ends inside a block comment" of DESIGN.md is
       decided by the check's oracle from the text, not proved);
     * C14_parse_total: the WHOLE parser model (Model::try_from: module header, object identifiers, IMPORTS, the
       module loop, definitions, value references, the mutually recursive type grammar -- components / CHOICE /
       SEQUENCE OF / SET OF / nesting --, tags, SIZE, INTEGER ranges, named numbers / named bits, ENUMERATED,
       literals, WITH COMPONENTS skipping) returns a model or an error value on EVERY token list, never a panic
       and never fuel exhaustion, as soon as the fuel of the type grammar is at least 2 * length tokens + 4
       (parse_fuel = 4 * length + 16 of the executable model is enough: C14_parse_total_default_fuel).
       Fuel sufficiency is the termination argument of the Rust parser: every loop iteration and every call chain
       back into read_role_given_text consumes at least one token (one invariant, `stp`, proved for each function:
       a value leaves a strictly / weakly shorter suffix of the input).  No loop without progress was found.
       The bound length tokens + 1 is NOT sufficient (C14_fuel_length_plus_1_insufficient: the chain
       role -> components -> loop -> field -> role spends four units of fuel on three tokens).
     * C14_literal_panics_unreachable: the two slice-range panics of LiteralValue::try_from_asn_str exist for a
       direct call (on the strings consisting of a lone quotation mark, or an apostrophe followed by h/H/b/B) but
       read_literal never passes such a string: what it collects starts and ends with the delimiter (length >= 2,
       resp. >= 3 with the H/B suffix), or is true/false/an integer spelling.
     * C14_error_carries_token: an error value of the parser without a token is UnexpectedEndOfStream (or
       MissingModuleName, when the first token is not a text); an error value with a token carries a token of the
       input -- with ONE exception (finding): InvalidLiteral carries a text token that read_literal synthesises
       from the location of the literal's first token and the text it collected (for 'xy'H that token is not in
       the input; its line and column are those of an input token).
     * C14_parse_total_partial (older, kept): the loop-free productions and token loops are `safe` one by one.
     * C14_resolve_total (Front/ResolveTotalProofs.v): for EVERY list of parsed modules, resolve_all is a list of
       models or an error value; the result type has no panic outcome (the resolver's only partial operation,
       usize::try_from, is an error value), and the divergence outcome (the Rust lookup recursing until the stack
       overflows) occurs only in the class Known_C14_cyclic_import Ms: some loaded module M has a use site -- a value
       reference at an INTEGER range bound, at a SIZE bound, or as a DEFAULT (when the ENUMERATED special case does not
       fire), or the referenced type of a component with a DEFAULT reference -- whose lookup walks
       "A does not define n and its first import listing n is matched by module B of the scope" into a cycle.
       The fuel of the model, S (length scope), is EXACT (C14_import_lookup_fuel_exact): the lookup answers Diverges
       iff the walk is cyclic (pigeonhole on the positions of the scope: `length scope` units already suffice), and a
       cyclic walk diverges for every fuel.  A module set in the class never resolves (C14_cyclic_import_never_resolves:
       it diverges, or an error of an earlier module / use site comes first).
     * C14_tag_resolution_total: the TagResolver recursion of Model::to_rust (resolve_tag / resolve_type_tag of
       Extract/OpsParse.v, fuel S (length defs) * S nodes) never panics (lookup has no such outcome) and diverges only in
       the class Known_C14_untagged_choice_cycle defs: a cycle in the graph "UNTAGGED definition n mentions n' in tag
       position" (n' an untagged type reference, through OPTIONAL / DEFAULT and through the untagged root alternatives
       of a CHOICE).  Decidable: cyclic_b defs = true <-> the class (C14_cyclic_b_iff); cyclic_b defs = false ->
       to_rust_diverges = false with the fuel of the model, and resolve_tag returns for every fuel >=
       length defs + S (total type nodes) (C14_tag_fuel_bound).  The class is slightly WIDER than actual divergence:
       the scan of CHOICE alternatives stops at the first alternative without a tag (e.g. a reference to an
       undefined type), so a cycle through a later alternative is never entered
       (C14_class_wider_than_divergence_on_short_circuit).  The class can be read off the parsed module
       (untagged_cycle_of_parsed: resolving keeps tags, names and tag positions).
     * C14_front_end_total: tokenizer; parser; resolver; tag resolution, for every input string: a model, a parse
       error, a resolve error, one of the two tokenizer panics, or divergence in one of the two classes (stated on
       the parse result); C14_op_3303_crash ties the CRASH answer of the compared op to exactly these two outcomes.
   NOT proved here: the rest of to_rust / to_protobuf beyond tag resolution (tie only).
   Refuted: conversion to the Rust model does not return on a cycle of untagged type references / CHOICE
   alternatives (a legal recursive CHOICE suffices), the resolver does not return on cyclic IMPORTS of an
   undefined name: both are stack overflows that abort the process (`3 32`), not error values. *)
From Coq Require Import String.
From A1 Require Import Front.Lex Front.Parse Front.Print Front.ParseProofs Front.ParseTotalProofs Front.Resolve Extract.OpsParse
  Front.ResolveSubstProofs Front.ResolveTotalProofs.
Local Open Scope Z_scope.

Theorem C14_lex_total_partial : forall m s,
  (forall p, tokenize m s = Panic p -> p = P_OTHER \/ (p = P_ARITH /\ overflow_checks m = true)) /\
  (forall e, tokenize m s <> Err e).
Proof. exact tokenize_outcomes. Qed.

(* [safe r]: r is a value or an error value -- neither a panic nor fuel exhaustion.
   Totality of the productions without recursion into the type grammar, for EVERY token list: tags, "[tag] word",
   SIZE, object identifiers, IMPORTS, ENUMERATED.  Their loops run on fuel S (length tokens): the proofs show that
   every iteration consumes a token, which is the termination argument of the corresponding Rust loops. *)
Theorem C14_parse_total_partial : forall ts,
  safe (read_tag ts) /\ safe (next_with_opt_tag ts) /\ safe (read_size ts) /\ safe (maybe_read_size ts) /\
  safe (read_oid ts) /\ safe (maybe_read_oid ts) /\ safe (read_imports ts) /\ safe (read_enumerated ts).
Proof.
  intros ts. repeat split.
  - apply safe_read_tag.
  - apply safe_next_with_opt_tag.
  - apply safe_read_size.
  - apply safe_maybe_read_size.
  - apply safe_read_oid.
  - apply safe_maybe_read_oid.
  - apply safe_read_imports.
  - apply safe_read_enumerated.
Qed.

Theorem C14_safe_means : forall (A : Type) (r : pres A),
  safe r <-> (forall p, r <> PPanic p) /\ r <> POutOfFuel.
Proof.
  intros A [a | k t | p |]; cbn [safe]; split; intro H;
    try exact I; try contradiction;
    try (split; [intros q E | intros E]; discriminate).
  - destruct H as [H _]. exact (H p eq_refl).
  - destruct H as [_ H]. exact (H eq_refl).
Qed.

(* The whole parser, any token list: a model or an error value.  The fuel is the budget of the type grammar
   (handed down, one unit per call / loop iteration); the token loops carry their own fuel S (length tokens). *)
Theorem C14_parse_total : forall (toks : list token) (fuel : nat),
  (2 * length toks + 4 <= fuel)%nat ->
  (forall p, parse_module fuel toks <> PPanic p) /\ parse_module fuel toks <> POutOfFuel.
Proof.
  intros toks fuel Hf. apply C14_safe_means. apply parse_module_total. exact Hf.
Qed.

Theorem C14_parse_total_default_fuel : forall toks : list token,
  (forall p, parse toks <> PPanic p) /\ parse toks <> POutOfFuel.
Proof. intros toks. apply C14_safe_means. apply parse_total. Qed.

Theorem C14_error_carries_token : forall (toks : list token) (fuel : nat) (k : N) (o : option token),
  (2 * length toks + 4 <= fuel)%nat ->
  parse_module fuel toks = PErr k o ->
  match o with
  | None => k = E_END_OF_STREAM \/ k = E_MISSING_MODULE_NAME
  | Some t =>
      In t toks \/
      (k = E_INVALID_LITERAL /\
       exists p, In p toks /\ tok_line t = tok_line p /\ tok_column t = tok_column p)
  end.
Proof. exact parse_module_error_token. Qed.

(* tokenizer and parser together, for every input string: a model, an error value, or one of the two tokenizer
   panics (the sanctioned unclosed-comment panic!, or the nesting-counter overflow in a build with overflow checks) *)
Theorem C14_lex_parse_total : forall (m : mode) (s : list N),
  (exists ts, tokenize m s = Ok ts /\ (forall p, parse ts <> PPanic p) /\ parse ts <> POutOfFuel) \/
  (exists p, tokenize m s = Panic p /\ (p = P_OTHER \/ (p = P_ARITH /\ overflow_checks m = true))).
Proof.
  intros m s. destruct (tokenize_outcomes m s) as [HP HE].
  destruct (tokenize m s) as [ts | e | p] eqn:E.
  - left. exists ts. split; [reflexivity | apply C14_parse_total_default_fuel].
  - exfalso. exact (HE e eq_refl).
  - right. exists p. split; [reflexivity | exact (HP p eq_refl)].
Qed.

(* the slice panics of LiteralValue::try_from_asn_str are real for a direct call, and unreachable from the parser *)
Theorem C14_literal_panics_unreachable :
  literal_of_asn_str [34%N] = PPanic P_SLICE_RANGE /\
  literal_of_asn_str [39%N; 72%N] = PPanic P_SLICE_RANGE /\
  literal_of_asn_str [39%N; 98%N] = PPanic P_SLICE_RANGE /\
  (forall s, lit_shape s -> exists o, literal_of_asn_str s = POk o) /\
  (forall ts, safe (read_literal ts)).
Proof.
  split; [vm_compute; reflexivity|]. split; [vm_compute; reflexivity|]. split; [vm_compute; reflexivity|].
  split; [exact literal_total|].
  intros ts. eapply outcome_safe. apply (stp_read_literal ts ts). apply sub_refl.
Qed.

(* sixteen unclosed levels  A ::= SEQUENCE { a SEQUENCE { a SEQUENCE { ... : 59 tokens, the recursion is 65 calls
   deep before the end of the stream is seen: with fuel = number of tokens + 1 the model runs out of fuel, with
   2n + 4 it reports UnexpectedEndOfStream like the crate *)
Fixpoint nest (n : nat) : list token :=
  match n with
  | O => []
  | S k => P C_LBRACE :: T (s2n "a") :: T (s2n "SEQUENCE") :: nest k
  end.

Definition nested16 : list token :=
  [T (s2n "M"); T (s2n "DEFINITIONS"); P C_COLON; P C_COLON; P C_EQ; T (s2n "BEGIN");
   T (s2n "A"); P C_COLON; P C_COLON; P C_EQ; T (s2n "SEQUENCE")] ++ nest 16.

Example C14_fuel_length_plus_1_insufficient :
  parse_module (length nested16 + 1) nested16 = POutOfFuel /\
  parse_module (2 * length nested16 + 4) nested16 = PErr E_END_OF_STREAM None.
Proof. split; vm_compute; reflexivity. Qed.

(* the InvalidLiteral token is synthesised: 'xy'H *)
Example C14_invalid_literal_token_is_synthesised :
  let ts := [T (s2n "M"); T (s2n "DEFINITIONS"); P C_COLON; P C_COLON; P C_EQ; T (s2n "BEGIN");
             T (s2n "v"); T (s2n "INTEGER"); P C_COLON; P C_COLON; P C_EQ;
             Separator 1 40 C_APOS; Text 1 41 (s2n "xy"); Separator 1 43 C_APOS; Text 1 44 (s2n "H");
             T (s2n "END")] in
  parse ts = PErr E_INVALID_LITERAL (Some (Text 1 40 (s2n "'xy'H"))) /\
  ~ In (Text 1 40 (s2n "'xy'H")) ts.
Proof.
  split; [vm_compute; reflexivity|].
  cbn [In]. intros H. repeat (destruct H as [H | H]; [discriminate H|]). exact H.
Qed.

(* ---------- the stages after the parser (Front/ResolveTotalProofs.v) ---------- *)

Theorem C14_resolve_total : forall Ms : list umodel,
  match resolve_all Ms with
  | ROk _ | RErr _ => True
  | RDiverge => Known_C14_cyclic_import Ms
  end.
Proof. exact resolve_all_total. Qed.

Theorem C14_resolve_total_outside_class : forall Ms : list umodel, ~ Known_C14_cyclic_import Ms ->
  (exists rs, resolve_all Ms = ROk rs) \/ (exists e, resolve_all Ms = RErr e).
Proof. exact resolve_all_total'. Qed.

Theorem C14_cyclic_import_never_resolves : forall Ms, Known_C14_cyclic_import Ms -> forall rs, resolve_all Ms <> ROk rs.
Proof. exact cyclic_import_never_resolves. Qed.

(* the fuel S (length scope) of the two lookups is exact: out of fuel <-> the import walk is cyclic; and a cyclic
   walk is out of fuel for every fuel *)
Theorem C14_import_lookup_fuel_exact : forall Ms M name,
  (value_reference Ms (lookup_fuel Ms) M name = Diverges <-> import_cycle_v Ms M name) /\
  (definition Ms (lookup_fuel Ms) M name = Diverges <-> import_cycle_d Ms M name) /\
  (import_cycle_v Ms M name -> forall fuel, value_reference Ms fuel M name = Diverges) /\
  (import_cycle_d Ms M name -> forall fuel, definition Ms fuel M name = Diverges).
Proof.
  intros Ms M name. split; [apply value_reference_diverges_iff|]. split; [apply definition_diverges_iff|].
  apply import_cycle_diverges_for_every_fuel.
Qed.

Theorem C14_tag_resolution_total : forall m : amodel rasn,
  (to_rust_diverges m = true -> Known_C14_untagged_choice_cycle N Z literal (m_definitions m)) /\
  (cyclic_b N Z literal (m_definitions m) = false -> to_rust_diverges m = false).
Proof. intros m. split; [apply to_rust_total | apply acyclic_to_rust_terminates]. Qed.

Theorem C14_cyclic_b_iff : forall (SS RR CC : Type) (defs : list (str * asn SS RR CC)),
  cyclic_b SS RR CC defs = true <-> Known_C14_untagged_choice_cycle SS RR CC defs.
Proof. exact cyclic_b_iff. Qed.

Theorem C14_tag_fuel_bound : forall defs : list (str * rasn), cyclic_b N Z literal defs = false ->
  forall f n, (length defs + S (total_nodes defs) <= f)%nat -> resolve_tag defs f n <> Diverges.
Proof. exact tag_ok. Qed.

Theorem C14_front_end_total : forall (m : mode) (s : list N),
  (forall ts u, tokenize m s = Ok ts -> parse ts = POk u ->
     ~ Known_C14_cyclic_import [u] /\
     ~ Known_C14_untagged_choice_cycle _ _ _ (m_definitions u)) ->
  (exists r, front_end m s = FeModel r) \/ (exists k t, front_end m s = FeParseError k t) \/
  (exists e, front_end m s = FeResolveError e) \/
  (exists p, front_end m s = FeLexPanic p /\ (p = P_OTHER \/ (p = P_ARITH /\ overflow_checks m = true))).
Proof. exact front_end_total'. Qed.

Theorem C14_front_end_outcomes : forall (m : mode) (s : list N),
  match front_end m s with
  | FeModel _ | FeParseError _ _ | FeResolveError _ => True
  | FeLexPanic p => p = P_OTHER \/ (p = P_ARITH /\ overflow_checks m = true)
  | FeLexError _ | FeParsePanic _ | FeParseOutOfFuel => False
  | FeResolveDiverges =>
      exists ts u, tokenize m s = Ok ts /\ parse ts = POk u /\ Known_C14_cyclic_import [u]
  | FeTagDiverges =>
      exists ts u, tokenize m s = Ok ts /\ parse ts = POk u /\
                   Known_C14_untagged_choice_cycle _ _ _ (m_definitions u)
  end.
Proof. exact front_end_total. Qed.

Theorem C14_op_3303_crash : forall m flags text, forallb is_scalar text = true ->
  (op_3303 m (flags :: text) = [3; 32] <->
   front_end m (map Z.to_N text) = FeResolveDiverges \/ front_end m (map Z.to_N text) = FeTagDiverges).
Proof. exact op_3303_crash. Qed.

(* ---- witnesses for the two classes ---- *)

Definition parsed (s : string) : option umodel :=
  match tokenize dev_mode (s2n s) with
  | Ok ts => match parse ts with POk u => Some u | _ => None end
  | _ => None
  end.

(* smallest cyclic imports: a module importing an undefined name from itself; two modules importing it from each
   other.  The model diverges and the class holds. *)
Example C14_cyclic_import_diverges :
  exists m0 m1 m2,
    parsed "M DEFINITIONS ::= BEGIN IMPORTS x FROM M; A ::= INTEGER (0..x) END" = Some m0 /\
    parsed "M DEFINITIONS ::= BEGIN IMPORTS x FROM N; A ::= INTEGER (0..x) END" = Some m1 /\
    parsed "N DEFINITIONS ::= BEGIN IMPORTS x FROM M; B ::= BOOLEAN END" = Some m2 /\
    resolve_all [m0] = RDiverge /\ Known_C14_cyclic_import [m0] /\
    resolve_all [m1; m2] = RDiverge /\ Known_C14_cyclic_import [m1; m2] /\
    front_end dev_mode (s2n "M DEFINITIONS ::= BEGIN IMPORTS x FROM M; A ::= INTEGER (0..x) END") = FeResolveDiverges.
Proof.
  do 3 eexists.
  split; [vm_compute; reflexivity|]. split; [vm_compute; reflexivity|]. split; [vm_compute; reflexivity|].
  match goal with |- ?A = RDiverge /\ _ => assert (E0 : A = RDiverge) by (vm_compute; reflexivity) end.
  split; [exact E0|]. split; [match type of E0 with resolve_all ?l = _ => pose proof (resolve_all_total l) as H end; rewrite E0 in H; exact H|].
  match goal with |- ?A = RDiverge /\ _ => assert (E1 : A = RDiverge) by (vm_compute; reflexivity) end.
  split; [exact E1|]. split; [match type of E1 with resolve_all ?l = _ => pose proof (resolve_all_total l) as H end; rewrite E1 in H; exact H|].
  vm_compute. reflexivity.
Qed.

(* smallest untagged cycles: a recursive CHOICE through an untagged alternative; two type references *)
Example C14_untagged_choice_cycle_diverges :
  exists u1 u2 r1 r2,
    parsed "M DEFINITIONS ::= BEGIN Expr ::= CHOICE { lit INTEGER, neg Expr } END" = Some u1 /\
    parsed "M DEFINITIONS ::= BEGIN A ::= B B ::= A END" = Some u2 /\
    resolve_single u1 = ROk r1 /\ resolve_single u2 = ROk r2 /\
    cyclic_b _ _ _ (m_definitions u1) = true /\ cyclic_b _ _ _ (m_definitions u2) = true /\
    to_rust_diverges r1 = true /\ to_rust_diverges r2 = true /\
    front_end dev_mode (s2n "M DEFINITIONS ::= BEGIN Expr ::= CHOICE { lit INTEGER, neg Expr } END") = FeTagDiverges /\
    (* a tag on the way ends the recursion *)
    (exists r, front_end dev_mode (s2n "M DEFINITIONS ::= BEGIN A ::= [1] B B ::= A END") = FeModel r).
Proof.
  do 4 eexists.
  split; [vm_compute; reflexivity|]. split; [vm_compute; reflexivity|].
  split; [vm_compute; reflexivity|]. split; [vm_compute; reflexivity|].
  split; [vm_compute; reflexivity|]. split; [vm_compute; reflexivity|].
  split; [vm_compute; reflexivity|]. split; [vm_compute; reflexivity|].
  split; [vm_compute; reflexivity|]. eexists. vm_compute. reflexivity.
Qed.

(* the class is wider than actual divergence: the scan of the alternatives stops at `u Undefined` (no tag), the
   alternative `a A` that closes the cycle is never looked at *)
Example C14_class_wider_than_divergence_on_short_circuit :
  exists u r,
    parsed "M DEFINITIONS ::= BEGIN A ::= CHOICE { u Undefined, a A } END" = Some u /\
    resolve_single u = ROk r /\ cyclic_b _ _ _ (m_definitions u) = true /\ to_rust_diverges r = false.
Proof.
  do 2 eexists. split; [vm_compute; reflexivity|]. split; [vm_compute; reflexivity|].
  split; vm_compute; reflexivity.
Qed.

(* non-vacuity: a two-hop import chain (A imports x from B, B imports x from C, C defines x) resolves, in every
   position of the scope; neither class holds *)
Example C14_nonvacuous_two_hop_import_chain :
  exists a b c rs,
    parsed "A DEFINITIONS ::= BEGIN IMPORTS x FROM B; T ::= INTEGER (0..x) U ::= SEQUENCE { f T DEFAULT x } END" = Some a /\
    parsed "B DEFINITIONS ::= BEGIN IMPORTS x FROM C; V ::= OCTET STRING (SIZE(x)) END" = Some b /\
    parsed "C DEFINITIONS ::= BEGIN x INTEGER ::= 7 END" = Some c /\
    resolve_all [a; b; c] = ROk rs /\
    ~ Known_C14_cyclic_import [a; b; c] /\
    cyclic_b _ _ _ (m_definitions a) = false /\
    value_reference [a; b; c] (lookup_fuel [a; b; c]) a (s2n "x") = Found (LInteger 7).
Proof.
  do 4 eexists.
  split; [vm_compute; reflexivity|]. split; [vm_compute; reflexivity|]. split; [vm_compute; reflexivity|].
  match goal with |- ?A = ROk ?r /\ _ => assert (E : A = ROk r) by (vm_compute; reflexivity) end.
  split; [exact E|].
  split; [intros Hk; exact (cyclic_import_never_resolves _ Hk _ E)|].
  split; vm_compute; reflexivity.
Qed.

Definition txt (s : string) : list Z := map Z.of_N (s2n s).

(* a legal recursive CHOICE: tokenizer, parser and resolver succeed, Model::to_rust does not return *)
Example C14_refuted_to_rust_unbounded_recursion_on_recursive_untagged_type :
  op_3303 dev_mode (0 :: txt "M DEFINITIONS ::= BEGIN Expr ::= CHOICE { lit INTEGER, neg Expr } END") = [3; 32] /\
  hd 1 (op_3301 dev_mode (txt "M DEFINITIONS ::= BEGIN Expr ::= CHOICE { lit INTEGER, neg Expr } END")) = 0 /\
  op_3303 dev_mode (0 :: txt "M DEFINITIONS ::= BEGIN A ::= B B ::= A END") = [3; 32] /\
  (* a tagged step ends the recursion *)
  op_3303 release_mode (0 :: txt "M DEFINITIONS ::= BEGIN A ::= [1] B B ::= A END") = [0; 0; 1; 0; 2; 0; 3; 0].
Proof. repeat split; vm_compute; reflexivity. Qed.

Example C14_refuted_resolver_unbounded_recursion_on_cyclic_import :
  op_3303 dev_mode (0 :: txt "M DEFINITIONS ::= BEGIN IMPORTS x FROM M; A ::= INTEGER (0..x) END") = [3; 32] /\
  (* the same reference without the import is an ordinary resolve error *)
  op_3303 dev_mode (0 :: txt "M DEFINITIONS ::= BEGIN A ::= INTEGER (0..x) END") = [0; 0; 1; 0; 2; 1; 1; 0; 0; 0; 0].
Proof. split; vm_compute; reflexivity. Qed.

(* non-vacuity / the sanctioned panic and an error with its token: line 1, column 44, one character *)
Example C14_nonvacuous :
  tokenize dev_mode (s2n "M DEFINITIONS ::= BEGIN A ::= BOOLEAN /* open") = Panic P_OTHER /\
  op_3303 dev_mode (0 :: txt "M DEFINITIONS ::= BEGIN A ::= SEQUENCE { x ) END") = [0; 0; 1; 1; 0; 1; 1; 44; 1].
Proof. split; vm_compute; reflexivity. Qed.

Print Assumptions C14_lex_total_partial.
Print Assumptions C14_parse_total_partial.
Print Assumptions C14_safe_means.
Print Assumptions C14_parse_total.
Print Assumptions C14_parse_total_default_fuel.
Print Assumptions C14_error_carries_token.
Print Assumptions C14_lex_parse_total.
Print Assumptions C14_resolve_total.
Print Assumptions C14_resolve_total_outside_class.
Print Assumptions C14_cyclic_import_never_resolves.
Print Assumptions C14_import_lookup_fuel_exact.
Print Assumptions C14_tag_resolution_total.
Print Assumptions C14_cyclic_b_iff.
Print Assumptions C14_tag_fuel_bound.
Print Assumptions C14_front_end_total.
Print Assumptions C14_front_end_outcomes.
Print Assumptions C14_op_3303_crash.
Print Assumptions C14_cyclic_import_diverges.
Print Assumptions C14_untagged_choice_cycle_diverges.
Print Assumptions C14_class_wider_than_divergence_on_short_circuit.
Print Assumptions C14_nonvacuous_two_hop_import_chain.
Print Assumptions C14_literal_panics_unreachable.
Print Assumptions C14_fuel_length_plus_1_insufficient.
Print Assumptions C14_invalid_literal_token_is_synthesised.
Print Assumptions C14_refuted_to_rust_unbounded_recursion_on_recursive_untagged_type.
Print Assumptions C14_refuted_resolver_unbounded_recursion_on_cyclic_import.
