(* Props/C14.v -- stub, to be filled *)
