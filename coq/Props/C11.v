(* C11 — bit-level buffer operations equal a naive bit-vector model (statements pinned here).
   This file only pins statements; proofs live in Bits/Proofs.v and Bits/BufferProofs.v.
   Scope notes. (1) The property speaks of buffers reached by operations from an empty one;
   a buffer built by from_bits / from_bits_with_position from a vector that is longer than
   ceil(bit_len/8) or has set bits behind bit_len is a caller-supplied state: such buffers are
   part of the differential tie (model vs crate, every operation) but no theorem or oracle
   class speaks about "exactly ceil(bit_len/8) bytes, zero padding" for them.
   (2) with_read_position_at(pos, ..) debug-asserts pos < write_position although its doc
   comment says positions "beyond" the write position panic (pos = write_position panics in a
   debug build): an API documentation nit, modelled, outside C11's statement.
   (3) Two public operations do leave the invariant on the unchanged crate and are listed as
   known findings: a write under with_write_position_at that runs past the old end (F11-1,
   C11_refuted_scope_write_past_end) and ensure_can_write_additional_bits called on its own
   (F11-2; it is not an operation of [bop]). *)
From A1 Require Import Bits.Naive Bits.Copy Bits.Proofs Bits.Buffer Bits.BufferProofs.
Local Open Scope N_scope.

Theorem C11_bitwise_exact : forall m src sp dst dp len,
  Forall (fun b => b < 256) src -> Forall (fun b => b < 256) dst ->
  sp + len < two64 -> dp + len < two64 ->
  sp + len <= 8 * blen src -> dp + len <= 8 * blen dst ->
  exists dst', bit_string_copy m src sp dst dp len = Ok dst' /\
    bits_of_bytes dst' =
      splice (N.to_nat dp) (slice (bits_of_bytes src) (N.to_nat sp) (N.to_nat len)) (bits_of_bytes dst)
    /\ length dst' = length dst /\ Forall (fun b => b < 256) dst'.
Proof. exact bitwise_exact. Qed.

Theorem C11_bitwise_short : forall m src sp dst dp len,
  sp + len < two64 -> dp + len < two64 ->
  (8 * blen dst < dp + len -> bit_string_copy m src sp dst dp len = Err E_INSUFFICIENT_DST)
  /\ (dp + len <= 8 * blen dst -> 8 * blen src < sp + len ->
      bit_string_copy m src sp dst dp len = Err E_INSUFFICIENT_SRC).
Proof. exact bitwise_short. Qed.

Theorem C11_bitwise_no_panic : forall m src sp dst dp len,
  sp + len < two64 -> dp + len < two64 ->
  is_panic (bit_string_copy m src sp dst dp len) = false.
Proof. exact bitwise_no_panic. Qed.

Theorem C11_bit_ops : forall buf pos, Forall (fun b => b < 256) buf ->
  (forall bit,
     (pos < 8 * blen buf ->
        exists buf', slice_write_bit buf pos bit = Ok (buf', pos + 1)
          /\ bits_of_bytes buf' = splice (N.to_nat pos) [bit] (bits_of_bytes buf)
          /\ length buf' = length buf /\ Forall (fun b => b < 256) buf')
     /\ (8 * blen buf <= pos -> slice_write_bit buf pos bit = Err E_END_OF_STREAM))
  /\ (pos < 8 * blen buf ->
        exists b, slice_read_bit buf pos = Ok (b, pos + 1)
          /\ [b] = slice (bits_of_bytes buf) (N.to_nat pos) 1)
  /\ (8 * blen buf <= pos -> slice_read_bit buf pos = Err E_END_OF_STREAM).
Proof. exact bit_ops. Qed.

Theorem C11_bulk_exact : forall m src sp dst dp len,
  Forall (fun b => b < 256) src -> Forall (fun b => b < 256) dst ->
  sp + len < two64 -> dp + len < two64 ->
  sp + len <= 8 * blen src -> dp + len <= 8 * blen dst ->
  exists dst', bit_string_copy_bulked m src sp dst dp len = Ok dst' /\
    bits_of_bytes dst' =
      splice (N.to_nat dp) (slice (bits_of_bytes src) (N.to_nat sp) (N.to_nat len)) (bits_of_bytes dst)
    /\ length dst' = length dst /\ Forall (fun b => b < 256) dst'.
Proof. exact bulk_exact. Qed.

Theorem C11_bulk_short : forall m src sp dst dp len,
  sp + len < two64 -> dp + len < two64 ->
  (8 * blen dst < dp + len -> bit_string_copy_bulked m src sp dst dp len = Err E_INSUFFICIENT_DST)
  /\ (dp + len <= 8 * blen dst -> 8 * blen src < sp + len ->
      bit_string_copy_bulked m src sp dst dp len = Err E_INSUFFICIENT_SRC).
Proof. exact bulk_short. Qed.

Theorem C11_bulk_no_panic : forall m src sp dst dp len,
  Forall (fun b => b < 256) src -> Forall (fun b => b < 256) dst ->
  sp + len < two64 -> dp + len < two64 ->
  is_panic (bit_string_copy_bulked m src sp dst dp len) = false.
Proof. exact bulk_no_panic. Qed.

Theorem C11_write_exact : forall m dst pos src soff slen,
  Forall (fun b => b < 256) src -> Forall (fun b => b < 256) dst ->
  soff + slen < two64 -> pos + slen < two64 ->
  soff + slen <= 8 * blen src -> pos + slen <= 8 * blen dst ->
  exists dst', slice_write_bits m dst pos src soff slen = Ok (dst', pos + slen) /\
    bits_of_bytes dst' =
      splice (N.to_nat pos) (slice (bits_of_bytes src) (N.to_nat soff) (N.to_nat slen)) (bits_of_bytes dst)
    /\ length dst' = length dst /\ Forall (fun b => b < 256) dst'.
Proof. exact write_bits_exact. Qed.

Theorem C11_read_mirror : forall m src pos dst doff dlen,
  Forall (fun b => b < 256) src -> Forall (fun b => b < 256) dst ->
  pos + dlen < two64 -> doff + dlen < two64 ->
  pos + dlen <= 8 * blen src -> doff + dlen <= 8 * blen dst ->
  exists dst', slice_read_bits m src pos dst doff dlen = Ok (dst', pos + dlen) /\
    bits_of_bytes dst' =
      splice (N.to_nat doff) (slice (bits_of_bytes src) (N.to_nat pos) (N.to_nat dlen)) (bits_of_bytes dst)
    /\ length dst' = length dst /\ Forall (fun b => b < 256) dst'.
Proof. exact read_bits_mirror. Qed.

(* ... and they literally are the length-1 instances of bit_string_copy *)
Theorem C11_bit_ops_copies : forall m buf pos, Forall (fun b => b < 256) buf ->
  pos < 8 * blen buf -> pos + 1 < two64 ->
  (forall bit, exists buf', slice_write_bit buf pos bit = Ok (buf', pos + 1)
      /\ bit_string_copy m [if bit then 128 else 0] 0 buf pos 1 = Ok buf')
  /\ (exists b, slice_read_bit buf pos = Ok (b, pos + 1)
      /\ bit_string_copy m buf pos [0] 0 1 = Ok [if b then 128 else 0]).
Proof. exact bit_ops_are_copies. Qed.

(* BitBuffer: [bb_inv] (buffer length is ceil(wpos/8), all elements are bytes, every bit at
   or after the write position is zero) holds for the empty buffer and is preserved by every
   write that returns [Ok], whether or not it carries an error kind ... *)
Theorem C11_buffer_inv_step :
  bb_inv bb_empty
  /\ (forall m b bit b' e, bb_inv b -> bb_wpos b + 1 < two63 ->
        bb_write_bit m b bit = Ok (b', e) -> bb_inv b')
  /\ (forall m b src soff slen b' e, bb_inv b -> Forall (fun x => x < 256) src ->
        soff + slen < two64 -> bb_wpos b + slen < two63 ->
        bb_write_bits_ol m b src soff slen = Ok (b', e) -> bb_inv b')
  /\ (forall m b src soff b' e, bb_inv b -> Forall (fun x => x < 256) src ->
        soff <= 8 * blen src -> 8 * blen src < two64 -> bb_wpos b + (8 * blen src - soff) < two63 ->
        bb_write_bits_o m b src soff = Ok (b', e) -> bb_inv b').
Proof. exact buffer_inv_step. Qed.

(* ... hence for every buffer reachable from the empty one by a list of write operations
   (errors ignored by the caller), as long as fewer than 2^63 bits are requested in total;
   such runs never panic. *)
Theorem C11_buffer_inv : forall m ops,
  Forall wop_ok ops -> wops_len ops < two63 ->
  exists b', fold_left (wop_step m) ops (Ok bb_empty) = Ok b'
    /\ bb_inv b' /\ bb_wpos b' <= wops_len ops.
Proof. exact buffer_inv. Qed.

(* BitBuffer writes are [append] on bit lists *)
Theorem C11_buffer_refines :
  (forall m b src soff slen b', bb_inv b -> Forall (fun x => x < 256) src ->
     soff + slen < two64 -> bb_wpos b + slen < two63 ->
     bb_write_bits_ol m b src soff slen = Ok (b', None) ->
     bb_wpos b' = bb_wpos b + slen /\ bb_rpos b' = bb_rpos b
     /\ firstn (N.to_nat (bb_wpos b')) (bits_of_bytes (bb_buf b'))
        = firstn (N.to_nat (bb_wpos b)) (bits_of_bytes (bb_buf b))
          ++ slice (bits_of_bytes src) (N.to_nat soff) (N.to_nat slen))
  /\ (forall m b bit b', bb_inv b -> bb_wpos b + 1 < two63 ->
     bb_write_bit m b bit = Ok (b', None) ->
     bb_wpos b' = bb_wpos b + 1 /\ bb_rpos b' = bb_rpos b
     /\ firstn (N.to_nat (bb_wpos b')) (bits_of_bytes (bb_buf b'))
        = firstn (N.to_nat (bb_wpos b)) (bits_of_bytes (bb_buf b)) ++ [bit]).
Proof. exact buffer_refines. Qed.

(* The whole public surface of BitBuffer (Bits/Buffer.v). The other three multi-bit write
   entry points are overrides that forward to the tuple carrier's method of the same name;
   each is the write_bits_with_offset_len instance one expects ... *)
Theorem C11_buffer_entry_points : forall m b src,
  (8 * blen src < two64 -> bb_write_bits m b src = bb_write_bits_ol m b src 0 (8 * blen src))
  /\ (forall len, len < two64 -> bb_write_bits_with_len m b src len = bb_write_bits_ol m b src 0 len)
  /\ (forall soff, soff <= 8 * blen src -> 8 * blen src < two64 ->
        bb_write_bits_with_offset m b src soff = bb_write_bits_ol m b src soff (8 * blen src - soff)
        /\ bb_write_bits_with_offset m b src soff = bb_write_bits_o m b src soff).
Proof.
  intros m b src. split; [apply bb_write_bits_eq|]. split; [intros len; apply bb_write_bits_with_len_eq|].
  intros soff H H64. split; [apply bb_write_bits_with_offset_eq|apply bb_write_bits_with_offset_old]; assumption.
Qed.

(* ... so each of the five writes appends exactly the requested bits (or fails on a short
   source and leaves any buffer untouched) *)
Theorem C11_buffer_write_family : forall m b w, w5_ok w ->
  (~ w5_fits w -> w5_apply m b w = Ok (b, Some E_INSUFFICIENT_SRC))
  /\ (bb_inv b -> w5_fits w -> bb_wpos b + w5_len w < two63 ->
      exists b', w5_apply m b w = Ok (b', None)
        /\ bb_inv b' /\ bb_wpos b' = bb_wpos b + w5_len w /\ bb_rpos b' = bb_rpos b
        /\ firstn (N.to_nat (bb_wpos b')) (bits_of_bytes (bb_buf b'))
           = firstn (N.to_nat (bb_wpos b)) (bits_of_bytes (bb_buf b)) ++ w5_bits w).
Proof.
  intros m b w Hok. split; [apply w5_short; exact Hok|].
  intros Hi Hf Hb. exact (w5_append m b w Hi Hok Hf Hb).
Qed.

(* with_write_position_at(pos, any of the five writes) that ends at or before bit_len: no
   growth, cursors restored, and the written prefix changes by exactly the splice *)
Theorem C11_scope_write_in_place : forall m b pos w,
  bb_inv b -> w5_ok w -> w5_fits w -> pos + w5_len w <= bb_wpos b -> bb_wpos b < two63 ->
  exists b', bb_with_write_position_at m b pos (fun b1 => w5_apply m b1 w) = Ok (b', None)
    /\ bb_inv b' /\ bb_wpos b' = bb_wpos b /\ bb_rpos b' = bb_rpos b
    /\ length (bb_buf b') = length (bb_buf b)
    /\ firstn (N.to_nat (bb_wpos b)) (bits_of_bytes (bb_buf b'))
       = splice (N.to_nat pos) (w5_bits w) (firstn (N.to_nat (bb_wpos b)) (bits_of_bytes (bb_buf b))).
Proof. exact scope_write_in_place. Qed.

(* a scoped write that runs past the old end is outside that theorem for a reason: the byte
   vector stays grown and the bits behind the restored bit_len stay set, in both profiles *)
Theorem C11_refuted_scope_write_past_end :
  let b := {| bb_buf := [255]; bb_wpos := 8; bb_rpos := 0 |} in
  let b' := {| bb_buf := [255; 255; 240]; bb_wpos := 8; bb_rpos := 0 |} in
  bb_inv b
  /\ (forall m, bb_with_write_position_at m b 4 (fun b1 => bb_write_bits m b1 [255; 255]) = Ok (b', None))
  /\ ~ bb_inv b'.
Proof. exact scope_write_past_end_refuted. Qed.

(* every buffer reachable from default() / with_capacity(_) / from_bytes(_) by the five writes,
   in-place scoped writes, the five reads (plain, under with_read_position_at, under
   with_max_read), clear and reset_read_position satisfies the invariant ... *)
Theorem C11_reachable_inv : forall m b, reachable m b -> bb_inv b.
Proof. exact reachable_inv. Qed.

(* ... one step at a time, and the state-changing steps always return *)
Theorem C11_public_ops_step : forall m b op, bb_inv b -> bop_ok b op ->
  (forall b', apply_bop m b op = Ok b' -> bb_inv b')
  /\ match op with
     | ORead _ | OScopeR _ _ | OMaxRead _ _ => True
     | _ => exists b', apply_bop m b op = Ok b'
     end.
Proof.
  intros m b op Hi Hok. split; [intros b'; exact (apply_bop_inv m b op b' Hi Hok)|exact (apply_bop_total m b op Hi Hok)].
Qed.

(* reads never touch the stored bits or the write position *)
Theorem C11_reads_keep_bits : forall m b r b', r_apply m b r = Ok b' ->
  bb_buf b' = bb_buf b /\ bb_wpos b' = bb_wpos b.
Proof. exact r_apply_same. Qed.

(* multi-bit reads of a BitBuffer stop at bit_len (repaired in /repo 32291cb): with fewer than
   the requested n bits between the read position and bit_len each of the four is EndOfStream
   (an Err: nothing changes), under the scoped combinators as anywhere else since the guard
   only looks at the two cursors; a successful one lies inside the written bits, returns
   exactly the stored bits [read_position, read_position + n) at the destination offset, and
   advances the read position by n *)
Theorem C11_buffer_reads_within_bit_len : forall m b r,
  (bb_wpos b - bb_rpos b < m_len r -> m_read m b r = Err E_END_OF_STREAM)
  /\ (forall dst' b',
      Forall (fun x => x < 256) (bb_buf b) -> Forall (fun x => x < 256) (m_dst r) ->
      (match r with MOff d o => o <= 8 * blen d | _ => True end) ->
      bb_rpos b + m_len r < two64 -> m_off r + m_len r < two64 ->
      m_read m b r = Ok (dst', b') ->
      ((bb_rpos b <= bb_wpos b \/ 0 < m_len r) -> bb_rpos b + m_len r <= bb_wpos b)
      /\ bb_rpos b' = bb_rpos b + m_len r /\ bb_buf b' = bb_buf b /\ bb_wpos b' = bb_wpos b
      /\ bits_of_bytes dst' =
           splice (N.to_nat (m_off r))
             (slice (bits_of_bytes (bb_buf b)) (N.to_nat (bb_rpos b)) (N.to_nat (m_len r)))
             (bits_of_bytes (m_dst r))
      /\ length dst' = length (m_dst r)).
Proof.
  intros m b r. split; [apply m_read_short|].
  intros dst' b'. apply m_read_exact.
Qed.

(* non-vacuity: the witness of the repaired read (one written bit, read_bits into one byte),
   and a read that succeeds *)
Example C11_reads_nonvacuous :
  m_read dev_mode {| bb_buf := [128]; bb_wpos := 1; bb_rpos := 0 |} (MAll [0]) = Err E_END_OF_STREAM
  /\ m_read dev_mode {| bb_buf := [165; 90]; bb_wpos := 13; bb_rpos := 2 |} (MOffLen [255; 255] 3 9)
     = Ok ([242; 175], {| bb_buf := [165; 90]; bb_wpos := 13; bb_rpos := 11 |}).
Proof. split; vm_compute; reflexivity. Qed.

(* non-vacuity of the reachability statements: a run through a write, an in-place scoped
   write at an aligned position before the end, and a read *)
Example C11_nonvacuous_surface :
  reachable dev_mode {| bb_buf := [0; 165; 34]; bb_wpos := 24; bb_rpos := 8 |}
  /\ bop_ok {| bb_buf := [0; 17; 34]; bb_wpos := 24; bb_rpos := 0 |} (OScopeW 8 (W5All [165]))
  /\ apply_bop dev_mode {| bb_buf := [0; 17; 34]; bb_wpos := 24; bb_rpos := 0 |} (OScopeW 8 (W5All [165]))
     = Ok {| bb_buf := [0; 165; 34]; bb_wpos := 24; bb_rpos := 0 |}.
Proof.
  assert (K1 : bop_ok bb_empty (OWrite (W5All [0; 17; 34]))).
  { cbn [bop_ok w5_ok w5_src w5_off w5_len]. repeat split; try (repeat constructor; reflexivity); vm_compute; reflexivity. }
  assert (K2 : bop_ok {| bb_buf := [0; 17; 34]; bb_wpos := 24; bb_rpos := 0 |} (OScopeW 8 (W5All [165]))).
  { cbn [bop_ok w5_ok w5_src w5_off w5_len]. repeat split; try (repeat constructor; reflexivity); vm_compute; congruence. }
  split; [|split; [exact K2|vm_compute; reflexivity]].
  apply (reach_step dev_mode {| bb_buf := [0; 165; 34]; bb_wpos := 24; bb_rpos := 0 |} (ORead (RMulti (MAll [0]))));
    [|exact I|vm_compute; reflexivity].
  apply (reach_step dev_mode {| bb_buf := [0; 17; 34]; bb_wpos := 24; bb_rpos := 0 |} (OScopeW 8 (W5All [165])));
    [|exact K2|vm_compute; reflexivity].
  apply (reach_step dev_mode bb_empty (OWrite (W5All [0; 17; 34]))); [apply reach_empty|exact K1|vm_compute; reflexivity].
Qed.

(* non-vacuity: the witness of the repaired defect (bits after the copied range survive),
   satisfiable instances of the hypotheses of the copy theorems, and a run of write
   operations (the last one fails with InsufficientSource and is ignored) *)
Example C11_nonvacuous :
  bit_string_copy_bulked dev_mode [0;0;0;0;0] 0 [255;255;255;255;255] 1 17 = Ok [128;0;63;255;255]
  /\ (Forall (fun b => b < 256) [0;0;0;0;0] /\ Forall (fun b => b < 256) [255;255;255;255;255]
      /\ 0 + 17 < two64 /\ 1 + 17 < two64
      /\ 0 + 17 <= 8 * blen [0;0;0;0;0] /\ 1 + 17 <= 8 * blen [255;255;255;255;255])
  /\ (let ops := [WBit true; WBits [1;2;3] 3 20; WBitsO [1;2;3] 5; WBits [1] 0 9] in
      Forall wop_ok ops /\ wops_len ops < two63
      /\ fold_left (wop_step dev_mode) ops (Ok bb_empty)
         = Ok {| bb_buf := [132; 8; 9; 2; 3]; bb_wpos := 40; bb_rpos := 0 |}).
Proof.
  split; [vm_compute; reflexivity|]. split.
  - repeat split; try (repeat constructor; reflexivity); vm_compute; congruence.
  - cbv zeta. split; [|split; vm_compute; reflexivity].
    repeat constructor; vm_compute; congruence.
Qed.

Print Assumptions C11_bitwise_exact.
Print Assumptions C11_bitwise_short.
Print Assumptions C11_bitwise_no_panic.
Print Assumptions C11_bit_ops.
Print Assumptions C11_bit_ops_copies.
Print Assumptions C11_bulk_exact.
Print Assumptions C11_bulk_short.
Print Assumptions C11_bulk_no_panic.
Print Assumptions C11_write_exact.
Print Assumptions C11_read_mirror.
Print Assumptions C11_buffer_inv_step.
Print Assumptions C11_buffer_inv.
Print Assumptions C11_buffer_refines.
Print Assumptions C11_buffer_entry_points.
Print Assumptions C11_buffer_write_family.
Print Assumptions C11_scope_write_in_place.
Print Assumptions C11_refuted_scope_write_past_end.
Print Assumptions C11_reachable_inv.
Print Assumptions C11_public_ops_step.
Print Assumptions C11_reads_keep_bits.
Print Assumptions C11_buffer_reads_within_bit_len.
