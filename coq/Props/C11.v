(* C11 — bit-level buffer operations equal a naive bit-vector model (statements pinned here).
   This file only pins statements; proofs live in Bits/Proofs.v. *)
From A1 Require Import Bits.Naive Bits.Copy Bits.Proofs.
Local Open Scope N_scope.

Theorem C11_bitwise_exact : forall m src sp dst dp len,
  Forall (fun b => b < 256) src -> Forall (fun b => b < 256) dst ->
  sp + len < two64 -> dp + len < two64 ->
  sp + len <= 8 * blen src -> dp + len <= 8 * blen dst ->
  exists dst', bit_string_copy m src sp dst dp len = Ok dst' /\
    bits_of_bytes dst' =
      splice (N.to_nat dp) (slice (bits_of_bytes src) (N.to_nat sp) (N.to_nat len)) (bits_of_bytes dst)
    /\ length dst' = length dst /\ Forall (fun b => b < 256) dst'.
Proof. exact bitwise_exact. Qed.

Theorem C11_bitwise_short : forall m src sp dst dp len,
  sp + len < two64 -> dp + len < two64 ->
  (8 * blen dst < dp + len -> bit_string_copy m src sp dst dp len = Err E_INSUFFICIENT_DST)
  /\ (dp + len <= 8 * blen dst -> 8 * blen src < sp + len ->
      bit_string_copy m src sp dst dp len = Err E_INSUFFICIENT_SRC).
Proof. exact bitwise_short. Qed.

Theorem C11_bitwise_no_panic : forall m src sp dst dp len,
  sp + len < two64 -> dp + len < two64 ->
  is_panic (bit_string_copy m src sp dst dp len) = false.
Proof. exact bitwise_no_panic. Qed.

Theorem C11_bit_ops : forall buf pos, Forall (fun b => b < 256) buf ->
  (forall bit,
     (pos < 8 * blen buf ->
        exists buf', slice_write_bit buf pos bit = Ok (buf', pos + 1)
          /\ bits_of_bytes buf' = splice (N.to_nat pos) [bit] (bits_of_bytes buf)
          /\ length buf' = length buf /\ Forall (fun b => b < 256) buf')
     /\ (8 * blen buf <= pos -> slice_write_bit buf pos bit = Err E_END_OF_STREAM))
  /\ (pos < 8 * blen buf ->
        exists b, slice_read_bit buf pos = Ok (b, pos + 1)
          /\ [b] = slice (bits_of_bytes buf) (N.to_nat pos) 1)
  /\ (8 * blen buf <= pos -> slice_read_bit buf pos = Err E_END_OF_STREAM).
Proof. exact bit_ops. Qed.

Theorem C11_bulk_exact : forall m src sp dst dp len,
  Forall (fun b => b < 256) src -> Forall (fun b => b < 256) dst ->
  sp + len < two64 -> dp + len < two64 ->
  sp + len <= 8 * blen src -> dp + len <= 8 * blen dst ->
  exists dst', bit_string_copy_bulked m src sp dst dp len = Ok dst' /\
    bits_of_bytes dst' =
      splice (N.to_nat dp) (slice (bits_of_bytes src) (N.to_nat sp) (N.to_nat len)) (bits_of_bytes dst)
    /\ length dst' = length dst /\ Forall (fun b => b < 256) dst'.
Proof. exact bulk_exact. Qed.

Theorem C11_bulk_short : forall m src sp dst dp len,
  sp + len < two64 -> dp + len < two64 ->
  (8 * blen dst < dp + len -> bit_string_copy_bulked m src sp dst dp len = Err E_INSUFFICIENT_DST)
  /\ (dp + len <= 8 * blen dst -> 8 * blen src < sp + len ->
      bit_string_copy_bulked m src sp dst dp len = Err E_INSUFFICIENT_SRC).
Proof. exact bulk_short. Qed.

Theorem C11_bulk_no_panic : forall m src sp dst dp len,
  Forall (fun b => b < 256) src -> Forall (fun b => b < 256) dst ->
  sp + len < two64 -> dp + len < two64 ->
  is_panic (bit_string_copy_bulked m src sp dst dp len) = false.
Proof. exact bulk_no_panic. Qed.

Theorem C11_write_exact : forall m dst pos src soff slen,
  Forall (fun b => b < 256) src -> Forall (fun b => b < 256) dst ->
  soff + slen < two64 -> pos + slen < two64 ->
  soff + slen <= 8 * blen src -> pos + slen <= 8 * blen dst ->
  exists dst', slice_write_bits m dst pos src soff slen = Ok (dst', pos + slen) /\
    bits_of_bytes dst' =
      splice (N.to_nat pos) (slice (bits_of_bytes src) (N.to_nat soff) (N.to_nat slen)) (bits_of_bytes dst)
    /\ length dst' = length dst /\ Forall (fun b => b < 256) dst'.
Proof. exact write_bits_exact. Qed.

Theorem C11_read_mirror : forall m src pos dst doff dlen,
  Forall (fun b => b < 256) src -> Forall (fun b => b < 256) dst ->
  pos + dlen < two64 -> doff + dlen < two64 ->
  pos + dlen <= 8 * blen src -> doff + dlen <= 8 * blen dst ->
  exists dst', slice_read_bits m src pos dst doff dlen = Ok (dst', pos + dlen) /\
    bits_of_bytes dst' =
      splice (N.to_nat doff) (slice (bits_of_bytes src) (N.to_nat pos) (N.to_nat dlen)) (bits_of_bytes dst)
    /\ length dst' = length dst /\ Forall (fun b => b < 256) dst'.
Proof. exact read_bits_mirror. Qed.

(* ... and they literally are the length-1 instances of bit_string_copy *)
Theorem C11_bit_ops_copies : forall m buf pos, Forall (fun b => b < 256) buf ->
  pos < 8 * blen buf -> pos + 1 < two64 ->
  (forall bit, exists buf', slice_write_bit buf pos bit = Ok (buf', pos + 1)
      /\ bit_string_copy m [if bit then 128 else 0] 0 buf pos 1 = Ok buf')
  /\ (exists b, slice_read_bit buf pos = Ok (b, pos + 1)
      /\ bit_string_copy m buf pos [0] 0 1 = Ok [if b then 128 else 0]).
Proof. exact bit_ops_are_copies. Qed.

(* BitBuffer: [bb_inv] (buffer length is ceil(wpos/8), all elements are bytes, every bit at
   or after the write position is zero) holds for the empty buffer and is preserved by every
   write that returns [Ok], whether or not it carries an error kind ... *)
Theorem C11_buffer_inv_step :
  bb_inv bb_empty
  /\ (forall m b bit b' e, bb_inv b -> bb_wpos b + 1 < two63 ->
        bb_write_bit m b bit = Ok (b', e) -> bb_inv b')
  /\ (forall m b src soff slen b' e, bb_inv b -> Forall (fun x => x < 256) src ->
        soff + slen < two64 -> bb_wpos b + slen < two63 ->
        bb_write_bits_ol m b src soff slen = Ok (b', e) -> bb_inv b')
  /\ (forall m b src soff b' e, bb_inv b -> Forall (fun x => x < 256) src ->
        soff <= 8 * blen src -> 8 * blen src < two64 -> bb_wpos b + (8 * blen src - soff) < two63 ->
        bb_write_bits_o m b src soff = Ok (b', e) -> bb_inv b').
Proof. exact buffer_inv_step. Qed.

(* ... hence for every buffer reachable from the empty one by a list of write operations
   (errors ignored by the caller), as long as fewer than 2^63 bits are requested in total;
   such runs never panic. *)
Theorem C11_buffer_inv : forall m ops,
  Forall wop_ok ops -> wops_len ops < two63 ->
  exists b', fold_left (wop_step m) ops (Ok bb_empty) = Ok b'
    /\ bb_inv b' /\ bb_wpos b' <= wops_len ops.
Proof. exact buffer_inv. Qed.

(* BitBuffer writes are [append] on bit lists *)
Theorem C11_buffer_refines :
  (forall m b src soff slen b', bb_inv b -> Forall (fun x => x < 256) src ->
     soff + slen < two64 -> bb_wpos b + slen < two63 ->
     bb_write_bits_ol m b src soff slen = Ok (b', None) ->
     bb_wpos b' = bb_wpos b + slen /\ bb_rpos b' = bb_rpos b
     /\ firstn (N.to_nat (bb_wpos b')) (bits_of_bytes (bb_buf b'))
        = firstn (N.to_nat (bb_wpos b)) (bits_of_bytes (bb_buf b))
          ++ slice (bits_of_bytes src) (N.to_nat soff) (N.to_nat slen))
  /\ (forall m b bit b', bb_inv b -> bb_wpos b + 1 < two63 ->
     bb_write_bit m b bit = Ok (b', None) ->
     bb_wpos b' = bb_wpos b + 1 /\ bb_rpos b' = bb_rpos b
     /\ firstn (N.to_nat (bb_wpos b')) (bits_of_bytes (bb_buf b'))
        = firstn (N.to_nat (bb_wpos b)) (bits_of_bytes (bb_buf b)) ++ [bit]).
Proof. exact buffer_refines. Qed.

(* non-vacuity: the witness of the repaired defect (bits after the copied range survive),
   satisfiable instances of the hypotheses of the copy theorems, and a run of write
   operations (the last one fails with InsufficientSource and is ignored) *)
Example C11_nonvacuous :
  bit_string_copy_bulked dev_mode [0;0;0;0;0] 0 [255;255;255;255;255] 1 17 = Ok [128;0;63;255;255]
  /\ (Forall (fun b => b < 256) [0;0;0;0;0] /\ Forall (fun b => b < 256) [255;255;255;255;255]
      /\ 0 + 17 < two64 /\ 1 + 17 < two64
      /\ 0 + 17 <= 8 * blen [0;0;0;0;0] /\ 1 + 17 <= 8 * blen [255;255;255;255;255])
  /\ (let ops := [WBit true; WBits [1;2;3] 3 20; WBitsO [1;2;3] 5; WBits [1] 0 9] in
      Forall wop_ok ops /\ wops_len ops < two63
      /\ fold_left (wop_step dev_mode) ops (Ok bb_empty)
         = Ok {| bb_buf := [132; 8; 9; 2; 3]; bb_wpos := 40; bb_rpos := 0 |}).
Proof.
  split; [vm_compute; reflexivity|]. split.
  - repeat split; try (repeat constructor; reflexivity); vm_compute; congruence.
  - cbv zeta. split; [|split; vm_compute; reflexivity].
    repeat constructor; vm_compute; congruence.
Qed.

Print Assumptions C11_bitwise_exact.
Print Assumptions C11_bitwise_short.
Print Assumptions C11_bitwise_no_panic.
Print Assumptions C11_bit_ops.
Print Assumptions C11_bit_ops_copies.
Print Assumptions C11_bulk_exact.
Print Assumptions C11_bulk_short.
Print Assumptions C11_bulk_no_panic.
Print Assumptions C11_write_exact.
Print Assumptions C11_read_mirror.
Print Assumptions C11_buffer_inv_step.
Print Assumptions C11_buffer_inv.
Print Assumptions C11_buffer_refines.
