(* C11 — bit-level buffer operations equal a naive bit-vector model (statements pinned here). *)
From A1 Require Import Bits.Naive Bits.Copy.
