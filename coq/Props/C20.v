(* C20 — DER primitives round trip: identifier, length, BOOLEAN, INTEGER, ENUMERATED.
   This file only pins statements; proofs live in Der/Proofs.v. *)
From A1 Require Import Der.Prim Der.Proofs.
Local Open Scope N_scope.

Theorem C20_length : forall l tail, is_u64 l ->
  read_length (write_length l ++ tail) = Ok (l, tail).
Proof. exact read_length_write. Qed.

Theorem C20_ident : forall c n tail, n < 64 ->
  read_identifier (write_identifier c n ++ tail) = Ok (c, n, tail).
Proof. exact read_identifier_write. Qed.

(* exactly: a single identifier octet carries tag numbers below 64 and no others (the reader never
   returns a number >= 64, so a larger tag number cannot round-trip; no generated type has one) *)
Theorem C20_ident_exact : forall c n tail,
  read_identifier (write_identifier c n ++ tail) = Ok (c, n, tail) <-> n < 64.
Proof. exact read_identifier_write_iff. Qed.

Theorem C20_ident_value_bound : forall inp c n rest,
  read_identifier inp = Ok (c, n, rest) -> n < 64.
Proof. exact read_identifier_value_lt. Qed.

Theorem C20_boolean : forall c tag b tail, tag < 64 ->
  r_boolean tag (w_boolean c tag b ++ tail) = Ok (b, tail).
Proof. exact r_boolean_w_boolean. Qed.

Theorem C20_boolean_nonzero : forall b tail, b <> 0 ->
  read_boolean (b :: tail) = Ok (true, tail).
Proof. exact read_boolean_nonzero. Qed.

Theorem C20_int : forall k c tag v tail, tag < 64 -> ik_fits k v ->
  r_number k tag (w_number k c tag v ++ tail) = Ok (v, tail).
Proof. exact r_number_w_number. Qed.

Theorem C20_enum : forall c tag n i tail, tag < 64 -> i < n -> is_u64 i ->
  r_enumerated n tag (w_enumerated c tag i ++ tail) = Ok (i, tail).
Proof. exact r_enumerated_w_enumerated. Qed.

(* non-vacuity: the hypotheses are inhabited by non-trivial values *)
Example C20_nonvacuous :
  is_u64 70000 /\ ik_fits I16 (-300)%Z /\ (5 < 64) /\
  w_number I16 ContextSpecific 5 (-300)%Z = [133; 8; 255; 255; 255; 255; 255; 255; 254; 212] /\
  write_length 70000 = [131; 1; 17; 112].
Proof. vm_compute. repeat split; congruence. Qed.

Print Assumptions C20_length.
Print Assumptions C20_ident.
Print Assumptions C20_ident_exact.
Print Assumptions C20_ident_value_bound.
Print Assumptions C20_boolean.
Print Assumptions C20_boolean_nonzero.
Print Assumptions C20_int.
Print Assumptions C20_enum.
