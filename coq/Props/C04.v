(* C04 — decoders never panic, hang or over-read on arbitrary input.  Statements pinned here.
   In the model every partial Rust operation (indexing, unchecked arithmetic per profile, allocation,
   unwrap, debug assertions) is an explicit [Panic] outcome, so "never panics" is [is_panic _ = false]. *)
From A1 Require Import Per.Prim Per.Proofs.
From A1 Require Props.C10 Props.C11.
From A1 Require Der.Prim Der.TotalProofs.
Local Open Scope N_scope.

(** L0: the bit copy under every read never panics when positions do not overflow *)
Theorem C04_bit_copy_no_panic : forall m src sp dst dp len,
  Forall (fun b => b < 256) src -> Forall (fun b => b < 256) dst ->
  sp + len < two64 -> dp + len < two64 ->
  is_panic (A1.Bits.Copy.bit_string_copy_bulked m src sp dst dp len) = false.
Proof. exact C11.C11_bulk_no_panic. Qed.

(** L1: the PER primitive readers on arbitrary sources, both cargo profiles *)
Theorem C04_per_readers_no_panic : forall m s,
  np (r_nnbi m None None s) /\
  (forall lb ub, nn_bounded lb ub ->
     opt_or lb 0 + 2 ^ N.size (opt_or ub I64_MAX - opt_or lb 0) <= two64 -> np (r_nnbi m lb ub s)) /\
  (forall lb ub, opt_or lb 0 < two64 -> ~ Known_C10_length_semi_or_large_bound lb ub ->
     np (r_length_determinant m lb ub s)) /\
  (forall k, np (r_2s_compliment k s)) /\
  (forall lb ub, np (r_constrained m lb ub s)) /\
  np (r_normally_small m s) /\
  (forall lb, np (r_semi_constrained m lb s)) /\
  np (r_unconstrained m s) /\
  (forall std ext, std < two64 -> np (r_enumeration_index m std ext s)).
Proof. exact C10.C10_no_panic_readers. Qed.

Theorem C04_octetstring_reader_no_panic : forall m lb ub extensible s,
  ~ Known_C10_length_semi_or_large_bound lb ub -> opt_or lb 0 <= opt_or ub I64_MAX ->
  np (r_octetstring m lb ub extensible s).
Proof. exact C10.C10_no_panic_octetstring_read. Qed.

(* the listed finding F04-1 / F10-3: a 63-bit length from the input is allocated *)
Theorem C04_refuted_untrusted_length_alloc :
  exists m lb bytes,
    is_panic (r_octetstring m (Some lb) None false (src_of_bytes bytes (8 * blen bytes))) = true.
Proof.
  exists release_mode, 1, [255; 255; 255; 255; 255; 255; 255; 255]. vm_compute. reflexivity.
Qed.

(** no success beyond the declared length: a bit read succeeds only strictly inside it *)
Theorem C04_read_bit_within_len : forall s b s',
  r_bit s = Ok (b, s') -> s_pos s < s_len s /\ s_pos s' = s_pos s + 1 /\ s_len s' = s_len s.
Proof. exact A1.Der.TotalProofs.read_bit_within_len. Qed.

Theorem C04_read_bits_within_len : forall s dst doff n bs s',
  r_bits_into s dst doff n = Ok (bs, s') ->
  s_pos s + n <= s_len s \/ s_len s < s_pos s /\ n = 0.
Proof. exact A1.Der.TotalProofs.read_bits_within_len. Qed.

(** DER: the primitive readers and the implemented BasicReader arms are total on every byte string *)
Theorem C04_der_total : forall inp,
  is_panic (A1.Der.Prim.read_length inp) = false /\
  is_panic (A1.Der.Prim.read_identifier inp) = false /\
  is_panic (A1.Der.Prim.read_boolean inp) = false /\
  (forall n, is_panic (A1.Der.Prim.read_integer_i64 n inp) = false) /\
  (forall n, is_panic (A1.Der.Prim.read_integer_u64 n inp) = false) /\
  (forall k tag, is_panic (A1.Der.Prim.r_number k tag inp) = false) /\
  (forall tag, is_panic (A1.Der.Prim.r_boolean tag inp) = false) /\
  (forall n tag, is_panic (A1.Der.Prim.r_enumerated n tag inp) = false).
Proof. exact A1.Der.TotalProofs.der_total. Qed.

Print Assumptions C04_bit_copy_no_panic.
Print Assumptions C04_per_readers_no_panic.
Print Assumptions C04_octetstring_reader_no_panic.
Print Assumptions C04_refuted_untrusted_length_alloc.
Print Assumptions C04_read_bit_within_len.
Print Assumptions C04_read_bits_within_len.
Print Assumptions C04_der_total.
