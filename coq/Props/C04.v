(* C04 statements pinned here *)
From A1 Require Import Uper.Reader.
