(* Props/C04.v -- stub, to be filled *)
