(* C04 — decoders never panic, hang or over-read on arbitrary input.  Statements pinned here.
   In the model every partial Rust operation (indexing, unchecked arithmetic per profile, allocation,
   unwrap, debug assertions) is an explicit [Panic] outcome, so "never panics" is [is_panic _ = false]. *)
From A1 Require Import Per.Prim Per.Proofs.
From A1 Require Props.C10 Props.C11.
From A1 Require Der.Prim Der.TotalProofs.
From A1 Require Import Uper.Spec Uper.TotalProofs.
From A1 Require Proto.Wire Proto.Rw Proto.Proofs Proto.RwLemmas Proto.RoundtripProofs Proto.TotalProofs.
Local Open Scope N_scope.

(** L0: the bit copy under every read never panics when positions do not overflow *)
Theorem C04_bit_copy_no_panic : forall m src sp dst dp len,
  Forall (fun b => b < 256) src -> Forall (fun b => b < 256) dst ->
  sp + len < two64 -> dp + len < two64 ->
  is_panic (A1.Bits.Copy.bit_string_copy_bulked m src sp dst dp len) = false.
Proof. exact C11.C11_bulk_no_panic. Qed.

(** L1: the PER primitive readers on arbitrary sources, both cargo profiles *)
Theorem C04_per_readers_no_panic : forall m s,
  np (r_nnbi m None None s) /\
  (forall lb ub, nn_bounded lb ub ->
     opt_or lb 0 + 2 ^ N.size (opt_or ub I64_MAX - opt_or lb 0) <= two64 -> np (r_nnbi m lb ub s)) /\
  (forall lb ub, opt_or lb 0 < two64 -> ~ Known_C10_length_semi_or_large_bound lb ub ->
     np (r_length_determinant m lb ub s)) /\
  (forall k, np (r_2s_compliment k s)) /\
  (forall lb ub, np (r_constrained m lb ub s)) /\
  np (r_normally_small m s) /\
  (forall lb, np (r_semi_constrained m lb s)) /\
  np (r_unconstrained m s) /\
  (forall std ext, std < two64 -> np (r_enumeration_index m std ext s)).
Proof. exact C10.C10_no_panic_readers. Qed.

Theorem C04_octetstring_reader_no_panic : forall m lb ub extensible s,
  ~ Known_C10_length_semi_or_large_bound lb ub -> opt_or lb 0 <= opt_or ub I64_MAX ->
  np (r_octetstring m lb ub extensible s).
Proof. exact C10.C10_no_panic_octetstring_read. Qed.

(* the listed finding F04-1 / F10-3: a 63-bit length from the input is allocated *)
Theorem C04_refuted_untrusted_length_alloc :
  exists m lb bytes,
    is_panic (r_octetstring m (Some lb) None false (src_of_bytes bytes (8 * blen bytes))) = true.
Proof.
  exists release_mode, 1, [255; 255; 255; 255; 255; 255; 255; 255]. vm_compute. reflexivity.
Qed.

(** no success beyond the declared length: a bit read succeeds only strictly inside it *)
Theorem C04_read_bit_within_len : forall s b s',
  r_bit s = Ok (b, s') -> s_pos s < s_len s /\ s_pos s' = s_pos s + 1 /\ s_len s' = s_len s.
Proof. exact A1.Der.TotalProofs.read_bit_within_len. Qed.

Theorem C04_read_bits_within_len : forall s dst doff n bs s',
  r_bits_into s dst doff n = Ok (bs, s') ->
  s_pos s + n <= s_len s \/ s_len s < s_pos s /\ n = 0.
Proof. exact A1.Der.TotalProofs.read_bits_within_len. Qed.

(** DER: the primitive readers and the implemented BasicReader arms are total on every byte string *)
Theorem C04_der_total : forall inp,
  is_panic (A1.Der.Prim.read_length inp) = false /\
  is_panic (A1.Der.Prim.read_identifier inp) = false /\
  is_panic (A1.Der.Prim.read_boolean inp) = false /\
  (forall n, is_panic (A1.Der.Prim.read_integer_i64 n inp) = false) /\
  (forall n, is_panic (A1.Der.Prim.read_integer_u64 n inp) = false) /\
  (forall k tag, is_panic (A1.Der.Prim.r_number k tag inp) = false) /\
  (forall tag, is_panic (A1.Der.Prim.r_boolean tag inp) = false) /\
  (forall n tag, is_panic (A1.Der.Prim.r_enumerated n tag inp) = false).
Proof. exact A1.Der.TotalProofs.der_total. Qed.

(** * L2: the UPER reader [read_ty] (model of `impl Reader for UperReader`) is total.

   Vocabulary (Uper/TotalProofs.v):
     [src_inv s]    the source invariant: the unread bits are the suffix of the slice at the cursor
                    ([s_rest s = skipn (s_pos s) (s_all s)]), [s_pos s <= s_len s], and the declared bit
                    length is below 2^63 (a bit count of a Rust slice);
     [same_src s s'] same slice, same slice length, same declared length;
     [Known_C04 t]  the type contains, anywhere, a member of a listed finding family:
        (F04-1) [Known_C04_size lo hi]: a size constraint of a restricted string (not UTF8String, whose reader
                ignores it) / OCTET STRING / BIT STRING / SEQUENCE OF with a lower bound and no upper bound, or an
                upper bound of 64K or more: the 63/17..-bit count read from the input is allocated as it comes
                (SEQUENCE OF: `Vec::with_capacity(len)`);
        (F04-3) [Known_C04_bits_unconstrained lo hi ext]: a BIT STRING whose length can arrive in the
                unconstrained form (no bounds at all, or an extension marker): the fragment loop of
                read_bitstring underflows for 16384 bits or more.
   Every panic class of the model is covered: P_ARITH (unchecked arithmetic, dev profile), P_CAPACITY /
   P_UNBOUNDED (allocation or loop sized by the input), P_UNWRAP (read_opt / read_default), P_ASSERT (the
   `debug_assert!(scope.exhausted())` of scope_pushed, dev profile), P_OTHER (states the model calls unreachable). *)
Theorem C04_uper_total : forall m t s, wf_ty t -> ~ Known_C04 t -> src_inv s ->
  match read_ty m t (r_of_src s) with
  | Ok (_, r') => s_pos (r_src r') <= s_len s /\ src_inv (r_src r') /\ s_len (r_src r') = s_len s
  | Err _ => True
  | Panic _ => False
  end.
Proof. exact uper_total. Qed.

(* every byte string, every declared bit length below 2^63, both cargo profiles *)
Theorem C04_uper_total_bytes : forall m t bytes len, wf_ty t -> ~ Known_C04 t -> len < two63 ->
  is_panic (read_ty m t (r_of_src (src_of_bytes bytes len))) = false.
Proof. exact uper_total_bytes. Qed.

Theorem C04_src_of_bytes_inv : forall bytes len, len < two63 -> src_inv (src_of_bytes bytes len).
Proof. exact src_of_bytes_inv. Qed.

(* the remaining-bit count does not underflow: before the read, and in the state after every successful
   read; a failed read (Err) returns no state in the model -- the caller keeps the state it passed in, which
   is within the invariant -- and every intermediate state of every primitive keeps [s_pos <= s_len]
   ([C04_pos_le_len_preserved]) *)
Theorem C04_remaining_callable : forall m t s, wf_ty t -> ~ Known_C04 t -> src_inv s ->
  src_remaining m s = Ok (s_len s - s_pos s) /\
  forall v r', read_ty m t (r_of_src s) = Ok (v, r') ->
    src_remaining m (r_src r') = Ok (s_len s - s_pos (r_src r')).
Proof. exact remaining_callable. Qed.

Theorem C04_remaining_in_invariant : forall m s, src_inv s -> src_remaining m s = Ok (s_len s - s_pos s).
Proof. exact remaining_ok. Qed.

(* [pos_le_len f]: on success from a source in the invariant the output source is in the invariant,
   with the cursor within the (unchanged) declared length *)
Theorem C04_pos_le_len_preserved : forall m,
  pos_le_len r_bit /\
  (forall d o n, pos_le_len (fun s => r_bits_into s d o n)) /\
  (forall p, pos_le_len (fun s => Ok (tt, src_set_pos s p))) /\
  (forall lb ub, pos_le_len (r_nnbi m lb ub)) /\
  (forall lb ub, pos_le_len (r_length_determinant m lb ub)) /\
  (forall k, pos_le_len (r_2s_compliment k)) /\
  (forall lb ub, pos_le_len (r_constrained m lb ub)) /\
  pos_le_len (r_normally_small m) /\
  pos_le_len (r_unconstrained m) /\
  (forall std ext, pos_le_len (r_enumeration_index m std ext)) /\
  (forall lb ub ext, pos_le_len (r_octetstring m lb ub ext)) /\
  (forall lb u, pos_le_len (r_bitstring m lb (Some u) false)).
Proof. exact pos_le_len_preserved. Qed.

(* the entry call of a component in any scope of a field walk never panics, never answers None to an
   OPTIONAL/DEFAULT component (no unwrap of None), and leaves a state within the invariant even when it
   reports an error (SEQUENCE drops that error) *)
Theorem C04_entry_total : forall m r sc (o e : bool) n k,
  src_inv (r_src r) -> r_scope r = Some sc -> winv e sc (n + 1) (k + (if o then 1 else 0)) ->
  entry_post e n k o (r_src r) (read_bit_field_entry_st m r o).
Proof. exact entry_good. Qed.

(** the excluded classes contain panics: F04-1 *)
Theorem C04_refuted_size_octets :
  let t := TOctets (Some 1) None false in
  wf_ty t /\ Known_C04 t /\ run_bytes release_mode t [255; 255; 255; 255; 255; 255; 255; 255] = Panic P_CAPACITY.
Proof. exact refuted_size_octets. Qed.
Theorem C04_refuted_size_string :
  let t := TStr Ia5 (Some 1) None false in
  wf_ty t /\ Known_C04 t /\ run_bytes release_mode t [255; 255; 255; 255; 255; 255; 255; 255] = Panic P_CAPACITY.
Proof. exact refuted_size_string. Qed.
Theorem C04_refuted_size_bitstring :
  let t := TBitStr (Some 1) None false in
  wf_ty t /\ Known_C04 t /\ run_bytes release_mode t [255; 255; 255; 255; 255; 255; 255; 255] = Panic P_UNBOUNDED.
Proof. exact refuted_size_bitstring. Qed.
Theorem C04_refuted_size_sequence_of :
  let t := TListOf TBool (Some 1) None false in
  wf_ty t /\ Known_C04 t /\ run_bytes release_mode t [255; 255; 255; 255; 255; 255; 255; 255] = Panic P_CAPACITY.
Proof. exact refuted_size_sequence_of. Qed.
Theorem C04_refuted_size_large_upper :
  let t := TOctets None (Some 1099511627776) false in
  wf_ty t /\ Known_C04 t /\ run_bytes release_mode t [255; 255; 255; 255; 255; 255; 255; 255] = Panic P_UNBOUNDED.
Proof. exact refuted_size_large_upper. Qed.

(** F04-3 *)
Theorem C04_refuted_bitstring_unconstrained :
  let t := TBitStr None None false in
  let bytes := [193] ++ repeat 0 2048 ++ [1; 128] in
  wf_ty t /\ Known_C04 t /\ run_bytes dev_mode t bytes = Panic P_ARITH /\ is_panic (run_bytes release_mode t bytes) = true.
Proof. exact refuted_bitstring_unconstrained. Qed.
Theorem C04_refuted_bitstring_extensible :
  let t := TBitStr (Some 1) (Some 8) true in
  let bytes := [224; 128] ++ repeat 0 2048 ++ [192; 0] in
  wf_ty t /\ Known_C04 t /\ run_bytes dev_mode t bytes = Panic P_ARITH.
Proof. exact refuted_bitstring_extensible. Qed.

(* repaired: an extension-addition count of 2^64 (extension bit, normally small number FF..FF of 8 octets)
   no longer overflows `+ 1` in Scope::read_from_field *)
Theorem C04_ext_count_overflow_is_error : forall m,
  is_panic (run_bytes m (TSeq [(FReq, TBool); (FReq, TBool)] 0 2 (Some 0))
              [225; 31; 255; 255; 255; 255; 255; 255; 255; 224; 0]) = false.
Proof. exact ext_count_overflow_is_error. Qed.

(** ** the protobuf Reader (model Proto/Rw.v, tied to rw/proto_read.rs by the differential stream of C17: ops 4010..4018
       and 4060).  The names of the protobuf model clash with the UPER ones, so the statements live in a module. *)
Module ProtoC04.
Import A1.Proto.Wire A1.Proto.Rw A1.Proto.Proofs A1.Proto.RwLemmas A1.Proto.RoundtripProofs A1.Proto.TotalProofs.

(* the only class in which the protobuf reader panics or diverges: the type contains, anywhere, a SEQUENCE OF whose
   element type is again a SEQUENCE OF (F17-3 nested_list_read_unbounded: the inner read_set_or_sequence_of runs in
   State::Root and never ends; in the model that is Panic P_UNBOUNDED).  F17-6 (ProtoRead::read_bit_vec on fewer
   than 8 bytes) is NOT a class of the Reader: after f907d9b read_bit_string checks the length first, and the
   theorem below covers BIT STRING components. *)
Definition Known_C04_proto (t : pty) : Prop := Known_proto_unbounded t.

(* every byte list, both profiles, every type that is not a bare SEQUENCE OF (a generated type is a struct or an
   enum) and is outside the class: no panic.  The model's fuels (index_enclosed: |source| + 2 rounds, read_varint:
   11 rounds) are set by the model itself and running out of them is a Panic (P_UNBOUNDED / P_OTHER), so
   "does not loop" is part of the statement. *)
Theorem C04_proto_total : forall m t bs,
  is_seqof t = false -> ~ Known_C04_proto t -> forall p, pread m t bs <> Panic p.
Proof. exact pread_total. Qed.

(* the class is decidable and closed under nesting; a witness inside it diverges in both profiles *)
Theorem C04_proto_refuted_nested_list :
  (forall t, Known_C04_proto t -> no_nested_list t = false) /\
  let t := TSeq [(false, TSeqOf (TSeqOf (TInt KU8))); (false, TInt KU8)] in
  Known_C04_proto t /\
  pread dev_mode t [8; 7; 16; 9] = Panic P_UNBOUNDED /\ pread release_mode t [8; 7; 16; 9] = Panic P_UNBOUNDED.
Proof.
  split; [exact known_unbounded_not|]. split.
  - apply (KP_in_seq _ false (TSeqOf (TSeqOf (TInt KU8)))); [left; reflexivity|constructor].
  - vm_compute. split; reflexivity.
Qed.

(* no over-read.  [pread] returns only the value, so the statement is about the underlying reader [rd] and its
   state: (1) every byte range the reader holds after a successful step lies inside the source (s <= e <= |src|);
   (2) [slice] (the model of &source[range]) succeeds only inside the source and returns exactly those bytes;
   (3) every entry index_enclosed tabulates lies inside the window it was asked to index (checked_end);
   (4) the primitive readers return a suffix of their input, having consumed between 1 and 11 bytes *)
Theorem C04_proto_no_overread :
  (forall m t src st v st', ~ Known_C04_proto t -> st_ok src st -> (is_seqof t = true -> is_encl st = true) ->
     rd m src t st = Ok (v, st') -> st_ok src st') /\
  (forall src s e sl, slice src (s, e) = Ok sl ->
     s <= e /\ e <= nlen src /\ sl = firstn (N.to_nat (e - s)) (skipn (N.to_nat s) src)) /\
  (forall src r tc tags, rng_ok src r -> index_enclosed src r = Ok (Enclosed tc tags) ->
     Forall (fun t => rng_in r (ent_rng t)) tags) /\
  (forall bs v rest, read_varint bs = Ok (v, rest) -> exists pre, bs = pre ++ rest /\ (1 <= length pre <= 11)%nat) /\
  (forall bs tag f rest, read_tag bs = Ok (tag, f, rest) -> exists pre, bs = pre ++ rest /\ (1 <= length pre <= 11)%nat).
Proof.
  split; [exact reader_ranges_ok|]. split; [exact slice_inv|]. split; [exact index_enclosed_window|]. split.
  - intros bs v rest E. pose proof (read_varint_spec bs) as H. rewrite E in H. exact H.
  - intros bs tag f rest E. pose proof (read_tag_spec bs) as H. rewrite E in H. exact H.
Qed.

(* the raw primitives (ops 4010..4018) on every input, both profiles: none panics except read_bit_vec, which panics
   exactly on inputs shorter than 8 bytes (F17-6; witness C04_proto_refuted_bit_vec_short in Props/C17.v:
   read_bit_vec dev_mode [1; 2; 3] = Panic P_ARITH) *)
Theorem C04_proto_primitives_total : forall m bs,
  (forall p, read_varint bs <> Panic p) /\ (forall p, read_tag bs <> Panic p) /\
  (forall p, read_sint32 bs <> Panic p) /\ (forall p, read_sint64 bs <> Panic p) /\
  (forall p, read_string bs <> Panic p) /\ (forall p, read_uint32 bs <> Panic p) /\
  (forall p, read_bool bs <> Panic p) /\ (forall p, read_sfixed32 bs <> Panic p) /\
  (forall p, read_uint64 bs <> Panic p) /\ (forall p, read_enum_variant bs <> Panic p) /\
  (forall p, read_bytes bs <> Panic p) /\
  ((8 <= length bs)%nat -> forall p, read_bit_vec m bs <> Panic p) /\
  ((length bs < 8)%nat -> exists p, read_bit_vec m bs = Panic p).
Proof. exact primitives_total. Qed.

(* non-vacuity: a message in a list in a message, with a CHOICE, an OPTIONAL and a BIT STRING, on garbage *)
Definition t_c04_proto : pty :=
  TSeq [(false, TSeqOf (TSeq [(false, TChoice [TInt KU8; TStr]); (true, TInt KI16)])); (false, TBool); (true, TBits)].
Example C04_proto_nonvacuous :
  is_seqof t_c04_proto = false /\ ~ Known_C04_proto t_c04_proto /\
  pread dev_mode t_c04_proto [10; 5; 1] = Err E_IO /\ pread release_mode t_c04_proto [10; 5; 1] = Err E_IO /\
  pread dev_mode t_c04_proto [10; 6; 10; 4; 18; 2; 255; 254; 16; 1] = Err E_UTF8 /\
  pread release_mode t_c04_proto [10; 6; 10; 4; 18; 2; 255; 254; 16; 1] = Err E_UTF8 /\
  pread dev_mode t_c04_proto [26; 3; 1; 2; 3] = Err E_IO /\ pread release_mode t_c04_proto [26; 3; 1; 2; 3] = Err E_IO /\
  pread dev_mode t_c04_proto [255; 255; 255; 255; 255; 255; 255; 255; 255; 255; 255; 7] = Err E_INVALID_FORMAT /\
  pread dev_mode t_c04_proto [10; 255; 255; 255; 255; 255; 255; 255; 255; 255; 1] = Err E_IO /\
  pread dev_mode t_c04_proto [10; 4; 10; 2; 8; 7; 16; 1]
  = Ok (VSeq [VList [VSeq [VChoice 0 (VInt 7); VOpt None]]; VBool true; VOpt None]).
Proof.
  split; [reflexivity|]. split.
  - intros K. apply known_unbounded_not in K. vm_compute in K. discriminate K.
  - vm_compute. repeat split; reflexivity.
Qed.
End ProtoC04.
Export ProtoC04.

(** non-vacuity: an extensible SEQUENCE with two known additions read from an encoding with three *)
Example C04_nonvacuous :
  wf_ty ex4_ty /\ ~ Known_C04 ex4_ty /\
  (forall m, exists r',
     read_ty m ex4_ty (r_of_src (src_of_bytes ex4_bytes 77)) =
       Ok (VSeq [Some (VBool true); Some (VInt 5); Some (VOctets [170]); Some (VList [VChoice 0 (VBool true)])], r')
     /\ s_pos (r_src r') = 77) /\
  (forall m, read_ty m ex4_ty (r_of_src (src_of_bytes ex4_bytes 76)) = Err E_END_OF_STREAM).
Proof. exact nonvacuous_c04. Qed.

Print Assumptions C04_bit_copy_no_panic.
Print Assumptions C04_per_readers_no_panic.
Print Assumptions C04_octetstring_reader_no_panic.
Print Assumptions C04_refuted_untrusted_length_alloc.
Print Assumptions C04_read_bit_within_len.
Print Assumptions C04_read_bits_within_len.
Print Assumptions C04_der_total.
Print Assumptions C04_uper_total.
Print Assumptions C04_uper_total_bytes.
Print Assumptions C04_src_of_bytes_inv.
Print Assumptions C04_remaining_callable.
Print Assumptions C04_remaining_in_invariant.
Print Assumptions C04_pos_le_len_preserved.
Print Assumptions C04_entry_total.
Print Assumptions C04_refuted_size_octets.
Print Assumptions C04_refuted_size_string.
Print Assumptions C04_refuted_size_bitstring.
Print Assumptions C04_refuted_size_sequence_of.
Print Assumptions C04_refuted_size_large_upper.
Print Assumptions C04_refuted_bitstring_unconstrained.
Print Assumptions C04_refuted_bitstring_extensible.
Print Assumptions C04_ext_count_overflow_is_error.
Print Assumptions C04_proto_total.
Print Assumptions C04_proto_refuted_nested_list.
Print Assumptions C04_proto_no_overread.
Print Assumptions C04_proto_primitives_total.
Print Assumptions C04_nonvacuous.
