(* C05 — extension additions are forward/backward compatible.  Statements pinned here:
   - step level (suffix _partial): the reader's handling of the transmitted presence range;
   - end to end (C05_forward, C05_backward, C05_sentinel_forward, C05_sentinel_backward): schema pairs [extends V1 V2]
     (appended OPTIONAL/DEFAULT extension additions of an extensible SEQUENCE/SET, appended extension
     alternatives of an extensible CHOICE, appended items of an extensible ENUMERATED, at top level),
     every value outside the excluded classes of C01 ([Known_C01]: open types of 16K octets or more etc.),
     both cargo profiles ([forall m]), any reader source positioned at the message followed by an
     arbitrary tail ([rsrc s bs tail]); the reader's final state [src_adv s (bl bs) tail] is "exactly at the
     end of the message".  Proofs in Uper/CompatFullProofs.v over the executable model Uper/Writer.v,
     Uper/Reader.v and the reference encoder [enc] of Uper/Spec.v ([enc] is what the writer produces:
     C01_writer_is_reference). *)
From A1 Require Import Uper.Reader Uper.CompatProofs.
From A1 Require Import Uper.Spec Uper.Proofs Uper.CompatFullProofs.
Local Open Scope N_scope.

(* forward (old data, new reader): an addition beyond the transmitted presence bits is absent *)
Theorem C05_beyond_transmitted_is_absent_partial : forall r a b is_opt,
  b <= a -> read_from_field_simple r (AllBitField a b) is_opt = Ok (f_ok (Some false), r).
Proof. exact beyond_transmitted_is_absent. Qed.

(* no extension bit: every addition is absent, whatever the local addition count *)
Theorem C05_no_extension_is_absent_partial : forall r is_opt,
  read_from_field_simple r ExtSeqEmpty is_opt = Ok (f_ok (Some false), r).
Proof. reflexivity. Qed.

(* backward (new data, old reader): with no unknown addition left the skip is the identity *)
Theorem C05_skip_nothing_partial : forall m r b,
  r_scope r = Some (AllBitField b b) -> skip_unknown_extension_additions m r = Ok r.
Proof. exact skip_nothing. Qed.

(* an absent unknown addition costs nothing: the walk moves to the next presence bit *)
Theorem C05_skip_absent_step_partial : forall f m r p stop,
  p < stop -> r_bit_at (r_src r) p = Ok false ->
  skip_unknown_loop (S f) m r p stop = skip_unknown_loop f m r (p + 1) stop.
Proof. exact skip_absent_step. Qed.

(* a present unknown addition is skipped by exactly its open-type length *)
Theorem C05_skip_present_step_partial : forall f m r p stop len r1,
  p < stop -> r_bit_at (r_src r) p = Ok true ->
  r_get r (r_length_determinant m None None) = Ok (len, r1) ->
  len * 8 < two64 -> s_pos (r_src r1) + len * 8 < two64 ->
  s_pos (r_src r1) + len * 8 <= s_len (r_src r1) ->
  skip_unknown_loop (S f) m r p stop =
    skip_unknown_loop f m (r_set_src r1 (src_set_pos (r_src r1) (s_pos (r_src r1) + len * 8))) (p + 1) stop.
Proof. exact skip_present_step. Qed.

Example C05_nonvacuous :
  (* V2 = SEQUENCE { a BOOLEAN, ..., b BOOLEAN OPTIONAL, c OCTET STRING OPTIONAL } written, V1 = without c read *)
  let v2 := TSeq [(FReq, TBool); (FOpt, TBool); (FOpt, TOctets None None false)] 0 3 (Some 0) in
  let v1 := TSeq [(FReq, TBool); (FOpt, TBool)] 0 2 (Some 0) in
  let sentinel := TInt U8 (Some 0%Z) (Some 255%Z) false in
  match write_ty dev_mode v2 (VSeq [Some (VBool true); Some (VBool false); Some (VOctets [1; 2; 3])]) w_empty with
  | Ok w =>
      match write_ty dev_mode sentinel (VInt 165) w with
      | Ok w' =>
          let b := w_bits w' in
          match read_ty dev_mode v1 (r_of_src (src_of_bytes (bytes_of_bits b) (N.of_nat (length b)))) with
          | Ok (v, r) => v = VSeq [Some (VBool true); Some (VBool false)] /\
                         exists r', read_ty dev_mode sentinel r = Ok (VInt 165, r')
          | _ => False
          end
      | _ => False
      end
  | _ => False
  end.
Proof. vm_compute. split; [reflexivity|eexists; reflexivity]. Qed.

(** * end to end *)
(* forward (old data, new reader): every V1 encoding decodes under V2 to the same components with the
   new additions absent (DEFAULT additions take their default), the reader ending exactly at the end *)
Theorem C05_forward : forall m V1 V2 v bs s tail,
  extends V1 V2 -> wf_val V1 v -> ~ Known_C01 m V1 v -> enc m V1 v = Ok bs -> rsrc s bs tail ->
  read_ty m V2 (r_of_src s) = Ok (pad_absent V1 V2 v, r_of_src (src_adv s (bl bs) tail)).
Proof. exact C05_forward_thm. Qed.

(* backward (new data, old reader): every V2 encoding decodes under V1 to the components V1 knows,
   unknown additions skipped; an alternative / item V1 does not know is reported as InvalidChoiceIndex,
   never as a value *)
Theorem C05_backward : forall m V1 V2 v bs s tail,
  extends V1 V2 -> wf_val V2 v -> ~ Known_C01 m V2 v -> enc m V2 v = Ok bs -> rsrc s bs tail ->
  (known_index V1 v ->
     read_ty m V1 (r_of_src s) = Ok (project_root V1 V2 v, r_of_src (src_adv s (bl bs) tail))) /\
  (~ known_index V1 v -> read_ty m V1 (r_of_src s) = Err E_INVALID_CHOICE).
Proof. exact C05_backward_thm. Qed.

(* the SEQUENCE/SET case in its general form: writer components fsC ++ wx, reader components fsC ++ rx,
   one of wx / rx empty *)
Theorem C05_sequence_compat : forall m fsC wx rx so fcW fcR e vals bs s tail,
  wf_ty (TSeq (fsC ++ wx) so fcW (Some e)) -> wf_ty (TSeq (fsC ++ rx) so fcR (Some e)) ->
  (S (N.to_nat e) <= length fsC)%nat ->
  Forall optk rx -> Forall optk wx -> (rx = [] \/ wx = []) ->
  wf_val (TSeq (fsC ++ wx) so fcW (Some e)) (VSeq vals) ->
  ~ Known_C01 m (TSeq (fsC ++ wx) so fcW (Some e)) (VSeq vals) ->
  enc m (TSeq (fsC ++ wx) so fcW (Some e)) (VSeq vals) = Ok bs -> rsrc s bs tail ->
  read_ty m (TSeq (fsC ++ rx) so fcR (Some e)) (r_of_src s) =
  Ok (VSeq (firstn (length fsC) vals ++ pad_of rx), r_of_src (src_adv s (bl bs) tail)).
Proof. exact seq_compat. Qed.

(* data following the message decodes correctly, in both directions *)
Theorem C05_sentinel_forward : forall m V1 V2 v bs T x bs' s tail,
  extends V1 V2 -> wf_val V1 v -> ~ Known_C01 m V1 v -> enc m V1 v = Ok bs ->
  wf_ty T -> wf_val T x -> ~ Known_C01 m T x -> enc m T x = Ok bs' ->
  rsrc s (bs ++ bs') tail ->
  exists r1, read_ty m V2 (r_of_src s) = Ok (pad_absent V1 V2 v, r1) /\
             read_ty m T r1 = Ok (x, r_of_src (src_adv s (bl (bs ++ bs')) tail)).
Proof. exact C05_sentinel_forward_thm. Qed.

Theorem C05_sentinel_backward : forall m V1 V2 v bs T x bs' s tail,
  extends V1 V2 -> wf_val V2 v -> ~ Known_C01 m V2 v -> enc m V2 v = Ok bs -> known_index V1 v ->
  wf_ty T -> wf_val T x -> ~ Known_C01 m T x -> enc m T x = Ok bs' ->
  rsrc s (bs ++ bs') tail ->
  exists r1, read_ty m V1 (r_of_src s) = Ok (project_root V1 V2 v, r1) /\
             read_ty m T r1 = Ok (x, r_of_src (src_adv s (bl (bs ++ bs')) tail)).
Proof. exact C05_sentinel_backward_thm. Qed.

(* V1 = SEQUENCE { a BOOLEAN, b INTEGER(0..255) OPTIONAL, ..., c BOOLEAN OPTIONAL } (one addition),
   V2 = V1 + { d OCTET STRING OPTIONAL, e INTEGER(0..255) DEFAULT 7 } (three additions); d carries 130
   octets (open type of 132 octets: two-octet length); both directions with a sentinel octet after the
   message; the hypotheses of C05_forward / C05_backward hold for the pair and the two values *)
Example C05_full_nonvacuous :
  extends ex5_V1 ex5_V2 /\
  (wf_val ex5_V1 ex5_v1 /\ ~ Known_C01 dev_mode ex5_V1 ex5_v1) /\
  (wf_val ex5_V2 ex5_v2 /\ ~ Known_C01 dev_mode ex5_V2 ex5_v2) /\
  compat_run dev_mode ex5_V1 ex5_V2 ex5_v1 ex5_sentinel (VInt 165)
    = Some (pad_absent ex5_V1 ex5_V2 ex5_v1, VInt 165, true) /\
  pad_absent ex5_V1 ex5_V2 ex5_v1
    = VSeq [Some (VBool true); Some (VInt 9); Some (VBool false); None; Some (VInt 7)] /\
  compat_run dev_mode ex5_V2 ex5_V1 ex5_v2 ex5_sentinel (VInt 165)
    = Some (project_root ex5_V1 ex5_V2 ex5_v2, VInt 165, true) /\
  compat_run release_mode ex5_V2 ex5_V1 ex5_v2 ex5_sentinel (VInt 165)
    = Some (project_root ex5_V1 ex5_V2 ex5_v2, VInt 165, true) /\
  project_root ex5_V1 ex5_V2 ex5_v2 = VSeq [Some (VBool true); None; Some (VBool true)] /\
  match enc dev_mode (TOctets None None false) (VOctets (repeat 171 130)) with
  | Ok b => (bl b + 7) / 8 = 132
  | _ => False
  end.
Proof. exact nonvacuous_c05. Qed.

Print Assumptions C05_beyond_transmitted_is_absent_partial.
Print Assumptions C05_no_extension_is_absent_partial.
Print Assumptions C05_skip_nothing_partial.
Print Assumptions C05_skip_absent_step_partial.
Print Assumptions C05_skip_present_step_partial.
Print Assumptions C05_forward.
Print Assumptions C05_backward.
Print Assumptions C05_sequence_compat.
Print Assumptions C05_sentinel_forward.
Print Assumptions C05_sentinel_backward.
Print Assumptions C05_full_nonvacuous.
