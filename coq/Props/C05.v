(* C05 — extension additions are forward/backward compatible.  Statements pinned here:
   - step level (suffix _partial): the reader's handling of the transmitted presence range;
   - end to end (C05_forward, C05_backward, C05_sentinel_forward, C05_sentinel_backward): schema pairs [extends V1 V2]
     (appended OPTIONAL/DEFAULT extension additions of an extensible SEQUENCE/SET, appended extension
     alternatives of an extensible CHOICE, appended items of an extensible ENUMERATED, at top level),
     every value outside the excluded classes of C01 ([Known_C01]: open types of 16K octets or more etc.),
     both cargo profiles ([forall m]), any reader source positioned at the message followed by an
     arbitrary tail ([rsrc s bs tail]); the reader's final state [src_adv s (bl bs) tail] is "exactly at the
     end of the message".  Proofs in Uper/CompatFullProofs.v over the executable model Uper/Writer.v,
     Uper/Reader.v and the reference encoder [enc] of Uper/Spec.v ([enc] is what the writer produces:
     C01_writer_is_reference).
   - at any depth (C05_forward_deep, C05_backward_deep, C05_sentinel_forward_deep, C05_sentinel_backward_deep):
     schema pairs [extends_deep V1 V2] (Uper/CompatNestedProofs.v): reflexivity, the top-level steps above
     (C05_extends_is_deep), and congruence -- a SEQUENCE/SET whose component types evolve pointwise (root
     components and extension additions, i.e. inside open types) and which may gain additions at the same
     node, a SEQUENCE OF whose element type evolves, a CHOICE whose alternatives evolve pointwise and which
     may gain extension alternatives at the same node, an ENUMERATED that gains items; any nesting depth,
     several nested types evolving at once; transitive (C05_extends_deep_trans).  Forward: the V2 reader
     returns [pad_deep V1 V2 v] (additions absent / default at every nested position).  Backward: the V1 reader
     returns [forget_deep V1 V2 v] (unknown additions dropped at every nested position); when that is
     undefined the reader fails with InvalidChoiceIndex, and it is undefined only if the value, read
     positionally against V1, contains a CHOICE alternative / ENUMERATED item V1 does not have
     ([has_unknown V1 v]) -- an error, never a wrong value.  In both directions the reader ends exactly at
     the end of the message.  Hypotheses beyond the property text: the descriptor constants of both versions
     are consistent ([wf_ty], part of [extends] at top level), the C01 exclusion classes ([Known_C01]), and,
     inside the relation, a DEFAULT component keeps its type (its default value is part of the component
     kind and would have to change with the type; not covered).  Nothing is left _partial for nesting. *)
From A1 Require Import Uper.Reader Uper.CompatProofs.
From A1 Require Import Uper.Spec Uper.Proofs Uper.CompatFullProofs Uper.CompatNestedProofs.
Local Open Scope N_scope.

(* forward (old data, new reader): an addition beyond the transmitted presence bits is absent *)
Theorem C05_beyond_transmitted_is_absent_partial : forall r a b is_opt,
  b <= a -> read_from_field_simple r (AllBitField a b) is_opt = Ok (f_ok (Some false), r).
Proof. exact beyond_transmitted_is_absent. Qed.

(* no extension bit: every addition is absent, whatever the local addition count *)
Theorem C05_no_extension_is_absent_partial : forall r is_opt,
  read_from_field_simple r ExtSeqEmpty is_opt = Ok (f_ok (Some false), r).
Proof. reflexivity. Qed.

(* backward (new data, old reader): with no unknown addition left the skip is the identity *)
Theorem C05_skip_nothing_partial : forall m r b,
  r_scope r = Some (AllBitField b b) -> skip_unknown_extension_additions m r = Ok r.
Proof. exact skip_nothing. Qed.

(* an absent unknown addition costs nothing: the walk moves to the next presence bit *)
Theorem C05_skip_absent_step_partial : forall f m r p stop,
  p < stop -> r_bit_at (r_src r) p = Ok false ->
  skip_unknown_loop (S f) m r p stop = skip_unknown_loop f m r (p + 1) stop.
Proof. exact skip_absent_step. Qed.

(* a present unknown addition is skipped by exactly its open-type length *)
Theorem C05_skip_present_step_partial : forall f m r p stop len r1,
  p < stop -> r_bit_at (r_src r) p = Ok true ->
  r_get r (r_length_determinant m None None) = Ok (len, r1) ->
  len * 8 < two64 -> s_pos (r_src r1) + len * 8 < two64 ->
  s_pos (r_src r1) + len * 8 <= s_len (r_src r1) ->
  skip_unknown_loop (S f) m r p stop =
    skip_unknown_loop f m (r_set_src r1 (src_set_pos (r_src r1) (s_pos (r_src r1) + len * 8))) (p + 1) stop.
Proof. exact skip_present_step. Qed.

Example C05_nonvacuous :
  (* V2 = SEQUENCE { a BOOLEAN, ..., b BOOLEAN OPTIONAL, c OCTET STRING OPTIONAL } written, V1 = without c read *)
  let v2 := TSeq [(FReq, TBool); (FOpt, TBool); (FOpt, TOctets None None false)] 0 3 (Some 0) in
  let v1 := TSeq [(FReq, TBool); (FOpt, TBool)] 0 2 (Some 0) in
  let sentinel := TInt U8 (Some 0%Z) (Some 255%Z) false in
  match write_ty dev_mode v2 (VSeq [Some (VBool true); Some (VBool false); Some (VOctets [1; 2; 3])]) w_empty with
  | Ok w =>
      match write_ty dev_mode sentinel (VInt 165) w with
      | Ok w' =>
          let b := w_bits w' in
          match read_ty dev_mode v1 (r_of_src (src_of_bytes (bytes_of_bits b) (N.of_nat (length b)))) with
          | Ok (v, r) => v = VSeq [Some (VBool true); Some (VBool false)] /\
                         exists r', read_ty dev_mode sentinel r = Ok (VInt 165, r')
          | _ => False
          end
      | _ => False
      end
  | _ => False
  end.
Proof. vm_compute. split; [reflexivity|eexists; reflexivity]. Qed.

(** * end to end *)
(* forward (old data, new reader): every V1 encoding decodes under V2 to the same components with the
   new additions absent (DEFAULT additions take their default), the reader ending exactly at the end *)
Theorem C05_forward : forall m V1 V2 v bs s tail,
  extends V1 V2 -> wf_val V1 v -> ~ Known_C01 m V1 v -> enc m V1 v = Ok bs -> rsrc s bs tail ->
  read_ty m V2 (r_of_src s) = Ok (pad_absent V1 V2 v, r_of_src (src_adv s (bl bs) tail)).
Proof. exact C05_forward_thm. Qed.

(* backward (new data, old reader): every V2 encoding decodes under V1 to the components V1 knows,
   unknown additions skipped; an alternative / item V1 does not know is reported as InvalidChoiceIndex,
   never as a value *)
Theorem C05_backward : forall m V1 V2 v bs s tail,
  extends V1 V2 -> wf_val V2 v -> ~ Known_C01 m V2 v -> enc m V2 v = Ok bs -> rsrc s bs tail ->
  (known_index V1 v ->
     read_ty m V1 (r_of_src s) = Ok (project_root V1 V2 v, r_of_src (src_adv s (bl bs) tail))) /\
  (~ known_index V1 v -> read_ty m V1 (r_of_src s) = Err E_INVALID_CHOICE).
Proof. exact C05_backward_thm. Qed.

(* the SEQUENCE/SET case in its general form: writer components fsC ++ wx, reader components fsC ++ rx,
   one of wx / rx empty *)
Theorem C05_sequence_compat : forall m fsC wx rx so fcW fcR e vals bs s tail,
  wf_ty (TSeq (fsC ++ wx) so fcW (Some e)) -> wf_ty (TSeq (fsC ++ rx) so fcR (Some e)) ->
  (S (N.to_nat e) <= length fsC)%nat ->
  Forall optk rx -> Forall optk wx -> (rx = [] \/ wx = []) ->
  wf_val (TSeq (fsC ++ wx) so fcW (Some e)) (VSeq vals) ->
  ~ Known_C01 m (TSeq (fsC ++ wx) so fcW (Some e)) (VSeq vals) ->
  enc m (TSeq (fsC ++ wx) so fcW (Some e)) (VSeq vals) = Ok bs -> rsrc s bs tail ->
  read_ty m (TSeq (fsC ++ rx) so fcR (Some e)) (r_of_src s) =
  Ok (VSeq (firstn (length fsC) vals ++ pad_of rx), r_of_src (src_adv s (bl bs) tail)).
Proof. exact seq_compat. Qed.

(* data following the message decodes correctly, in both directions *)
Theorem C05_sentinel_forward : forall m V1 V2 v bs T x bs' s tail,
  extends V1 V2 -> wf_val V1 v -> ~ Known_C01 m V1 v -> enc m V1 v = Ok bs ->
  wf_ty T -> wf_val T x -> ~ Known_C01 m T x -> enc m T x = Ok bs' ->
  rsrc s (bs ++ bs') tail ->
  exists r1, read_ty m V2 (r_of_src s) = Ok (pad_absent V1 V2 v, r1) /\
             read_ty m T r1 = Ok (x, r_of_src (src_adv s (bl (bs ++ bs')) tail)).
Proof. exact C05_sentinel_forward_thm. Qed.

Theorem C05_sentinel_backward : forall m V1 V2 v bs T x bs' s tail,
  extends V1 V2 -> wf_val V2 v -> ~ Known_C01 m V2 v -> enc m V2 v = Ok bs -> known_index V1 v ->
  wf_ty T -> wf_val T x -> ~ Known_C01 m T x -> enc m T x = Ok bs' ->
  rsrc s (bs ++ bs') tail ->
  exists r1, read_ty m V1 (r_of_src s) = Ok (project_root V1 V2 v, r1) /\
             read_ty m T r1 = Ok (x, r_of_src (src_adv s (bl (bs ++ bs')) tail)).
Proof. exact C05_sentinel_backward_thm. Qed.

(* V1 = SEQUENCE { a BOOLEAN, b INTEGER(0..255) OPTIONAL, ..., c BOOLEAN OPTIONAL } (one addition),
   V2 = V1 + { d OCTET STRING OPTIONAL, e INTEGER(0..255) DEFAULT 7 } (three additions); d carries 130
   octets (open type of 132 octets: two-octet length); both directions with a sentinel octet after the
   message; the hypotheses of C05_forward / C05_backward hold for the pair and the two values *)
Example C05_full_nonvacuous :
  extends ex5_V1 ex5_V2 /\
  (wf_val ex5_V1 ex5_v1 /\ ~ Known_C01 dev_mode ex5_V1 ex5_v1) /\
  (wf_val ex5_V2 ex5_v2 /\ ~ Known_C01 dev_mode ex5_V2 ex5_v2) /\
  compat_run dev_mode ex5_V1 ex5_V2 ex5_v1 ex5_sentinel (VInt 165)
    = Some (pad_absent ex5_V1 ex5_V2 ex5_v1, VInt 165, true) /\
  pad_absent ex5_V1 ex5_V2 ex5_v1
    = VSeq [Some (VBool true); Some (VInt 9); Some (VBool false); None; Some (VInt 7)] /\
  compat_run dev_mode ex5_V2 ex5_V1 ex5_v2 ex5_sentinel (VInt 165)
    = Some (project_root ex5_V1 ex5_V2 ex5_v2, VInt 165, true) /\
  compat_run release_mode ex5_V2 ex5_V1 ex5_v2 ex5_sentinel (VInt 165)
    = Some (project_root ex5_V1 ex5_V2 ex5_v2, VInt 165, true) /\
  project_root ex5_V1 ex5_V2 ex5_v2 = VSeq [Some (VBool true); None; Some (VBool true)] /\
  match enc dev_mode (TOctets None None false) (VOctets (repeat 171 130)) with
  | Ok b => (bl b + 7) / 8 = 132
  | _ => False
  end.
Proof. exact nonvacuous_c05. Qed.

(** * at any depth *)
(* the top-level pairs are instances of the deep relation *)
Theorem C05_extends_is_deep : forall V1 V2, extends V1 V2 -> extends_deep V1 V2 /\ wf_ty V1 /\ wf_ty V2.
Proof. exact extends_is_deep. Qed.

Theorem C05_extends_deep_trans : forall A B C, extends_deep A B -> extends_deep B C -> extends_deep A C.
Proof. exact extends_deep_trans. Qed.

(* forward (old data, new reader), the evolving types anywhere inside: root content unchanged, the new
   additions absent at every nested position, the reader ending exactly at the end *)
Theorem C05_forward_deep : forall m V1 V2 v bs s tail,
  extends_deep V1 V2 -> wf_ty V1 -> wf_ty V2 -> wf_val V1 v -> ~ Known_C01 m V1 v ->
  enc m V1 v = Ok bs -> rsrc s bs tail ->
  read_ty m V2 (r_of_src s) = Ok (pad_deep V1 V2 v, r_of_src (src_adv s (bl bs) tail)).
Proof. exact C05_forward_deep_thm. Qed.

(* backward (new data, old reader): unknown additions skipped at every nested position (inside an open
   type the outer reader repositions to the end of the window); an alternative / item V1 does not have,
   anywhere in an encoded position, is reported as InvalidChoiceIndex -- never a value -- and that is the
   only way the old reader fails *)
Theorem C05_backward_deep : forall m V1 V2 v bs s tail,
  extends_deep V1 V2 -> wf_ty V1 -> wf_ty V2 -> wf_val V2 v -> ~ Known_C01 m V2 v ->
  enc m V2 v = Ok bs -> rsrc s bs tail ->
  (forall v', forget_deep V1 V2 v = Some v' ->
     read_ty m V1 (r_of_src s) = Ok (v', r_of_src (src_adv s (bl bs) tail))) /\
  (forget_deep V1 V2 v = None ->
     read_ty m V1 (r_of_src s) = Err E_INVALID_CHOICE /\ has_unknown V1 v) /\
  (~ has_unknown V1 v -> exists v', forget_deep V1 V2 v = Some v').
Proof. exact C05_backward_deep_thm. Qed.

Theorem C05_sentinel_forward_deep : forall m V1 V2 v bs T x bs' s tail,
  extends_deep V1 V2 -> wf_ty V1 -> wf_ty V2 -> wf_val V1 v -> ~ Known_C01 m V1 v -> enc m V1 v = Ok bs ->
  wf_ty T -> wf_val T x -> ~ Known_C01 m T x -> enc m T x = Ok bs' ->
  rsrc s (bs ++ bs') tail ->
  exists r1, read_ty m V2 (r_of_src s) = Ok (pad_deep V1 V2 v, r1) /\
             read_ty m T r1 = Ok (x, r_of_src (src_adv s (bl (bs ++ bs')) tail)).
Proof. exact C05_sentinel_forward_deep_thm. Qed.

Theorem C05_sentinel_backward_deep : forall m V1 V2 v v' bs T x bs' s tail,
  extends_deep V1 V2 -> wf_ty V1 -> wf_ty V2 -> wf_val V2 v -> ~ Known_C01 m V2 v -> enc m V2 v = Ok bs ->
  forget_deep V1 V2 v = Some v' ->
  wf_ty T -> wf_val T x -> ~ Known_C01 m T x -> enc m T x = Ok bs' ->
  rsrc s (bs ++ bs') tail ->
  exists r1, read_ty m V1 (r_of_src s) = Ok (v', r1) /\
             read_ty m T r1 = Ok (x, r_of_src (src_adv s (bl (bs ++ bs')) tail)).
Proof. exact C05_sentinel_backward_deep_thm. Qed.

(* Outer ::= SEQUENCE { hdr INTEGER(0..255), body SEQUENCE OF Inner, ..., tail Inner OPTIONAL } with
   Inner evolving from { a BOOLEAN, ... } to { a BOOLEAN, ..., b OCTET STRING OPTIONAL }: V2 data with b
   present inside the SEQUENCE OF and inside the open type of tail, read under V1 and followed by a
   sentinel octet (both profiles); V1 data under V2; and an ENUMERATED that gained an item inside a
   SEQUENCE inside a SEQUENCE OF: the new item makes the old reader fail with InvalidChoiceIndex.  The
   hypotheses of C05_forward_deep / C05_backward_deep hold for the pairs and the values *)
Example C05_nested_nonvacuous :
  extends_deep exn_V1 exn_V2 /\ wf_ty exn_V1 /\ wf_ty exn_V2 /\
  (wf_val exn_V2 exn_v2 /\ ~ Known_C01 dev_mode exn_V2 exn_v2) /\
  (wf_val exn_V1 exn_v1 /\ ~ Known_C01 dev_mode exn_V1 exn_v1) /\
  forget_deep exn_V1 exn_V2 exn_v2 = Some exn_v2_seen_by_V1 /\
  compat_run dev_mode exn_V2 exn_V1 exn_v2 ex5_sentinel (VInt 165) = Some (exn_v2_seen_by_V1, VInt 165, true) /\
  compat_run release_mode exn_V2 exn_V1 exn_v2 ex5_sentinel (VInt 165) = Some (exn_v2_seen_by_V1, VInt 165, true) /\
  pad_deep exn_V1 exn_V2 exn_v1 = exn_v1_seen_by_V2 /\
  compat_run dev_mode exn_V1 exn_V2 exn_v1 ex5_sentinel (VInt 165) = Some (exn_v1_seen_by_V2, VInt 165, true) /\
  extends_deep exn_E1 exn_E2 /\ wf_ty exn_E1 /\ wf_ty exn_E2 /\
  (wf_val exn_E2 exn_e_unknown /\ ~ Known_C01 dev_mode exn_E2 exn_e_unknown) /\
  forget_deep exn_E1 exn_E2 exn_e_unknown = None /\ has_unknown exn_E1 exn_e_unknown /\
  forget_deep exn_E1 exn_E2 exn_e_known = Some exn_e_known /\
  match enc dev_mode exn_E2 exn_e_unknown with
  | Ok bs => read_ty dev_mode exn_E1 (r_of_src (src_of_bits bs (bl bs))) = Err E_INVALID_CHOICE
  | _ => False
  end.
Proof. exact nonvacuous_c05_nested. Qed.

Print Assumptions C05_beyond_transmitted_is_absent_partial.
Print Assumptions C05_no_extension_is_absent_partial.
Print Assumptions C05_skip_nothing_partial.
Print Assumptions C05_skip_absent_step_partial.
Print Assumptions C05_skip_present_step_partial.
Print Assumptions C05_forward.
Print Assumptions C05_backward.
Print Assumptions C05_sequence_compat.
Print Assumptions C05_sentinel_forward.
Print Assumptions C05_sentinel_backward.
Print Assumptions C05_full_nonvacuous.
Print Assumptions C05_extends_is_deep.
Print Assumptions C05_extends_deep_trans.
Print Assumptions C05_forward_deep.
Print Assumptions C05_backward_deep.
Print Assumptions C05_sentinel_forward_deep.
Print Assumptions C05_sentinel_backward_deep.
Print Assumptions C05_nested_nonvacuous.
