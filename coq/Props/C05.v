(* C05 — extension additions are forward/backward compatible.  Statements pinned here (step level:
   the reader's handling of the transmitted presence range; the end-to-end statement over schema pairs
   is confronted by the correspondence run, see checks/C05.py). *)
From A1 Require Import Uper.Reader Uper.CompatProofs.
Local Open Scope N_scope.

(* forward (old data, new reader): an addition beyond the transmitted presence bits is absent *)
Theorem C05_beyond_transmitted_is_absent_partial : forall r a b is_opt,
  b <= a -> read_from_field_simple r (AllBitField a b) is_opt = Ok (f_ok (Some false), r).
Proof. exact beyond_transmitted_is_absent. Qed.

(* no extension bit: every addition is absent, whatever the local addition count *)
Theorem C05_no_extension_is_absent_partial : forall r is_opt,
  read_from_field_simple r ExtSeqEmpty is_opt = Ok (f_ok (Some false), r).
Proof. reflexivity. Qed.

(* backward (new data, old reader): with no unknown addition left the skip is the identity *)
Theorem C05_skip_nothing_partial : forall m r b,
  r_scope r = Some (AllBitField b b) -> skip_unknown_extension_additions m r = Ok r.
Proof. exact skip_nothing. Qed.

(* an absent unknown addition costs nothing: the walk moves to the next presence bit *)
Theorem C05_skip_absent_step_partial : forall f m r p stop,
  p < stop -> r_bit_at (r_src r) p = Ok false ->
  skip_unknown_loop (S f) m r p stop = skip_unknown_loop f m r (p + 1) stop.
Proof. exact skip_absent_step. Qed.

(* a present unknown addition is skipped by exactly its open-type length *)
Theorem C05_skip_present_step_partial : forall f m r p stop len r1,
  p < stop -> r_bit_at (r_src r) p = Ok true ->
  r_get r (r_length_determinant m None None) = Ok (len, r1) ->
  len * 8 < two64 -> s_pos (r_src r1) + len * 8 < two64 ->
  s_pos (r_src r1) + len * 8 <= s_len (r_src r1) ->
  skip_unknown_loop (S f) m r p stop =
    skip_unknown_loop f m (r_set_src r1 (src_set_pos (r_src r1) (s_pos (r_src r1) + len * 8))) (p + 1) stop.
Proof. exact skip_present_step. Qed.

Example C05_nonvacuous :
  (* V2 = SEQUENCE { a BOOLEAN, ..., b BOOLEAN OPTIONAL, c OCTET STRING OPTIONAL } written, V1 = without c read *)
  let v2 := TSeq [(FReq, TBool); (FOpt, TBool); (FOpt, TOctets None None false)] 0 3 (Some 0) in
  let v1 := TSeq [(FReq, TBool); (FOpt, TBool)] 0 2 (Some 0) in
  let sentinel := TInt U8 (Some 0%Z) (Some 255%Z) false in
  match write_ty dev_mode v2 (VSeq [Some (VBool true); Some (VBool false); Some (VOctets [1; 2; 3])]) w_empty with
  | Ok w =>
      match write_ty dev_mode sentinel (VInt 165) w with
      | Ok w' =>
          let b := w_bits w' in
          match read_ty dev_mode v1 (r_of_src (src_of_bytes (bytes_of_bits b) (N.of_nat (length b)))) with
          | Ok (v, r) => v = VSeq [Some (VBool true); Some (VBool false)] /\
                         exists r', read_ty dev_mode sentinel r = Ok (VInt 165, r')
          | _ => False
          end
      | _ => False
      end
  | _ => False
  end.
Proof. vm_compute. split; [reflexivity|eexists; reflexivity]. Qed.

Print Assumptions C05_beyond_transmitted_is_absent_partial.
Print Assumptions C05_no_extension_is_absent_partial.
Print Assumptions C05_skip_nothing_partial.
Print Assumptions C05_skip_absent_step_partial.
Print Assumptions C05_skip_present_step_partial.
