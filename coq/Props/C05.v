(* Props/C05.v -- stub, to be filled *)
