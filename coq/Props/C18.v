(* Props/C18.v -- stub, to be filled *)
