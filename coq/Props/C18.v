(* C18 -- the bytes of the protobuf writer decode under the generated .proto.
   This file only pins statements; proofs live in Proto/SchemaProofs.v (numbering, sweeps, validity) and
   Proto/DecodeProofs.v (unbounded decoding theorem).
   Finding classes: inside the type universe [Known_C18] = [Known_C17], i.e. [Known_ty] (CHOICE with a NULL
   alternative F18-2, CHOICE with a SEQUENCE OF alternative F18-4, SEQUENCE OF SEQUENCE OF F18-3, and SEQUENCE OF NULL
   F18-5 = constructor [K_list_null], witness [C18_refuted_list_of_null]) or a BitVec with excess bytes; at the
   declaration level the SET numbering class F18-1 ([Known_set_order]).
   Repaired in /repo 4788e65 and no longer classes: extensible INTEGERs (declared uint64 / sint64) used to be written
   in the 32-bit format of their root bounds ([C18_extensible_int_fixed]). *)
From A1 Require Import Proto.Wire Proto.Rw Proto.Schema Proto.Proofs Proto.SchemaProofs Proto.RwLemmas
  Proto.RoundtripProofs Proto.DecodeProofs.
Local Open Scope N_scope.

(** field / oneof numbering of the emitted schema: position j (from 0) carries number j+1 and the
    type mapped from the j-th component *)
Theorem C18_numbers_match :
  (forall fs m, schema_of (TSeq fs) = Some m ->
     length m = length fs /\
     forall j num ty, nth_error m j = Some (num, ty) ->
       num = N.of_nat j + 1 /\ exists o t, nth_error fs j = Some (o, t) /\ ty = field_type t) /\
  (forall alts m, schema_of (TChoice alts) = Some m ->
     exists al, m = [(1, POneofT al)] /\ length al = length alts /\
     forall j num ty, nth_error al j = Some (num, ty) ->
       num = N.of_nat j + 1 /\ exists t, nth_error alts j = Some t /\ ty = field_type t).
Proof. split; [exact numbers_match_seq | exact numbers_match_choice]. Qed.

(** the writer's bytes decode, under the schema and with the reference decoder, to the field values:
    bounded-exhaustively for every value of a flat SEQUENCE with an OPTIONAL, both profiles *)
Theorem C18_decodes_under_schema_partial : forall m b x oy,
  (m = dev_mode \/ m = release_mode) ->
  x < 256 -> (forall y, oy = Some y -> (-32 <= y < 32)%Z) ->
  let v := VSeq [VBool b; VInt (Z.of_N x); VOpt (option_map VInt oy)] in
  exists bs, pwrite_vec m flat_ty v = Ok bs /\
             pb_decode flat_schema bs = Some (flat_expected b x oy) /\
             pb_of_val flat_ty v = Some (flat_expected b x oy).
Proof. exact decodes_flat. Qed.

(** unbounded: for every generated message type (top-level SEQUENCE / SET in visit order / tuple struct / CHOICE, any
    nesting of messages, lists of scalars / enums / messages / CHOICEs, oneofs) outside the finding classes and every
    value, the writer's bytes decode under [schema_of t] with the reference decoder to exactly the field values
    [pb_of_val t v]: field numbers, wire types, oneof numbering, enum numbering and nesting all match.
    [Known_C18 t v] = [Known_C17 t v]: a CHOICE with a NULL or SEQUENCE OF alternative, SEQUENCE OF SEQUENCE OF,
    SEQUENCE OF NULL, or a BitVec with excess bytes; the SET numbering class lives at the declaration level ([decl],
    C18_refuted_set_order) and is outside [pty]. A top-level ENUMERATED has no message schema ([schema_of] = None). *)
Theorem C18_decodes_under_schema : forall m t v msg,
  wf_pty t -> wf_pval t v -> ~ Known_C18 t v -> schema_of t = Some msg ->
  exists bs, pwrite m t v = Ok bs /\
    (nlen bs < two64 -> exists vals, pb_decode msg bs = Some vals /\ pb_of_val t v = Some vals).
Proof. exact decodes_unbounded. Qed.

(** the emitted schema is valid proto3 for the listed representative types *)
Theorem C18_schema_valid_partial : forall t, In t good_types -> schema_valid t = true.
Proof. exact schema_valid_good. Qed.

(** ** classes in which the faithful model refutes the property *)
(* repaired in /repo b404bbf: a NULL component is declared `bytes x = n`, nothing is written for it, and
   write_null now advances the counter, so the later components keep their declared numbers *)
Definition t_nullseq := TSeq [(false, TInt KU8); (false, TNull); (false, TInt KU8)].
Example C18_null_field_fixed :
  let v := VSeq [VInt 1; VNull; VInt 2] in
  exists m, schema_of t_nullseq = Some m /\
    pwrite_vec dev_mode t_nullseq v = Ok [8; 1; 24; 2] /\
    pb_decode m [8; 1; 24; 2] = Some [BNum 1; BBytes []; BNum 2] /\
    pb_of_val t_nullseq v = Some [BNum 1; BBytes []; BNum 2].
Proof.
  exists [(1, PScalar SUInt32); (2, PScalar SBytes); (3, PScalar SUInt32)].
  vm_compute. repeat split; reflexivity.
Qed.

(* a SET with explicit tags is written in canonical tag order but declared in textual order *)
Definition Known_set_order (d : decl) : Prop :=
  exists fs, d = DSetTop fs /\ sort_by_tag fs <> fs.
Theorem C18_refuted_set_order :
  Known_set_order zoo_set /\
  let v := VSeq [VInt 7; VStr [120]] in
  pwrite_vec dev_mode (visit_ty zoo_set) v = Ok [8; 7; 18; 1; 120] /\
  pb_decode (schema_of_decl zoo_set) [8; 7; 18; 1; 120] = Some [BBytes []; BNum 0] /\
  (* what the declared message { string b = 1; uint32 a = 2; } should show *)
  pb_of_val (decl_ty zoo_set) (VSeq [VStr [120]; VInt 7]) = Some [BBytes [120]; BNum 7].
Proof.
  split; [eexists; split; [reflexivity|vm_compute; discriminate]|].
  vm_compute. repeat split; reflexivity.
Qed.

(* SEQUENCE OF SEQUENCE OF is emitted as `repeated repeated T`, a SEQUENCE OF alternative as a repeated
   oneof member: not proto3 *)
Theorem C18_refuted_nested_list_proto :
  schema_valid (TSeq [(false, TSeqOf (TSeqOf (TInt KU8))); (false, TInt KU8)]) = false.
Proof. vm_compute. reflexivity. Qed.

Theorem C18_refuted_choice_list_proto :
  schema_valid (TChoice [TSeqOf (TInt KU8); TInt KU8]) = false.
Proof. vm_compute. reflexivity. Qed.

(* a selected NULL alternative writes nothing: the oneof is unset for every reader *)
Theorem C18_refuted_choice_null :
  let t := TChoice [TNull; TInt KU8] in
  exists m, schema_of t = Some m /\
    pwrite_vec dev_mode t (VChoice 0 VNull) = Ok [] /\
    pb_decode m [] = Some [BOneof None] /\
    pb_of_val t (VChoice 0 VNull) = Some [BOneof (Some (1, BBytes []))].
Proof.
  exists [(1, POneofT [(1, PScalar SBytes); (2, PScalar SUInt32)])].
  vm_compute. repeat split; reflexivity.
Qed.

(* non-vacuity *)
Example C18_nonvacuous :
  schema_of flat_ty = Some [(1, PScalar SBool); (2, PScalar SUInt32); (3, PScalar SSInt32)] /\
  In (TSeq [(false, TBits)]) good_types /\
  pb_decode flat_schema [8; 1; 16; 200; 1; 24; 5] = Some [BNum 1; BNum 200; BNum (-3)] /\
  (* unknown fields are skipped, last one wins, packed repeated accepted *)
  pb_decode [(1, PScalar SUInt32); (2, PRepeated (PScalar SSInt32))] [8; 1; 8; 2; 18; 2; 1; 4; 16; 3; 56; 9]
  = Some [BNum 2; BRep [BNum (-1); BNum 2; BNum (-2)]].
Proof. vm_compute. repeat split; try reflexivity. do 13 right. left. reflexivity. Qed.

(* F18-5 (zoo type 21, corpus/C18/f18-5-list-of-null.txt): SEQUENCE OF NULL is declared `repeated bytes` but no
   element is ever written *)
Theorem C18_refuted_list_of_null :
  let t := TSeq [(false, TSeqOf TNull); (false, TInt KU8)] in
  let v := VSeq [VList [VNull; VNull]; VInt 7] in
  exists m, schema_of t = Some m /\ pwrite_vec dev_mode t v = Ok [16; 7] /\
    pb_decode m [16; 7] = Some [BRep []; BNum 7] /\
    pb_of_val t v = Some [BRep [BBytes []; BBytes []]; BNum 7].
Proof.
  exists [(1, PRepeated (PScalar SBytes)); (2, PScalar SUInt32)]. vm_compute. repeat split; reflexivity.
Qed.

(* repaired in /repo 4788e65: an extensible INTEGER is declared uint64 (u64) / sint64 (i64) and now written in exactly
   that format, so for every KExt kind the compiler produces ([wf_kind]: u64 iff MIN is not negative) and every value of
   its 64-bit type the varint decodes under the declared type to the value.  (It used to be written by
   write_tagged_sint32 / uint32: 2^30 in INTEGER (-2147483648..2147483647,...) decoded to 9223372035781033984.) *)
Theorem C18_extensible_int_fixed :
  (forall sg mn mx z, wf_kind (KExt sg mn mx) = true -> in_kind (KExt sg mn mx) z = true ->
     exists x, x < two64 /\ number_bytes (KExt sg mn mx) z = write_varint x /\
               num_value (scalar_of_kind (KExt sg mn mx)) x = z) /\
  let t := TSeq [(false, TInt (KExt true (Some (-2147483648)%Z) (Some 2147483647%Z)));
                 (false, TInt (KExt false (Some 0%Z) (Some 255%Z)))] in
  let v := VSeq [VInt 1073741824; VInt 4294967296] in
  wf_pty t /\ wf_pval t v /\ ~ Known_C18 t v /\
  schema_of t = Some [(1, PScalar SSInt64); (2, PScalar SUInt64)] /\
  pwrite_vec dev_mode t v = Ok [8; 128; 128; 128; 128; 8; 16; 128; 128; 128; 128; 16] /\
  pb_decode [(1, PScalar SSInt64); (2, PScalar SUInt64)] [8; 128; 128; 128; 128; 8; 16; 128; 128; 128; 128; 16]
  = Some [BNum 1073741824; BNum 4294967296] /\
  pb_of_val t v = Some [BNum 1073741824; BNum 4294967296].
Proof.
  split.
  - intros sg mn mx z Hw Hin. apply int_wire; assumption.
  - cbv zeta. split; [split; reflexivity|]. split; [reflexivity|]. split.
    + intros [K|E]; [apply known_not_good in K; vm_compute in K; discriminate K|vm_compute in E; discriminate E].
    + vm_compute. repeat split; reflexivity.
Qed.

Example C18_decodes_nonvacuous :
  let t := TSeq [(false, TBool); (true, TStr);
     (false, TSeqOf (TSeq [(false, TInt KU16); (true, TStr)]));
     (false, TChoice [TInt KI16; TSeq [(false, TInt KU16)]; TEnum 3]);
     (true, TSeqOf (TInt KU8)); (false, TBits); (false, TNull); (false, TInt KI64)] in
  let v := VSeq [VBool true; VOpt None; VList [VSeq [VInt 300; VOpt (Some (VStr [104]))]; VSeq [VInt 1; VOpt None]];
     VChoice 1 (VSeq [VInt 7]); VOpt (Some (VList [])); VBits [160] 3; VNull; VInt (-2)] in
  wf_pty t /\ wf_pval t v /\ ~ Known_C18 t v /\
  exists msg, schema_of t = Some msg /\
    pb_decode msg [8; 1; 26; 6; 8; 172; 2; 18; 1; 104; 26; 2; 8; 1; 34; 4; 18; 2; 8; 7; 50; 9; 160; 0; 0; 0; 0; 0; 0; 0; 3; 64; 3]
    = Some [BNum 1; BBytes []; BRep [BMsg (Some [BNum 300; BBytes [104]]); BMsg (Some [BNum 1; BBytes []])];
            BMsg (Some [BOneof (Some (2, BMsg (Some [BNum 7])))]); BRep []; BBytes [160; 0; 0; 0; 0; 0; 0; 0; 3];
            BBytes []; BNum (-2)].
Proof.
  cbv zeta. split; [split; reflexivity|]. split; [reflexivity|]. split.
  - intros [K|E]; [apply known_not_good in K; vm_compute in K; discriminate K|vm_compute in E; discriminate E].
  - eexists. split; [reflexivity|]. vm_compute. reflexivity.
Qed.

Print Assumptions C18_numbers_match.
Print Assumptions C18_decodes_under_schema_partial.
Print Assumptions C18_decodes_under_schema.
Print Assumptions C18_refuted_list_of_null.
Print Assumptions C18_extensible_int_fixed.
Print Assumptions C18_schema_valid_partial.
Print Assumptions C18_refuted_set_order.
Print Assumptions C18_refuted_nested_list_proto.
Print Assumptions C18_refuted_choice_list_proto.
Print Assumptions C18_refuted_choice_null.
