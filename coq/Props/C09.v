(* Props/C09.v -- pinned statements of property C09 (logic core; "rustc accepts" as a whole is tie-only, DESIGN.md 8).

   C09 is claimed PARTIAL: the theorems below cover the identifiers the generator derives from ASN.1 component /
   alternative / item / type names (legal Rust identifiers, not keywords; for variants and types outside the one
   known class `Self`).  Collision
   freedom is refuted (the tool neither renames nor rejects), constants/derives/type checking are covered by the
   rustc stage of checks/C09.py only. *)
From A1 Require Front.IntTy.
From A1 Require Import Base.Res Gen.Keywords Front.Codegen Front.CodegenProofs Front.Attr Front.Descr Front.EmitProofs Front.IdemProofs.
From Coq Require Import String.
Local Open Scope N_scope.

(* Every ASN.1 identifier (X.680 12.3) used as a component name is emitted as a legal Rust identifier that is not a
   keyword: the generator's escape list (Gen/Keywords.v, generated from generate/rust.rs) is complete for field names
   (a mangled component name starts with a lower-case letter, so it can never be `Self`). *)
Theorem C09_field_idents_legal : forall s,
  asn_identifier s = true ->
  is_rust_ident (emit_field s) = true /\ is_keyword (emit_field s) = false.
Proof. exact field_idents_legal. Qed.

(* the escape list of the crate contains every keyword of the Rust-reference table (strict + reserved, 2021 edition)
   that starts with a lower-case letter, in particular every keyword that is an ASN.1 identifier.  Proved by a finite
   check against the GENERATED list: removing an entry from KEYWORDS in generate/rust.rs breaks this proof. *)
Theorem C09_keywords_complete : forall k,
  In k RUST_KEYWORDS -> (exists c t, k = c :: t /\ is_lower c = true) -> mem_str k KEYWORDS = true.
Proof. exact keywords_complete. Qed.

Theorem C09_keywords_complete_identifier : forall k,
  In k RUST_KEYWORDS -> asn_identifier k = true -> mem_str k KEYWORDS = true.
Proof. exact keywords_complete_identifier. Qed.

(* how many keywords that covers, and that every one of them is emitted escaped *)
Definition identifier_keywords : list (list N) := filter asn_identifier RUST_KEYWORDS.
Theorem C09_keywords_escaped :
  List.length identifier_keywords = 50%nat /\
  forallb (fun k => str_eqb (emit_field k) (k ++ [USCORE])) identifier_keywords = true.
Proof. split; vm_compute; reflexivity. Qed.

(* alternative / ENUMERATED item names (identifiers) and type names (typereferences) become variants / type names *)
Theorem C09_variant_idents_legal : forall s,
  (asn_identifier s = true \/ asn_typereference s = true) -> ~ Known_C09_variant s ->
  is_rust_ident (emit_variant s) = true /\ is_keyword (emit_variant s) = false.
Proof. exact variant_idents_legal. Qed.

Theorem C09_type_idents_legal : forall s,
  asn_typereference s = true -> ~ Known_C09_variant s ->
  is_rust_ident (emit_type s) = true /\ is_keyword (emit_type s) = false.
Proof. exact type_idents_legal. Qed.

(* the known class of the two theorems above: the item/alternative `self` and the type `Self` become the keyword `Self` *)
Theorem C09_refuted_variant_Self : exists s,
  asn_identifier s = true /\ Known_C09_variant s /\ is_keyword (emit_variant s) = true.
Proof. exists (codes "self"). vm_compute. repeat split; reflexivity. Qed.

(* distinct ASN.1 names are mangled to one Rust name: components foo-bar / fooBar, types Foo-Bar / FooBar, items likewise *)
Theorem C09_mangle_collision_refuted :
  (exists a b, a <> b /\ asn_identifier a = true /\ asn_identifier b = true /\ emit_field a = emit_field b) /\
  (exists a b, a <> b /\ asn_identifier a = true /\ asn_identifier b = true /\ emit_variant a = emit_variant b) /\
  (exists a b, a <> b /\ asn_typereference a = true /\ asn_typereference b = true /\ emit_type a = emit_type b).
Proof.
  split; [|split].
  - exists (codes "foo-bar"), (codes "fooBar"). split; [discriminate|]. vm_compute. repeat split; reflexivity.
  - exists (codes "foo-bar"), (codes "fooBar"). split; [discriminate|]. vm_compute. repeat split; reflexivity.
  - exists (codes "Foo-Bar"), (codes "FooBar"). split; [discriminate|]. vm_compute. repeat split; reflexivity.
Qed.

(* non-vacuity: the hypotheses of the legality theorems are inhabited, and an escaped keyword is covered by them *)
Example C09_nonvacuous_field :
  asn_identifier (codes "match") = true /\ emit_field (codes "match") = codes "match_" /\
  asn_identifier (codes "my-field") = true /\ emit_field (codes "my-field") = codes "my_field" /\
  In (codes "match") RUST_KEYWORDS.
Proof. repeat split; try reflexivity. vm_compute. tauto. Qed.

Example C09_nonvacuous_variant :
  asn_identifier (codes "dark-blue") = true /\ ~ Known_C09_variant (codes "dark-blue") /\ emit_variant (codes "dark-blue") = codes "DarkBlue".
Proof. split; [reflexivity|]. split; [|reflexivity]. intros H. vm_compute in H. discriminate. Qed.

(* ================================================================== collisions: nothing beyond the mangling

   The mangling (rust.rs: rust_field_name / rust_variant_name / rust_struct_or_enum_name) is not injective -- refuted above,
   F09-3 .. F09-8.  [distinct_after_mangling mangle names] = the mangled names are pairwise different; under that explicit
   hypothesis the names that END UP in the generated file are pairwise different per namespace: the generator's own
   step (keyword escape `type` -> `type_` for fields, RustCodeGenerator::rust_variant_name for variants, nothing for types)
   adds no collision -- a mangled component name never ends in `_`, so `x_` can only be an escaped keyword.
   PARTIAL: associated constants / functions (F09-7), value references (F09-8), the expansion's AsnDef.. / ..Constraint
   names (F09-5) and names captured from the prelude (F09-15) are covered by the oracle of checks/C09.py only. *)
Theorem C09_no_collision : forall fields variants types,
  Forall (fun s => asn_identifier s = true) fields ->
  Forall (fun s => asn_identifier s = true \/ asn_typereference s = true) variants ->
  distinct_after_mangling rust_field_name fields ->
  distinct_after_mangling rust_variant_name variants ->
  distinct_after_mangling rust_struct_or_enum_name types ->
  NoDup (map emit_field fields) /\ NoDup (map emit_variant variants) /\ NoDup (map emit_type types).
Proof.
  intros fields variants types Hf Hv Df Dv Dt. split; [|split].
  - exact (no_collision_fields fields Hf Df).
  - exact (no_collision_variants variants Hv Dv).
  - exact (no_collision_types types Dt).
Qed.

(* the fact behind the field case *)
Theorem C09_field_name_no_trailing_underscore : forall s,
  asn_identifier s = true -> exists t x, rust_field_name s = t ++ [x] /\ x <> USCORE.
Proof. exact field_name_no_trailing_uscore. Qed.

(* ================================================================== integer constants have their declared type

   impl_consts prints `pub const NAME: <to_const_lit_string of r#type.as_no_option()> = <decimal text of the i64 value>;`
   for named numbers (fmt_const; /repo fd1f3f1 added the as_no_option).  [assoc_const_type t = CTInt k]: the declared type
   is the integer type k -- for the type itself, below DEFAULT, and below the Option of an extension addition.
   [int_wf k mn mx]: the bounds of the Rust type are values of k and only u64 lacks bounds (property C15).  Outside F09-9
   ([Known_C09_const_negative_on_unsigned]: a negative value on an unsigned type) and F09-10
   ([Known_C09_const_out_of_constraint]: a value outside the constraint) the literal is a value of k.
   PARTIAL: other constant types (strings, octet strings: F09-11, F09-12) are covered by the oracle only. *)
Theorem C09_consts_typed_partial : forall t k mn mx z,
  assoc_const_type t = CTInt k -> int_wf k mn mx -> (IntTy.i64_min <= z <= IntTy.i64_max)%Z ->
  ~ Known_C09_const_negative_on_unsigned k z -> ~ Known_C09_const_out_of_constraint mn mx z ->
  IntTy.fits k z.
Proof. intros t k mn mx z _. exact (consts_typed k mn mx z). Qed.

(* the declared type is the integer type for the type itself and below DEFAULT ... *)
Theorem C09_const_declared_type : forall k mn mx e l,
  assoc_const_type (RInt k mn mx e) = CTInt k /\ assoc_const_type (RDefault (RInt k mn mx e) l) = CTInt k.
Proof. intros. split; reflexivity. Qed.

(* ... and, since /repo fd1f3f1, for an extension addition, which to_rust wraps in Option
   (S ::= SEQUENCE { a BOOLEAN, ..., b INTEGER { x(1) } (0..9) } gave `pub const B_X: Option<u8> = 1;`, E0308; now
   `pub const B_X: u8 = 1;`): the hypothesis of C09_consts_typed_partial holds for it.  to_const_lit_string alone still
   answers Option<..> -- the stripping is impl_consts' *)
Theorem C09_const_on_extension_addition_fixed : forall k mn mx e,
  assoc_const_type (ROption (RInt k mn mx e)) = CTInt k /\
  assoc_const_type (ROption (ROption (RInt k mn mx e))) = CTInt k /\
  const_lit_type (ROption (RInt k mn mx e)) = CTOption (CTInt k).
Proof. intros. repeat split; reflexivity. Qed.

Theorem C09_refuted_const_negative_on_unsigned :
  int_wf IntTy.U64 None None /\ Known_C09_const_negative_on_unsigned IntTy.U64 (-40)%Z /\ ~ IntTy.fits IntTy.U64 (-40)%Z.
Proof.
  split; [|split].
  - repeat split; intros; try discriminate; reflexivity.
  - split; reflexivity.
  - unfold IntTy.fits. cbn. intros [H _]. apply H. reflexivity.
Qed.

(* ================================================================== mangling twice

   rust_variant_name (= rust_struct_or_enum_name) is NOT idempotent: a name that has its Rust spelling and is mangled again
   somewhere on the macro path (a DEFAULT literal Plan::AB, complex(RouteTA, ..), extensible_after(AB)) becomes another
   name (Plan::Ab).  The crate does not do that today (checks/C08.py and C09.py carry the family "a-b, x-y-z, plan-b-c,
   Route-T-A" in every such position); the fixed points are characterised exactly: [variant_stable s] = no separator,
   the first character is no lower-case letter, and no upper-case letter follows an upper-case letter unless a
   lower-case letter comes next.  (rust_field_name, rust_constant_name, rust_module_name and the generator's own functions
   showed no such name under op 3410; that is differential evidence only.) *)
Theorem C09_variant_mangling_not_idempotent :
  (exists s, asn_identifier s = true /\ rust_variant_name (rust_variant_name s) <> rust_variant_name s) /\
  (exists s, asn_typereference s = true /\ rust_struct_or_enum_name (rust_struct_or_enum_name s) <> rust_struct_or_enum_name s) /\
  rust_variant_name (codes "a-b") = codes "AB" /\ rust_variant_name (codes "AB") = codes "Ab" /\
  rust_struct_or_enum_name (codes "Route-T-A") = codes "RouteTA" /\ rust_struct_or_enum_name (codes "RouteTA") = codes "RouteTa".
Proof.
  split; [|split; [|repeat split; vm_compute; reflexivity]].
  - exists (codes "a-b"). split; [reflexivity|]. vm_compute. intros H. discriminate H.
  - exists (codes "Route-T-A"). split; [reflexivity|]. vm_compute. intros H. discriminate H.
Qed.

Theorem C09_variant_mangling_fixed_points : forall s, rust_variant_name s = s <-> variant_stable s = true.
Proof. exact variant_stable_iff. Qed.

(* so: mangling a second time is harmless exactly for the names whose first mangling is stable *)
Theorem C09_variant_mangling_idempotent_iff : forall s,
  rust_variant_name (rust_variant_name s) = rust_variant_name s <-> variant_stable (rust_variant_name s) = true.
Proof. intros s. apply variant_stable_iff. Qed.

Example C09_nonvacuous_no_collision :
  let fields := [codes "type"; codes "my-field"; codes "typeX"] in
  Forall (fun s => asn_identifier s = true) fields /\ distinct_after_mangling rust_field_name fields /\
  map emit_field fields = [codes "type_"; codes "my_field"; codes "type_x"].
Proof.
  cbv zeta. split; [repeat constructor|]. split; [|vm_compute; reflexivity].
  unfold distinct_after_mangling. vm_compute.
  repeat (constructor; [intros H; cbn in H; repeat (destruct H as [H|H]; [discriminate H|]); exact H|]). constructor.
Qed.

Example C09_nonvacuous_consts_typed :
  int_wf IntTy.U8 (Some 0%Z) (Some 255%Z) /\ ~ Known_C09_const_negative_on_unsigned IntTy.U8 8%Z /\
  ~ Known_C09_const_out_of_constraint (Some 0%Z) (Some 255%Z) 8%Z.
Proof.
  split; [|split].
  - repeat split; intros; try discriminate.
    + inversion H; subst. cbn. discriminate.
    + inversion H; subst. cbn. discriminate.
    + destruct H; discriminate.
  - intros [_ H]. discriminate H.
  - intros [[a [Ha H]]|[b [Hb H]]]; [inversion Ha; subst | inversion Hb; subst]; discriminate H.
Qed.

Print Assumptions C09_field_idents_legal.
Print Assumptions C09_no_collision.
Print Assumptions C09_variant_mangling_not_idempotent.
Print Assumptions C09_variant_mangling_fixed_points.
Print Assumptions C09_variant_mangling_idempotent_iff.
Print Assumptions C09_field_name_no_trailing_underscore.
Print Assumptions C09_consts_typed_partial.
Print Assumptions C09_const_declared_type.
Print Assumptions C09_const_on_extension_addition_fixed.
Print Assumptions C09_refuted_const_negative_on_unsigned.
Print Assumptions C09_keywords_complete.
Print Assumptions C09_keywords_complete_identifier.
Print Assumptions C09_keywords_escaped.
Print Assumptions C09_variant_idents_legal.
Print Assumptions C09_type_idents_legal.
Print Assumptions C09_refuted_variant_Self.
Print Assumptions C09_mangle_collision_refuted.
