(* Props/C09.v -- pinned statements of property C09 (logic core; "rustc accepts" as a whole is tie-only, DESIGN.md 8).

   C09 is claimed PARTIAL: the theorems below cover the identifiers the generator derives from ASN.1 component /
   alternative / item / type names (legal Rust identifiers, not keywords, outside the named known classes).  Collision
   freedom is refuted (the tool neither renames nor rejects), constants/derives/type checking are covered by the
   rustc stage of checks/C09.py only. *)
From A1 Require Import Base.Res Gen.Keywords Front.Codegen Front.CodegenProofs.
From Coq Require Import String.
Local Open Scope N_scope.

(* Every ASN.1 identifier (X.680 12.3) used as a component name is emitted as a legal Rust identifier that is not a
   keyword -- unless its mangled form is a keyword the generator's escape list (Gen/Keywords.v) misses. *)
Theorem C09_field_idents_legal : forall s,
  asn_identifier s = true -> ~ Known_C09_keyword s ->
  is_rust_ident (emit_field s) = true /\ is_keyword (emit_field s) = false.
Proof. exact field_idents_legal. Qed.

(* ... and the known class is inhabited on the current tree: `match` (and every keyword missing from KEYWORDS) is emitted verbatim *)
Theorem C09_refuted_keyword : exists s,
  asn_identifier s = true /\ Known_C09_keyword s /\ is_keyword (emit_field s) = true.
Proof. exists (codes "match"). vm_compute. repeat split; reflexivity. Qed.

(* the complete list of component names whose emitted form is a keyword: RUST_KEYWORDS minus KEYWORDS, lower-case ones *)
Definition unescaped_keywords : list (list N) :=
  filter (fun k => asn_identifier k && is_keyword (emit_field k)) RUST_KEYWORDS.
Theorem C09_refuted_keyword_count : List.length unescaped_keywords = 41%nat.
Proof. vm_compute. reflexivity. Qed.

(* alternative / ENUMERATED item names (identifiers) and type names (typereferences) become variants / type names *)
Theorem C09_variant_idents_legal : forall s,
  (asn_identifier s = true \/ asn_typereference s = true) -> ~ Known_C09_variant s ->
  is_rust_ident (emit_variant s) = true /\ is_keyword (emit_variant s) = false.
Proof. exact variant_idents_legal. Qed.

Theorem C09_type_idents_legal : forall s,
  asn_typereference s = true -> ~ Known_C09_variant s ->
  is_rust_ident (emit_type s) = true /\ is_keyword (emit_type s) = false.
Proof. exact type_idents_legal. Qed.

(* the known class of the two theorems above: the item/alternative `self` and the type `Self` become the keyword `Self` *)
Theorem C09_refuted_variant_Self : exists s,
  asn_identifier s = true /\ Known_C09_variant s /\ is_keyword (emit_variant s) = true.
Proof. exists (codes "self"). vm_compute. repeat split; reflexivity. Qed.

(* distinct ASN.1 names are mangled to one Rust name: components foo-bar / fooBar, types Foo-Bar / FooBar, items likewise *)
Theorem C09_mangle_collision_refuted :
  (exists a b, a <> b /\ asn_identifier a = true /\ asn_identifier b = true /\ emit_field a = emit_field b) /\
  (exists a b, a <> b /\ asn_identifier a = true /\ asn_identifier b = true /\ emit_variant a = emit_variant b) /\
  (exists a b, a <> b /\ asn_typereference a = true /\ asn_typereference b = true /\ emit_type a = emit_type b).
Proof.
  split; [|split].
  - exists (codes "foo-bar"), (codes "fooBar"). split; [discriminate|]. vm_compute. repeat split; reflexivity.
  - exists (codes "foo-bar"), (codes "fooBar"). split; [discriminate|]. vm_compute. repeat split; reflexivity.
  - exists (codes "Foo-Bar"), (codes "FooBar"). split; [discriminate|]. vm_compute. repeat split; reflexivity.
Qed.

(* non-vacuity: the hypotheses of the legality theorems are inhabited, and an escaped keyword is covered by them *)
Example C09_nonvacuous_field :
  asn_identifier (codes "type") = true /\ ~ Known_C09_keyword (codes "type") /\ emit_field (codes "type") = codes "type_".
Proof. split; [reflexivity|]. split; [|reflexivity]. intros [_ H]. vm_compute in H. discriminate. Qed.

Example C09_nonvacuous_variant :
  asn_identifier (codes "dark-blue") = true /\ ~ Known_C09_variant (codes "dark-blue") /\ emit_variant (codes "dark-blue") = codes "DarkBlue".
Proof. split; [reflexivity|]. split; [|reflexivity]. intros H. vm_compute in H. discriminate. Qed.

Print Assumptions C09_field_idents_legal.
Print Assumptions C09_refuted_keyword.
Print Assumptions C09_refuted_keyword_count.
Print Assumptions C09_variant_idents_legal.
Print Assumptions C09_type_idents_legal.
Print Assumptions C09_refuted_variant_Self.
Print Assumptions C09_mangle_collision_refuted.
