(* Props/C09.v -- stub, to be filled *)
