(* Props/C09.v -- pinned statements of property C09 (logic core; "rustc accepts" as a whole is tie-only, DESIGN.md 8).

   C09 is claimed PARTIAL: the theorems below cover the identifiers the generator derives from ASN.1 component /
   alternative / item / type names (legal Rust identifiers, not keywords; for variants and types outside the one
   known class `Self`).  Collision
   freedom is refuted (the tool neither renames nor rejects), constants/derives/type checking are covered by the
   rustc stage of checks/C09.py only. *)
From A1 Require Import Base.Res Gen.Keywords Front.Codegen Front.CodegenProofs.
From Coq Require Import String.
Local Open Scope N_scope.

(* Every ASN.1 identifier (X.680 12.3) used as a component name is emitted as a legal Rust identifier that is not a
   keyword: the generator's escape list (Gen/Keywords.v, generated from generate/rust.rs) is complete for field names
   (a mangled component name starts with a lower-case letter, so it can never be `Self`). *)
Theorem C09_field_idents_legal : forall s,
  asn_identifier s = true ->
  is_rust_ident (emit_field s) = true /\ is_keyword (emit_field s) = false.
Proof. exact field_idents_legal. Qed.

(* the escape list of the crate contains every keyword of the Rust-reference table (strict + reserved, 2021 edition)
   that starts with a lower-case letter, in particular every keyword that is an ASN.1 identifier.  Proved by a finite
   check against the GENERATED list: removing an entry from KEYWORDS in generate/rust.rs breaks this proof. *)
Theorem C09_keywords_complete : forall k,
  In k RUST_KEYWORDS -> (exists c t, k = c :: t /\ is_lower c = true) -> mem_str k KEYWORDS = true.
Proof. exact keywords_complete. Qed.

Theorem C09_keywords_complete_identifier : forall k,
  In k RUST_KEYWORDS -> asn_identifier k = true -> mem_str k KEYWORDS = true.
Proof. exact keywords_complete_identifier. Qed.

(* how many keywords that covers, and that every one of them is emitted escaped *)
Definition identifier_keywords : list (list N) := filter asn_identifier RUST_KEYWORDS.
Theorem C09_keywords_escaped :
  List.length identifier_keywords = 50%nat /\
  forallb (fun k => str_eqb (emit_field k) (k ++ [USCORE])) identifier_keywords = true.
Proof. split; vm_compute; reflexivity. Qed.

(* alternative / ENUMERATED item names (identifiers) and type names (typereferences) become variants / type names *)
Theorem C09_variant_idents_legal : forall s,
  (asn_identifier s = true \/ asn_typereference s = true) -> ~ Known_C09_variant s ->
  is_rust_ident (emit_variant s) = true /\ is_keyword (emit_variant s) = false.
Proof. exact variant_idents_legal. Qed.

Theorem C09_type_idents_legal : forall s,
  asn_typereference s = true -> ~ Known_C09_variant s ->
  is_rust_ident (emit_type s) = true /\ is_keyword (emit_type s) = false.
Proof. exact type_idents_legal. Qed.

(* the known class of the two theorems above: the item/alternative `self` and the type `Self` become the keyword `Self` *)
Theorem C09_refuted_variant_Self : exists s,
  asn_identifier s = true /\ Known_C09_variant s /\ is_keyword (emit_variant s) = true.
Proof. exists (codes "self"). vm_compute. repeat split; reflexivity. Qed.

(* distinct ASN.1 names are mangled to one Rust name: components foo-bar / fooBar, types Foo-Bar / FooBar, items likewise *)
Theorem C09_mangle_collision_refuted :
  (exists a b, a <> b /\ asn_identifier a = true /\ asn_identifier b = true /\ emit_field a = emit_field b) /\
  (exists a b, a <> b /\ asn_identifier a = true /\ asn_identifier b = true /\ emit_variant a = emit_variant b) /\
  (exists a b, a <> b /\ asn_typereference a = true /\ asn_typereference b = true /\ emit_type a = emit_type b).
Proof.
  split; [|split].
  - exists (codes "foo-bar"), (codes "fooBar"). split; [discriminate|]. vm_compute. repeat split; reflexivity.
  - exists (codes "foo-bar"), (codes "fooBar"). split; [discriminate|]. vm_compute. repeat split; reflexivity.
  - exists (codes "Foo-Bar"), (codes "FooBar"). split; [discriminate|]. vm_compute. repeat split; reflexivity.
Qed.

(* non-vacuity: the hypotheses of the legality theorems are inhabited, and an escaped keyword is covered by them *)
Example C09_nonvacuous_field :
  asn_identifier (codes "match") = true /\ emit_field (codes "match") = codes "match_" /\
  asn_identifier (codes "my-field") = true /\ emit_field (codes "my-field") = codes "my_field" /\
  In (codes "match") RUST_KEYWORDS.
Proof. repeat split; try reflexivity. vm_compute. tauto. Qed.

Example C09_nonvacuous_variant :
  asn_identifier (codes "dark-blue") = true /\ ~ Known_C09_variant (codes "dark-blue") /\ emit_variant (codes "dark-blue") = codes "DarkBlue".
Proof. split; [reflexivity|]. split; [|reflexivity]. intros H. vm_compute in H. discriminate. Qed.

Print Assumptions C09_field_idents_legal.
Print Assumptions C09_keywords_complete.
Print Assumptions C09_keywords_complete_identifier.
Print Assumptions C09_keywords_escaped.
Print Assumptions C09_variant_idents_legal.
Print Assumptions C09_type_idents_legal.
Print Assumptions C09_refuted_variant_Self.
Print Assumptions C09_mangle_collision_refuted.
