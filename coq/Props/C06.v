(* C06 — the encoder rejects constraint-violating values and never emits a wrong encoding.
   Statements pinned here; L1 proofs in Per/Proofs.v (via Props/C10.v), top-level L2 lemmas in
   Uper/RejectProofs.v, every nesting depth in Uper/RejectNestedProofs.v (on top of Uper/Proofs.v).

   What is proved, sentence by sentence of the property:
   (1) "a value outside a non-extensible constraint makes UPER encoding fail with an error":
       - L1, each primitive writer, with the error named (C06_*_reject, first group);
       - L2 at top level, with the error named, no hypothesis on the descriptor (second group);
       - L2 at EVERY nesting depth: [C06_reject_nested].  [violates t v] = some position of [v] that
         the writer encodes (a present OPTIONAL, a DEFAULT component that differs from its default,
         every list element, the selected CHOICE alternative; root components and extension
         additions alike) breaks a non-extensible constraint: INTEGER outside lo..hi, SIZE of a
         string / OCTET STRING / BIT STRING / SEQUENCE OF outside lo..hi, a character outside a
         restricted alphabet (whatever the extensibility of the size), CHOICE / ENUMERATED index
         beyond the root.  Then [write_ty] from a writer without enclosing scope answers [Err e]:
         not Ok, and not a panic.  [C06_reject_nested_in_scope]: inside ANY enclosing scope
         (presence bit field, extension additions, open type) the result is never Ok, and it is
         [Err e] as soon as the bit-field entry of that enclosing scope does not panic.
         NOT proved: which error kind [e] is.  It is the error of the first failing position in
         encoding order, which may be an EARLIER sibling failing for another reason (a second
         violation, an F10-1 size refusal, ExtensionFieldsInconsistent); the named error is proved
         at top level (second group) and shown on the example.
         No [Known_*] class is excluded: [C06_writer_never_panics] shows that the type-level writer
         cannot panic on any value of the generated Rust type ([wf_val]), in either profile, so an
         earlier sibling can only succeed or fail with an error.
         Hypotheses: [wf_ty] (descriptor constants as derived by the compiler), [wf_val] (the value
         is a value of the Rust type; NOT that it satisfies the constraints), [kinds_ok]: the Rust
         type u64 is used only for INTEGER types whose lower bound is not negative (a u64 of 2^63
         or more is cast to a negative i64 by the writer; the compiler never pairs u64 with a
         negative bound, [wf_ty] does not record it).  Under [wf_ty] /\ [wf_val] the CHOICE /
         ENUMERATED index clause of [violates] cannot fire (a Rust enum has no such value); those
         two cases are covered without [wf_val] by C06_enum_reject / C06_choice_reject.
   (2) "it never succeeds with bits that decode to a different value": [C06_never_wrong_encoding]
       (= the round-trip theorem C01 read for values that need not satisfy the constraints: for
       every value of the Rust type outside [Known_C01], IF the writer succeeds THEN the reader
       returns exactly that value and stops at the end of the produced bits, at every nesting
       depth) and its contrapositive form [C06_no_other_value].
   (3) "for extensible constraints an out-of-root value is encoded in the extension form and still
       round-trips": [C06_extensible_int_out_of_root_roundtrips],
       [C06_extensible_octets_out_of_root_roundtrips] (the write SUCCEEDS, the first bit is the
       extension bit 1, the reader returns the value); for the other extensible sizes the round
       trip of an accepted value is (2). *)
From A1 Require Import Per.Prim Per.X691 Per.Proofs Uper.Reader Uper.RejectProofs.
From A1 Require Import Uper.Spec Uper.Proofs Uper.RejectNestedProofs.
From A1 Require Props.C10.
Local Open Scope N_scope.

(** L1: every primitive writer answers with the constraint error for every value outside its bounds
    (all i64 / u64 bounds and values, both cargo profiles) *)
Theorem C06_constrained_reject : forall m lb ub v,
  (v < lb \/ ub < v)%Z -> w_constrained m lb ub v = Err E_VALUE_RANGE.
Proof. exact C10.C10_constrained_reject. Qed.

Theorem C06_nnbi_reject : forall m lb ub v,
  nn_bounded lb ub -> v < opt_or lb 0 \/ opt_or ub I64_MAX < v ->
  w_nnbi m lb ub v = Err E_VALUE_RANGE.
Proof. exact C10.C10_nnbi_reject. Qed.

Theorem C06_index_reject : forall m std ext i,
  std <= i -> ext = false -> w_enumeration_index m std ext i = Err E_INVALID_CHOICE.
Proof.
  intros m std ext i H1 H2. apply C10.C10_index_reject. apply C10.C10_index_inadmissible. auto.
Qed.

Theorem C06_octetstring_size_reject : forall m lb ub bytes,
  blen bytes < opt_or lb 0 \/ opt_or ub I64_MAX < blen bytes ->
  w_octetstring m lb ub false bytes = Err E_SIZE_RANGE.
Proof. exact C10.C10_octetstring_reject. Qed.

Theorem C06_bitstring_size_reject : forall m lb ub bytes offset len,
  len < opt_or lb 0 \/ opt_or ub I64_MAX < len ->
  w_bitstring m lb ub false bytes offset len = Err E_SIZE_RANGE.
Proof. exact C10.C10_bitstring_reject. Qed.

(** L2: the type-level writer at top level (no enclosing scope) *)
Theorem C06_int_reject : forall m k lo hi v w,
  w_scope w = None -> is_i64 v -> (v < lo \/ hi < v)%Z ->
  write_ty m (TInt k (Some lo) (Some hi) false) (VInt v) w = Err E_VALUE_RANGE.
Proof. exact int_reject. Qed.

Theorem C06_octets_reject : forall m lo hi bs w,
  w_scope w = None -> blen bs < opt_or lo 0 \/ opt_or hi I64_MAX < blen bs ->
  write_ty m (TOctets lo hi false) (VOctets bs) w = Err E_SIZE_RANGE.
Proof. exact octets_reject. Qed.

Theorem C06_bits_reject : forall m lo hi bs bl w,
  w_scope w = None -> bl < opt_or lo 0 \/ opt_or hi I64_MAX < bl ->
  write_ty m (TBitStr lo hi false) (VBits bs bl) w = Err E_SIZE_RANGE.
Proof. exact bits_reject. Qed.

Theorem C06_enum_reject : forall m vc std i w,
  w_scope w = None -> std <= i ->
  write_ty m (TEnum vc std false) (VEnum i) w = Err E_INVALID_CHOICE.
Proof. exact enum_reject. Qed.

Theorem C06_choice_reject : forall m alts std i x w,
  w_scope w = None -> std <= i ->
  write_ty m (TChoice alts std false) (VChoice i x) w = Err E_INVALID_CHOICE.
Proof. exact choice_reject. Qed.

Theorem C06_alphabet_reject : forall m c lo hi ext chars w,
  w_scope w = None -> c <> Utf8 -> find_invalid c chars = true ->
  write_ty m (TStr c lo hi ext) (VStr chars) w = Err E_INVALID_STRING.
Proof. exact alphabet_reject. Qed.

Theorem C06_string_size_reject : forall m c lo hi chars w,
  w_scope w = None -> c <> Utf8 -> find_invalid c chars = false ->
  N.of_nat (length chars) < opt_or lo 0 \/ opt_or hi U64_MAX < N.of_nat (length chars) ->
  write_ty m (TStr c lo hi false) (VStr chars) w = Err E_SIZE_RANGE.
Proof. exact string_size_reject. Qed.

Theorem C06_list_size_reject : forall m e lo hi vs w,
  w_scope w = None ->
  N.of_nat (length vs) < opt_or lo 0 \/ opt_or hi I64_MAX < N.of_nat (length vs) ->
  write_ty m (TListOf e lo hi false) (VList vs) w = Err E_SIZE_RANGE.
Proof. exact list_size_reject. Qed.

(** L2 at every nesting depth *)
(* the type-level writer never panics on a value of the generated Rust type *)
Theorem C06_writer_never_panics : forall m t, wf_ty t ->
  forall v w, wf_val t v -> wst_wf w -> w_scope w = None -> is_panic (write_ty m t v w) = false.
Proof. exact write_ty_np. Qed.

(* a violating value has no reference encoding *)
Theorem C06_violating_value_has_no_encoding : forall m t, kinds_ok t ->
  forall v, wf_val t v -> violates t v = true -> is_ok (enc m t v) = false.
Proof. exact violates_enc_fails. Qed.

Theorem C06_reject_nested : forall m t v w,
  wf_ty t -> kinds_ok t -> wf_val t v -> wst_wf w -> w_scope w = None ->
  violates t v = true -> exists e, write_ty m t v w = Err e.
Proof. exact reject_nested. Qed.

Theorem C06_reject_nested_in_scope : forall m t v w,
  wf_ty t -> kinds_ok t -> wf_val t v -> wst_wf w -> violates t v = true ->
  is_ok (write_ty m t v w) = false /\
  (is_panic (write_bit_field_entry m w false true) = false -> exists e, write_ty m t v w = Err e).
Proof. exact reject_nested_in_scope. Qed.

(** never a wrong encoding *)
Theorem C06_never_wrong_encoding : forall m t v w w',
  wf_ty t -> wf_val t v -> ~ Known_C01 m t v -> wst_wf w -> w_scope w = None ->
  write_ty m t v w = Ok w' ->
  exists bs, w_bits w' = w_bits w ++ bs /\ w_scope w' = None /\ wst_wf w' /\
    forall s tail, rsrc s bs tail ->
      read_ty m t (r_of_src s) = Ok (v, r_of_src (src_adv s (bl bs) tail)).
Proof. exact C01_roundtrip_thm. Qed.

Theorem C06_no_other_value : forall m t v w w',
  wf_ty t -> wf_val t v -> ~ Known_C01 m t v -> wst_wf w -> w_scope w = None ->
  write_ty m t v w = Ok w' ->
  exists bs, w_bits w' = w_bits w ++ bs /\
    forall s tail v' r', rsrc s bs tail -> read_ty m t (r_of_src s) = Ok (v', r') -> v' = v.
Proof. exact no_other_value. Qed.

(** extensible constraints: out of the root = extension form, and it round-trips *)
Theorem C06_extensible_int_out_of_root_roundtrips : forall m k lo hi z w,
  wf_ty (TInt k lo hi true) -> ik_fitsb k z = true -> is_i64 z ->
  (z < opt_or lo 0 \/ opt_or hi I64_MAXz < z)%Z -> wst_wf w -> w_scope w = None ->
  exists bs, write_ty m (TInt k lo hi true) (VInt z) w = Ok (w_append w (true :: bs)) /\
    forall s tail, rsrc s (true :: bs) tail ->
      read_ty m (TInt k lo hi true) (r_of_src s)
      = Ok (VInt z, r_of_src (src_adv s (bl (true :: bs)) tail)).
Proof. exact ext_int_out_of_root. Qed.

Theorem C06_extensible_octets_out_of_root_roundtrips : forall m lo hi bytes w,
  wf_ty (TOctets lo hi true) -> wf_val (TOctets lo hi true) (VOctets bytes) ->
  blen bytes < opt_or lo 0 \/ opt_or hi I64_MAX < blen bytes -> wst_wf w -> w_scope w = None ->
  exists bs, write_ty m (TOctets lo hi true) (VOctets bytes) w = Ok (w_append w (true :: bs)) /\
    forall s tail, rsrc s (true :: bs) tail ->
      read_ty m (TOctets lo hi true) (r_of_src s)
      = Ok (VOctets bytes, r_of_src (src_adv s (bl (true :: bs)) tail)).
Proof. exact ext_octets_out_of_root. Qed.

Example C06_nonvacuous :
  write_ty dev_mode (TInt U8 (Some 5%Z) (Some 5%Z) false) (VInt 6) w_empty = Err E_VALUE_RANGE /\
  write_ty release_mode (TStr Numeric (Some 1) (Some 3) false) (VStr [49; 65]) w_empty = Err E_INVALID_STRING /\
  write_ty dev_mode (TOctets (Some 2) (Some 2) false) (VOctets [1; 2; 3]) w_empty = Err E_SIZE_RANGE.
Proof. vm_compute. repeat split. Qed.

(* SEQUENCE { a INTEGER(0..7), b SEQUENCE OF SEQUENCE { c IA5String(SIZE(1..3)) OPTIONAL } }: the
   third list element carries a 4-character string (sequence -> list -> sequence -> string) *)
Example C06_nested_nonvacuous :
  wf_ty ex6_ty /\ kinds_ok ex6_ty /\ wf_val ex6_ty ex6_bad /\ wf_val ex6_ty ex6_good /\
  violates ex6_ty ex6_bad = true /\ violates ex6_ty ex6_good = false /\
  write_ty dev_mode ex6_ty ex6_bad w_empty = Err E_SIZE_RANGE /\
  write_ty release_mode ex6_ty ex6_bad w_empty = Err E_SIZE_RANGE /\
  is_ok (write_ty dev_mode ex6_ty ex6_good w_empty) = true.
Proof. exact nonvacuous_nested. Qed.

(* [violates] is tight: SEQUENCE { x INTEGER(0..7) DEFAULT 9 } with x = 9 (equal to the default: not
   encoded, the write succeeds with the single presence bit 0) and x = 8 (encoded: refused) *)
Example C06_violates_tight :
  wf_ty ex6d_ty /\ kinds_ok ex6d_ty /\
  wf_val ex6d_ty (VSeq [Some (VInt 9)]) /\ violates ex6d_ty (VSeq [Some (VInt 9)]) = false /\
  write_ty dev_mode ex6d_ty (VSeq [Some (VInt 9)]) w_empty = Ok (w_append w_empty [false]) /\
  wf_val ex6d_ty (VSeq [Some (VInt 8)]) /\ violates ex6d_ty (VSeq [Some (VInt 8)]) = true /\
  write_ty dev_mode ex6d_ty (VSeq [Some (VInt 8)]) w_empty = Err E_VALUE_RANGE.
Proof. exact violates_tight. Qed.

(* the hypothesis [kinds_ok] cannot be dropped (descriptor never produced by the compiler) *)
Example C06_kinds_ok_needed :
  let t := TInt U64 (Some (-5)%Z) (Some 10%Z) false in
  let v := VInt 18446744073709551615 in
  wf_ty t /\ wf_val t v /\ ~ kinds_ok t /\ violates t v = true /\
  is_ok (write_ty dev_mode t v w_empty) = true.
Proof. exact kinds_ok_needed. Qed.

(* an out-of-root value of an extensible INTEGER(0..7, ...) *)
Example C06_extensible_nonvacuous :
  exists w', write_ty dev_mode (TInt U8 (Some 0%Z) (Some 7%Z) true) (VInt 200) w_empty = Ok w' /\
    hd false (w_bits w') = true /\
    read_ty dev_mode (TInt U8 (Some 0%Z) (Some 7%Z) true) (r_of_src (src_of_bits (w_bits w') (bl (w_bits w'))))
    = Ok (VInt 200, r_of_src (src_adv (src_of_bits (w_bits w') (bl (w_bits w'))) (bl (w_bits w')) [])).
Proof. eexists. split; [vm_compute; reflexivity|]. split; vm_compute; reflexivity. Qed.

Print Assumptions C06_constrained_reject.
Print Assumptions C06_nnbi_reject.
Print Assumptions C06_index_reject.
Print Assumptions C06_octetstring_size_reject.
Print Assumptions C06_bitstring_size_reject.
Print Assumptions C06_int_reject.
Print Assumptions C06_octets_reject.
Print Assumptions C06_bits_reject.
Print Assumptions C06_enum_reject.
Print Assumptions C06_choice_reject.
Print Assumptions C06_alphabet_reject.
Print Assumptions C06_string_size_reject.
Print Assumptions C06_list_size_reject.

Print Assumptions C06_writer_never_panics.
Print Assumptions C06_violating_value_has_no_encoding.
Print Assumptions C06_reject_nested.
Print Assumptions C06_reject_nested_in_scope.
Print Assumptions C06_never_wrong_encoding.
Print Assumptions C06_no_other_value.
Print Assumptions C06_extensible_int_out_of_root_roundtrips.
Print Assumptions C06_extensible_octets_out_of_root_roundtrips.
Print Assumptions C06_nested_nonvacuous.
Print Assumptions C06_violates_tight.
Print Assumptions C06_extensible_nonvacuous.
Print Assumptions C06_kinds_ok_needed.
