(* Props/C06.v -- stub, to be filled *)
