(* C06 statements pinned here *)
From A1 Require Import Uper.Reader.
