(* C06 — the encoder rejects constraint-violating values and never emits a wrong encoding.
   Statements pinned here; L1 proofs in Per/Proofs.v (via Props/C10.v), L2 lemmas in Uper/RejectProofs.v. *)
From A1 Require Import Per.Prim Per.X691 Per.Proofs Uper.Reader Uper.RejectProofs.
From A1 Require Props.C10.
Local Open Scope N_scope.

(** L1: every primitive writer answers with the constraint error for every value outside its bounds
    (all i64 / u64 bounds and values, both cargo profiles) *)
Theorem C06_constrained_reject : forall m lb ub v,
  (v < lb \/ ub < v)%Z -> w_constrained m lb ub v = Err E_VALUE_RANGE.
Proof. exact C10.C10_constrained_reject. Qed.

Theorem C06_nnbi_reject : forall m lb ub v,
  nn_bounded lb ub -> v < opt_or lb 0 \/ opt_or ub I64_MAX < v ->
  w_nnbi m lb ub v = Err E_VALUE_RANGE.
Proof. exact C10.C10_nnbi_reject. Qed.

Theorem C06_index_reject : forall m std ext i,
  std <= i -> ext = false -> w_enumeration_index m std ext i = Err E_INVALID_CHOICE.
Proof.
  intros m std ext i H1 H2. apply C10.C10_index_reject. apply C10.C10_index_inadmissible. auto.
Qed.

Theorem C06_octetstring_size_reject : forall m lb ub bytes,
  blen bytes < opt_or lb 0 \/ opt_or ub I64_MAX < blen bytes ->
  w_octetstring m lb ub false bytes = Err E_SIZE_RANGE.
Proof. exact C10.C10_octetstring_reject. Qed.

Theorem C06_bitstring_size_reject : forall m lb ub bytes offset len,
  len < opt_or lb 0 \/ opt_or ub I64_MAX < len ->
  w_bitstring m lb ub false bytes offset len = Err E_SIZE_RANGE.
Proof. exact C10.C10_bitstring_reject. Qed.

(** L2: the type-level writer at top level (no enclosing scope) *)
Theorem C06_int_reject : forall m k lo hi v w,
  w_scope w = None -> is_i64 v -> (v < lo \/ hi < v)%Z ->
  write_ty m (TInt k (Some lo) (Some hi) false) (VInt v) w = Err E_VALUE_RANGE.
Proof. exact int_reject. Qed.

Theorem C06_octets_reject : forall m lo hi bs w,
  w_scope w = None -> blen bs < opt_or lo 0 \/ opt_or hi I64_MAX < blen bs ->
  write_ty m (TOctets lo hi false) (VOctets bs) w = Err E_SIZE_RANGE.
Proof. exact octets_reject. Qed.

Theorem C06_bits_reject : forall m lo hi bs bl w,
  w_scope w = None -> bl < opt_or lo 0 \/ opt_or hi I64_MAX < bl ->
  write_ty m (TBitStr lo hi false) (VBits bs bl) w = Err E_SIZE_RANGE.
Proof. exact bits_reject. Qed.

Theorem C06_enum_reject : forall m vc std i w,
  w_scope w = None -> std <= i ->
  write_ty m (TEnum vc std false) (VEnum i) w = Err E_INVALID_CHOICE.
Proof. exact enum_reject. Qed.

Theorem C06_choice_reject : forall m alts std i x w,
  w_scope w = None -> std <= i ->
  write_ty m (TChoice alts std false) (VChoice i x) w = Err E_INVALID_CHOICE.
Proof. exact choice_reject. Qed.

Theorem C06_alphabet_reject : forall m c lo hi ext chars w,
  w_scope w = None -> c <> Utf8 -> find_invalid c chars = true ->
  write_ty m (TStr c lo hi ext) (VStr chars) w = Err E_INVALID_STRING.
Proof. exact alphabet_reject. Qed.

Theorem C06_string_size_reject : forall m c lo hi chars w,
  w_scope w = None -> c <> Utf8 -> find_invalid c chars = false ->
  N.of_nat (length chars) < opt_or lo 0 \/ opt_or hi U64_MAX < N.of_nat (length chars) ->
  write_ty m (TStr c lo hi false) (VStr chars) w = Err E_SIZE_RANGE.
Proof. exact string_size_reject. Qed.

Theorem C06_list_size_reject : forall m e lo hi vs w,
  w_scope w = None ->
  N.of_nat (length vs) < opt_or lo 0 \/ opt_or hi I64_MAX < N.of_nat (length vs) ->
  write_ty m (TListOf e lo hi false) (VList vs) w = Err E_SIZE_RANGE.
Proof. exact list_size_reject. Qed.

Example C06_nonvacuous :
  write_ty dev_mode (TInt U8 (Some 5%Z) (Some 5%Z) false) (VInt 6) w_empty = Err E_VALUE_RANGE /\
  write_ty release_mode (TStr Numeric (Some 1) (Some 3) false) (VStr [49; 65]) w_empty = Err E_INVALID_STRING /\
  write_ty dev_mode (TOctets (Some 2) (Some 2) false) (VOctets [1; 2; 3]) w_empty = Err E_SIZE_RANGE.
Proof. vm_compute. repeat split. Qed.

Print Assumptions C06_constrained_reject.
Print Assumptions C06_nnbi_reject.
Print Assumptions C06_index_reject.
Print Assumptions C06_octetstring_size_reject.
Print Assumptions C06_bitstring_size_reject.
Print Assumptions C06_int_reject.
Print Assumptions C06_octets_reject.
Print Assumptions C06_bits_reject.
Print Assumptions C06_enum_reject.
Print Assumptions C06_choice_reject.
Print Assumptions C06_alphabet_reject.
Print Assumptions C06_string_size_reject.
Print Assumptions C06_list_size_reject.
