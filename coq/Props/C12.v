(* Props/C12.v -- stub, to be filled *)
