(* C12 -- value references and imports resolve exactly like the literals they name.
   Statements only; model in Front/Resolve.v, proofs in Front/ResolveProofs.v.

   PARTIAL.  What is proved is the lookup level: *whatever* `value_reference` finds for a name -- in the module
   itself or, through the first import listing the name, in the module of the scope matched by OID equality (when
   that module has one) or else by name -- a use site resolves exactly like the literal found, for INTEGER range
   bounds, SIZE bounds (values that are sizes) and DEFAULT values; a name that is not found is
   FailedToResolveReference, a non-INTEGER value in a range/SIZE is FailedToParseLiteral, and such an error is the
   result of the enclosing constraint (no substituted bound).  NOT proved: the lifting over the whole AST with an
   explicit `abstract_refs` (DESIGN.md C12_subst) and the load-order theorem; those are covered by the differential
   tie (ops 3302/3304) only.
   Refuted (witnesses below): (0..MAX) folding depends on the 0 being a literal; SIZE(0..MAX, ...) is rejected only
   when 0 and MAX are literals; cyclic IMPORTS of an undefined name do not return.
   Repaired: a negative value used as SIZE wrapped to 2^64-|v| (fb434d2: now FailedToParseLiteral). *)
From Coq Require Import String.
From A1 Require Import Front.Resolve Front.ResolveProofs Extract.OpsParse.
Local Open Scope N_scope.

Theorem C12_subst_bound_partial : forall scope model name v,
  value_reference scope (lookup_fuel scope) model name = Found (LInteger v) ->
  resolve_i64 scope model (Ref name) = resolve_i64 scope model (Lit v).
Proof. exact subst_i64. Qed.

Theorem C12_subst_size_bound_partial : forall scope model name v,
  (0 <= v)%Z ->
  value_reference scope (lookup_fuel scope) model name = Found (LInteger v) ->
  resolve_usize scope model (Ref name) = resolve_usize scope model (Lit (Z.to_N v)).
Proof. exact subst_usize. Qed.

Theorem C12_subst_default_partial : forall scope model name l t,
  value_reference scope (lookup_fuel scope) model name = Found l ->
  (forall r tg, t <> TRef r tg) ->
  resolve_default scope model t (Some (Ref name)) = resolve_default scope model t (Some (Lit l)).
Proof. exact subst_default. Qed.

Theorem C12_unresolved_is_error : forall scope model name,
  value_reference scope (lookup_fuel scope) model name = NotFound ->
  resolve_i64 scope model (Ref name) = RErr (FailedToResolveReference name) /\
  resolve_usize scope model (Ref name) = RErr (FailedToResolveReference name) /\
  resolve_literal scope model (Ref name) = RErr (FailedToResolveReference name).
Proof. exact unresolved_i64. Qed.

Theorem C12_non_integer_is_error : forall scope model name l,
  value_reference scope (lookup_fuel scope) model name = Found l ->
  (forall v, l <> LInteger v) ->
  resolve_i64 scope model (Ref name) = RErr (FailedToParseLiteral (name_prefix ++ name)) /\
  resolve_usize scope model (Ref name) = RErr (FailedToParseLiteral (name_prefix ++ name)).
Proof. exact non_integer. Qed.

Theorem C12_negative_size_is_error : forall scope model name v,
  (v < 0)%Z ->
  value_reference scope (lookup_fuel scope) model name = Found (LInteger v) ->
  resolve_usize scope model (Ref name) = RErr (FailedToParseLiteral (name_prefix ++ name)).
Proof. exact negative_usize. Qed.

(* ---- witnesses, computed on the whole front-end model (tokenizer, parser, resolver) ---- *)

Definition txt (s : string) : list Z := map Z.of_N (s2n s).

Definition first_def (s : string) : option rty :=
  match tokenize dev_mode (s2n s) with
  | Ok ts => match parse ts with
             | POk u => match resolve_single u with
                        | ROk r => match m_definitions r with (_, (_, t, _)) :: _ => Some t | [] => None end
                        | _ => None
                        end
             | _ => None
             end
  | _ => None
  end.

(* the literal 0 of (0..MAX) is folded away, the reference to 0 is not: different models *)
Example C12_refuted_reference_in_0_max_range_not_folded :
  first_def "M DEFINITIONS ::= BEGIN A ::= INTEGER (0..MAX) zero INTEGER ::= 0 END"
    = Some (TInteger (None, None, false) []) /\
  first_def "M DEFINITIONS ::= BEGIN A ::= INTEGER (zero..MAX) zero INTEGER ::= 0 END"
    = Some (TInteger (Some 0%Z, None, false) []).
Proof. split; vm_compute; reflexivity. Qed.

(* repaired (fb434d2 of /repo; before, SIZE(neg) with neg = -1 resolved to SIZE(2^64-1)): the reference to a
   negative value is a resolve error, like the literal -1 *)
Example C12_fixed_negative_size_reference_is_error :
  first_def "M DEFINITIONS ::= BEGIN A ::= OCTET STRING (SIZE(neg)) neg INTEGER ::= -1 END" = None /\
  first_def "M DEFINITIONS ::= BEGIN A ::= OCTET STRING (SIZE(-1)) neg INTEGER ::= -1 END" = None /\
  op_3301 dev_mode (txt "M DEFINITIONS ::= BEGIN A ::= OCTET STRING (SIZE(neg)) neg INTEGER ::= -1 END")
  = (1 :: 2 :: 2 :: 9 :: map Z.of_N (s2n "name: neg"))%Z.
Proof. repeat split; vm_compute; reflexivity. Qed.

Example C12_refuted_reference_in_size_0_max_extensible_accepted :
  first_def "M DEFINITIONS ::= BEGIN A ::= OCTET STRING (SIZE(zero..MAX, ...)) zero INTEGER ::= 0 END"
    = Some (TOctetString (SRange 0 9223372036854775807 true)) /\
  first_def "M DEFINITIONS ::= BEGIN A ::= OCTET STRING (SIZE(0..MAX, ...)) zero INTEGER ::= 0 END" = None.
Proof. split; vm_compute; reflexivity. Qed.

(* two modules importing an undefined name from each other: the lookup does not return (process abort, `3 32`) *)
Example C12_refuted_cyclic_import_diverges :
  let m1 := txt "M DEFINITIONS ::= BEGIN IMPORTS x FROM N; A ::= INTEGER (0..x) END" in
  let m2 := txt "N DEFINITIONS ::= BEGIN IMPORTS x FROM M; B ::= BOOLEAN END" in
  op_3302 dev_mode ([2; Z.of_nat (length m1)] ++ m1 ++ [Z.of_nat (length m2)] ++ m2)%Z = [3; 32]%Z.
Proof. vm_compute. reflexivity. Qed.

(* non-vacuity of the hypotheses: a reference imported by OID from a sibling that is loaded first *)
Example C12_nonvacuous :
  let lib := txt "Lib { iso(1) 5 } DEFINITIONS ::= BEGIN hi INTEGER ::= 9 END" in
  let m := txt "M DEFINITIONS ::= BEGIN IMPORTS hi FROM Elsewhere { iso(1) 5 }; A ::= INTEGER (0..hi) END" in
  let ml := txt "M DEFINITIONS ::= BEGIN IMPORTS hi FROM Elsewhere { iso(1) 5 }; A ::= INTEGER (0..9) END" in
  op_3302 dev_mode ([2; Z.of_nat (length lib)] ++ lib ++ [Z.of_nat (length m)] ++ m)%Z
  = op_3302 dev_mode ([2; Z.of_nat (length lib)] ++ lib ++ [Z.of_nat (length ml)] ++ ml)%Z
  /\ hd 1%Z (op_3302 dev_mode ([2; Z.of_nat (length lib)] ++ lib ++ [Z.of_nat (length m)] ++ m)%Z) = 0%Z.
Proof. split; vm_compute; reflexivity. Qed.

Print Assumptions C12_subst_bound_partial.
Print Assumptions C12_subst_size_bound_partial.
Print Assumptions C12_subst_default_partial.
Print Assumptions C12_unresolved_is_error.
Print Assumptions C12_non_integer_is_error.
Print Assumptions C12_refuted_reference_in_0_max_range_not_folded.
Print Assumptions C12_negative_size_is_error.
Print Assumptions C12_fixed_negative_size_reference_is_error.
Print Assumptions C12_refuted_reference_in_size_0_max_extensible_accepted.
Print Assumptions C12_refuted_cyclic_import_diverges.
