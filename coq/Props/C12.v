(* C12 -- value references and imports resolve exactly like the literals they name.
   Statements only; model in Front/Resolve.v, proofs in Front/ResolveProofs.v (lookup level) and
   Front/ResolveSubstProofs.v (whole types / definitions / modules / module sets).

   PROVED, at the level of the parsed AST (uty / uasn / umodel), for every constructor of the type language:
   * C12_subst_type / _definition / _module / _all.  [abs_ty Ms M t t']: t' is t where any subset of the literals at
     INTEGER range bounds, SIZE bounds and DEFAULT values has been replaced by references, each of which the lookup of
     the scope (Ms, M) -- local first, then the first import listing the name, the module matched by OID equality or
     else by name: *whatever* `value_reference` does -- binds to exactly that literal (SIZE: to a non-negative INTEGER
     of that value).  Then t' resolves exactly like t (same model, same error, same divergence).  Module level: every
     module of the scope may be abstracted at once (the bindings themselves are never touched: IMPORTS, names and values
     of the value assignments are equal), the scope Ms' replaces Ms in all lookups, and
     resolve_model Ms' M' = resolve_model Ms M, resolve_all Ms' = resolve_all Ms.
     The only side condition is the F12 exception, stated exactly ([default_exception]): a DEFAULT reference is not
     read as a value reference when the component's type is a reference whose *definition* lookup finds an ENUMERATED
     with an item of that name (then the DEFAULT is that item), or does not return.
   * C12_literalize_type / _module / _all: the same as a function, without hypotheses.  [lit_ty Ms M] replaces every
     reference that can be replaced (bound to an INTEGER / a non-negative INTEGER / any value, outside the F12 exception)
     by its literal and keeps the others; literalizing every module of the scope never changes the result of
     resolve_ty / resolve_model / resolve_all.  C12_literalize_complete_type / _module: when the type / module resolves,
     its literalization contains no reference at an INTEGER or SIZE bound and none at a DEFAULT outside the F12
     exception, i.e. "every reference is replaced".
   * C12_unresolved_is_error_type / _module / _all and C12_non_integer_is_error_type / _module / _all: a type that
     contains, anywhere (through OPTIONAL, SEQUENCE/SET components, SEQUENCE OF/SET OF, CHOICE), a reference that no
     module binds (at a range bound, a SIZE bound, or as a DEFAULT outside the ENUMERATED special case), resp. a
     reference bound to a non-INTEGER at a range/SIZE bound or to a negative INTEGER at a SIZE bound, does not resolve to
     a model (RErr or RDiverge; *which* error is the first one in traversal order, not claimed); neither does a module
     with such a definition / value assignment, nor a module set containing such a module.
   * C12_order_irrelevant_module / _all / _all_error: under Permutation of the load order, if every import of every
     loaded module is answered by at most one loaded module (by OID equality or by name), every module resolves to the
     same model, the list of resolved models is permuted, and failure is preserved.
   The lookup-level theorems (C12_subst_*_partial, C12_unresolved_is_error, ...) are kept.

   NOT proved / outside these statements: the statements are about the AST, not about the text.  The parser folds
   some *literal* constraints before the resolver sees them, so textual replacement and AST replacement differ there
   (refuted, witnesses below): INTEGER (0..MAX) is folded to "unconstrained" only when the 0 is a literal; SIZE(0..MAX, ...)
   is a parse error only when 0 and MAX are literals.  Further refuted: cyclic IMPORTS of an undefined name do not
   return; with two loaded modules answering to the same import the load order decides
   (C12_refuted_load_order_matters_with_duplicate_module_names).
   Repaired: a negative value used as SIZE wrapped to 2^64-|v| (fb434d2: now FailedToParseLiteral). *)
From Coq Require Import String Permutation.
From A1 Require Import Front.Resolve Front.ResolveProofs Front.ResolveSubstProofs Extract.OpsParse.
Local Open Scope N_scope.

Theorem C12_subst_bound_partial : forall scope model name v,
  value_reference scope (lookup_fuel scope) model name = Found (LInteger v) ->
  resolve_i64 scope model (Ref name) = resolve_i64 scope model (Lit v).
Proof. exact subst_i64. Qed.

Theorem C12_subst_size_bound_partial : forall scope model name v,
  (0 <= v)%Z ->
  value_reference scope (lookup_fuel scope) model name = Found (LInteger v) ->
  resolve_usize scope model (Ref name) = resolve_usize scope model (Lit (Z.to_N v)).
Proof. exact subst_usize. Qed.

Theorem C12_subst_default_partial : forall scope model name l t,
  value_reference scope (lookup_fuel scope) model name = Found l ->
  (forall r tg, t <> TRef r tg) ->
  resolve_default scope model t (Some (Ref name)) = resolve_default scope model t (Some (Lit l)).
Proof. exact subst_default. Qed.

Theorem C12_unresolved_is_error : forall scope model name,
  value_reference scope (lookup_fuel scope) model name = NotFound ->
  resolve_i64 scope model (Ref name) = RErr (FailedToResolveReference name) /\
  resolve_usize scope model (Ref name) = RErr (FailedToResolveReference name) /\
  resolve_literal scope model (Ref name) = RErr (FailedToResolveReference name).
Proof. exact unresolved_i64. Qed.

Theorem C12_non_integer_is_error : forall scope model name l,
  value_reference scope (lookup_fuel scope) model name = Found l ->
  (forall v, l <> LInteger v) ->
  resolve_i64 scope model (Ref name) = RErr (FailedToParseLiteral (name_prefix ++ name)) /\
  resolve_usize scope model (Ref name) = RErr (FailedToParseLiteral (name_prefix ++ name)).
Proof. exact non_integer. Qed.

Theorem C12_negative_size_is_error : forall scope model name v,
  (v < 0)%Z ->
  value_reference scope (lookup_fuel scope) model name = Found (LInteger v) ->
  resolve_usize scope model (Ref name) = RErr (FailedToParseLiteral (name_prefix ++ name)).
Proof. exact negative_usize. Qed.

(* ---- whole types, definitions, modules, module sets (Front/ResolveSubstProofs.v) ---- *)

(* t' = t with literals abstracted by references bound to them: same result *)
Theorem C12_subst_type : forall Ms M t t',
  abs_ty Ms M t t' -> resolve_ty Ms M t' = resolve_ty Ms M t.
Proof. exact subst_ty. Qed.

Theorem C12_subst_definition : forall Ms M a a',
  abs_asn Ms M a a' -> resolve_asn Ms M a' = resolve_asn Ms M a.
Proof. exact subst_asn. Qed.

(* every module of the scope abstracted (each relative to the literal scope Ms and itself); the abstracted scope is
   the one the lookups of the abstracted module run in *)
Theorem C12_subst_module : forall Ms Ms' M M',
  Forall2 (abs_model Ms) Ms Ms' -> abs_model Ms M M' -> resolve_model Ms' M' = resolve_model Ms M.
Proof. exact subst_module. Qed.

Theorem C12_subst_all : forall Ms Ms',
  Forall2 (abs_model Ms) Ms Ms' -> resolve_all Ms' = resolve_all Ms.
Proof. exact subst_all. Qed.

(* the substitution as a function: no hypotheses *)
Theorem C12_literalize_type : forall Ms M t, resolve_ty Ms M (lit_ty Ms M t) = resolve_ty Ms M t.
Proof. exact literalize_ty. Qed.

Theorem C12_literalize_module : forall Ms M, resolve_model (lit_scope Ms) (lit_model Ms M) = resolve_model Ms M.
Proof. exact literalize_module. Qed.

Theorem C12_literalize_all : forall Ms, resolve_all (lit_scope Ms) = resolve_all Ms.
Proof. exact literalize_all. Qed.

(* and it is an instance of the relation *)
Theorem C12_literalize_is_abstraction : forall Ms, Forall2 (abs_model (lit_scope Ms)) (lit_scope Ms) Ms.
Proof. exact lit_scope_abs. Qed.

(* ... and it is complete: when the type / module resolves, its literalization contains no reference at all at an
   INTEGER bound or a SIZE bound, and none at a DEFAULT outside the F12 exception ("every reference replaced") *)
Theorem C12_literalize_complete_type : forall Ms M t r,
  resolve_ty Ms M t = ROk r -> ~ ty_site any_ref any_ref (plain_default Ms M) (lit_ty Ms M t).
Proof. exact literalize_complete_ty. Qed.

Theorem C12_literalize_complete_module : forall Ms M r,
  resolve_model Ms M = ROk r -> ~ model_site any_ref any_ref (plain_default Ms M) (lit_model Ms M).
Proof. exact literalize_complete_module. Qed.

(* errors: a reference that no module binds, anywhere in a type / module / module set *)
Theorem C12_unresolved_is_error_type : forall Ms M t,
  ty_site (ref_unresolved Ms M) (ref_unresolved Ms M) (ref_unresolved_default Ms M) t ->
  forall r, resolve_ty Ms M t <> ROk r.
Proof. exact unresolved_is_error_ty. Qed.

Theorem C12_unresolved_is_error_module : forall Ms M,
  model_site (ref_unresolved Ms M) (ref_unresolved Ms M) (ref_unresolved_default Ms M) M ->
  forall r, resolve_model Ms M <> ROk r.
Proof. exact unresolved_is_error_module. Qed.

Theorem C12_unresolved_is_error_all : forall Ms M,
  In M Ms -> model_site (ref_unresolved Ms M) (ref_unresolved Ms M) (ref_unresolved_default Ms M) M ->
  forall rs, resolve_all Ms <> ROk rs.
Proof. exact unresolved_is_error_all. Qed.

(* errors: a non-INTEGER at a range / SIZE bound, a negative INTEGER at a SIZE bound *)
Theorem C12_non_integer_is_error_type : forall Ms M t,
  ty_site (ref_non_integer Ms M) (ref_non_size Ms M) (fun _ _ => False) t ->
  forall r, resolve_ty Ms M t <> ROk r.
Proof. exact non_integer_is_error_ty. Qed.

Theorem C12_non_integer_is_error_module : forall Ms M,
  model_site (ref_non_integer Ms M) (ref_non_size Ms M) (fun _ _ => False) M ->
  forall r, resolve_model Ms M <> ROk r.
Proof. exact non_integer_is_error_module. Qed.

Theorem C12_non_integer_is_error_all : forall Ms M,
  In M Ms -> model_site (ref_non_integer Ms M) (ref_non_size Ms M) (fun _ _ => False) M ->
  forall rs, resolve_all Ms <> ROk rs.
Proof. exact non_integer_is_error_all. Qed.

(* load order *)
Theorem C12_order_irrelevant_module : forall Ms Ms',
  Permutation Ms Ms' -> (forall m, In m Ms -> unique_targets Ms m) ->
  forall M, unique_targets Ms M -> resolve_model Ms' M = resolve_model Ms M.
Proof. exact order_irrelevant_module. Qed.

Theorem C12_order_irrelevant_all : forall Ms Ms',
  Permutation Ms Ms' -> (forall m, In m Ms -> unique_targets Ms m) ->
  forall rs, resolve_all Ms = ROk rs -> exists rs', resolve_all Ms' = ROk rs' /\ Permutation rs rs'.
Proof. exact order_irrelevant_all. Qed.

Theorem C12_order_irrelevant_all_error : forall Ms Ms',
  Permutation Ms Ms' -> (forall m, In m Ms -> unique_targets Ms m) ->
  (forall rs, resolve_all Ms <> ROk rs) -> forall rs', resolve_all Ms' <> ROk rs'.
Proof. exact order_irrelevant_all_error. Qed.

(* name clashes: the item of the component's ENUMERATED wins over value references of the same name (the hypotheses do
   not mention value_reference at all); an ENUMERATED without the item, or a component that is not a type reference,
   means the value reference *)
Theorem C12_enum_default_precedence : forall Ms M referenced tg name tg0 variants e d0 v,
  definition Ms (lookup_fuel Ms) M referenced = Found (tg0, TEnumerated variants e, d0) ->
  find (fun v => str_eqb name (fst v)) variants = Some v ->
  resolve_default Ms M (TRef referenced tg) (Some (Ref name)) = ROk (Some (LEnumVariant referenced (fst v))).
Proof. exact enum_default_precedence. Qed.

Theorem C12_enum_default_other_item_is_value : forall Ms M referenced tg name tg0 variants e d0,
  definition Ms (lookup_fuel Ms) M referenced = Found (tg0, TEnumerated variants e, d0) ->
  find (fun v => str_eqb name (fst v)) variants = None ->
  resolve_default Ms M (TRef referenced tg) (Some (Ref name))
  = (let^ l := resolve_literal Ms M (Ref name) in ROk (Some l)).
Proof. exact enum_default_other_item. Qed.

Theorem C12_non_reference_default_is_value : forall Ms M t name,
  ref_name t = None ->
  resolve_default Ms M t (Some (Ref name)) = (let^ l := resolve_literal Ms M (Ref name) in ROk (Some l)).
Proof. exact non_reference_default_is_value. Qed.

Definition defaults_of (s : string) : option (list (option literal)) :=
  match tokenize dev_mode (s2n s) with
  | Ok ts => match parse ts with
             | POk u => match resolve_single u with
                        | ROk r =>
                            Some (flat_map (fun d => match d with
                                                     | (_, (_, TSequence fs _, _)) => map (fun f => snd (snd f)) fs
                                                     | _ => []
                                                     end) (m_definitions r))
                        | _ => None
                        end
             | _ => None
             end
  | _ => None
  end.

(* `medium` is an item of Level and a value: Level DEFAULT medium is the item (with and without the value assignment),
   INTEGER DEFAULT medium is 50, a component of an ENUMERATED without that item is 50 *)
Example C12_enum_default_precedence_nonvacuous :
  defaults_of "M DEFINITIONS ::= BEGIN Level ::= ENUMERATED { low, medium, high } Other ::= ENUMERATED { red } medium INTEGER ::= 50 S ::= SEQUENCE { level Level DEFAULT medium, n INTEGER (0..100) DEFAULT medium, c Other DEFAULT medium } END"
  = Some [Some (LEnumVariant (s2n "Level") (s2n "medium")); Some (LInteger 50); Some (LInteger 50)] /\
  defaults_of "M DEFINITIONS ::= BEGIN Level ::= ENUMERATED { low, medium, high } S ::= SEQUENCE { level Level DEFAULT medium } END"
  = Some [Some (LEnumVariant (s2n "Level") (s2n "medium"))].
Proof. split; vm_compute; reflexivity. Qed.

(* ---- witnesses, computed on the whole front-end model (tokenizer, parser, resolver) ---- *)

Definition txt (s : string) : list Z := map Z.of_N (s2n s).

Definition first_def (s : string) : option rty :=
  match tokenize dev_mode (s2n s) with
  | Ok ts => match parse ts with
             | POk u => match resolve_single u with
                        | ROk r => match m_definitions r with (_, (_, t, _)) :: _ => Some t | [] => None end
                        | _ => None
                        end
             | _ => None
             end
  | _ => None
  end.

(* the literal 0 of (0..MAX) is folded away, the reference to 0 is not: different models *)
Example C12_refuted_reference_in_0_max_range_not_folded :
  first_def "M DEFINITIONS ::= BEGIN A ::= INTEGER (0..MAX) zero INTEGER ::= 0 END"
    = Some (TInteger (None, None, false) []) /\
  first_def "M DEFINITIONS ::= BEGIN A ::= INTEGER (zero..MAX) zero INTEGER ::= 0 END"
    = Some (TInteger (Some 0%Z, None, false) []).
Proof. split; vm_compute; reflexivity. Qed.

(* repaired (fb434d2 of /repo; before, SIZE(neg) with neg = -1 resolved to SIZE(2^64-1)): the reference to a
   negative value is a resolve error, like the literal -1 *)
Example C12_fixed_negative_size_reference_is_error :
  first_def "M DEFINITIONS ::= BEGIN A ::= OCTET STRING (SIZE(neg)) neg INTEGER ::= -1 END" = None /\
  first_def "M DEFINITIONS ::= BEGIN A ::= OCTET STRING (SIZE(-1)) neg INTEGER ::= -1 END" = None /\
  op_3301 dev_mode (txt "M DEFINITIONS ::= BEGIN A ::= OCTET STRING (SIZE(neg)) neg INTEGER ::= -1 END")
  = (1 :: 2 :: 2 :: 9 :: map Z.of_N (s2n "name: neg"))%Z.
Proof. repeat split; vm_compute; reflexivity. Qed.

Example C12_refuted_reference_in_size_0_max_extensible_accepted :
  first_def "M DEFINITIONS ::= BEGIN A ::= OCTET STRING (SIZE(zero..MAX, ...)) zero INTEGER ::= 0 END"
    = Some (TOctetString (SRange 0 9223372036854775807 true)) /\
  first_def "M DEFINITIONS ::= BEGIN A ::= OCTET STRING (SIZE(0..MAX, ...)) zero INTEGER ::= 0 END" = None.
Proof. split; vm_compute; reflexivity. Qed.

(* two modules importing an undefined name from each other: the lookup does not return (process abort, `3 32`) *)
Example C12_refuted_cyclic_import_diverges :
  let m1 := txt "M DEFINITIONS ::= BEGIN IMPORTS x FROM N; A ::= INTEGER (0..x) END" in
  let m2 := txt "N DEFINITIONS ::= BEGIN IMPORTS x FROM M; B ::= BOOLEAN END" in
  op_3302 dev_mode ([2; Z.of_nat (length m1)] ++ m1 ++ [Z.of_nat (length m2)] ++ m2)%Z = [3; 32]%Z.
Proof. vm_compute. reflexivity. Qed.

(* non-vacuity of the hypotheses: a reference imported by OID from a sibling that is loaded first *)
Example C12_nonvacuous :
  let lib := txt "Lib { iso(1) 5 } DEFINITIONS ::= BEGIN hi INTEGER ::= 9 END" in
  let m := txt "M DEFINITIONS ::= BEGIN IMPORTS hi FROM Elsewhere { iso(1) 5 }; A ::= INTEGER (0..hi) END" in
  let ml := txt "M DEFINITIONS ::= BEGIN IMPORTS hi FROM Elsewhere { iso(1) 5 }; A ::= INTEGER (0..9) END" in
  op_3302 dev_mode ([2; Z.of_nat (length lib)] ++ lib ++ [Z.of_nat (length m)] ++ m)%Z
  = op_3302 dev_mode ([2; Z.of_nat (length lib)] ++ lib ++ [Z.of_nat (length ml)] ++ ml)%Z
  /\ hd 1%Z (op_3302 dev_mode ([2; Z.of_nat (length lib)] ++ lib ++ [Z.of_nat (length m)] ++ m)%Z) = 0%Z.
Proof. split; vm_compute; reflexivity. Qed.

(* ---- non-vacuity of the module-level theorems, on parsed module texts ---- *)

Definition parsed (s : string) : option umodel :=
  match tokenize dev_mode (s2n s) with
  | Ok ts => match parse ts with POk u => Some u | _ => None end
  | _ => None
  end.

(* imports by OID (under another module name) and by name, local binding `lo`, all three kinds of use site, a DEFAULT
   that is an ENUMERATED item (kept by lit_scope: the F12 exception), load order with the library last: the
   literalization of the parsed referencing module set IS the parsed literal module set *)
Definition T_lib : string := "Lib { iso(1) 5 } DEFINITIONS ::= BEGIN hi INTEGER ::= 9 len INTEGER ::= 4 END".
Definition T_other : string := "Other DEFINITIONS ::= BEGIN dflt INTEGER ::= 7 Color ::= ENUMERATED { red, green } END".
Definition T_ref : string := "M DEFINITIONS ::= BEGIN IMPORTS hi, len FROM Elsewhere { iso(1) 5 } dflt, Color FROM Other; A ::= SEQUENCE { a INTEGER (0..hi), b OCTET STRING (SIZE(1..len)), c INTEGER DEFAULT dflt, d Color DEFAULT green, e SEQUENCE (SIZE(len)) OF BOOLEAN } lo INTEGER ::= 2 B ::= INTEGER (lo..hi) END".
Definition T_lit : string := "M DEFINITIONS ::= BEGIN IMPORTS hi, len FROM Elsewhere { iso(1) 5 } dflt, Color FROM Other; A ::= SEQUENCE { a INTEGER (0..9), b OCTET STRING (SIZE(1..4)), c INTEGER DEFAULT 7, d Color DEFAULT green, e SEQUENCE (SIZE(4)) OF BOOLEAN } lo INTEGER ::= 2 B ::= INTEGER (2..9) END".

Example C12_subst_nonvacuous :
  exists lib other m_ref m_lit rs,
    parsed T_lib = Some lib /\ parsed T_other = Some other /\ parsed T_ref = Some m_ref /\ parsed T_lit = Some m_lit /\
    lit_scope [other; m_ref; lib] = [other; m_lit; lib] /\
    Forall2 (abs_model [other; m_lit; lib]) [other; m_lit; lib] [other; m_ref; lib] /\
    m_ref <> m_lit /\
    resolve_all [other; m_ref; lib] = ROk rs /\ resolve_all [other; m_lit; lib] = ROk rs.
Proof.
  do 5 eexists.
  split; [vm_compute; reflexivity|]. split; [vm_compute; reflexivity|].
  split; [vm_compute; reflexivity|]. split; [vm_compute; reflexivity|].
  match goal with |- ?A = ?B /\ _ => assert (E : A = B) by (vm_compute; reflexivity) end.
  split; [exact E|]. split; [rewrite <- E; apply lit_scope_abs|].
  split; [intros H; inversion H|].
  split; vm_compute; reflexivity.
Qed.

(* a dangling reference / a BOOLEAN used as SIZE, deep inside a definition *)
Definition T_bad : string := "M DEFINITIONS ::= BEGIN IMPORTS nope FROM Lib; A ::= SEQUENCE { a BOOLEAN, b CHOICE { x INTEGER (0..nope) } } END".
Definition T_bad2 : string := "M DEFINITIONS ::= BEGIN IMPORTS flag FROM Lib; A ::= SEQUENCE { a BOOLEAN, b SET OF OCTET STRING (SIZE(flag)) } END".
Definition T_lib2 : string := "Lib DEFINITIONS ::= BEGIN flag BOOLEAN ::= TRUE END".

Example C12_error_nonvacuous :
  exists lib m1 m2,
    parsed T_lib2 = Some lib /\ parsed T_bad = Some m1 /\ parsed T_bad2 = Some m2 /\
    model_site (ref_unresolved [lib; m1] m1) (ref_unresolved [lib; m1] m1) (ref_unresolved_default [lib; m1] m1) m1 /\
    model_site (ref_non_integer [lib; m2] m2) (ref_non_size [lib; m2] m2) (fun _ _ => False) m2.
Proof.
  do 3 eexists.
  split; [vm_compute; reflexivity|]. split; [vm_compute; reflexivity|]. split; [vm_compute; reflexivity|].
  split.
  - eapply site_definition; [left; reflexivity|]. apply site_asn_ty.
    eapply site_Sequence_ty; [right; left; reflexivity|].
    eapply site_Choice; [left; reflexivity|]. apply site_Integer_hi. vm_compute. reflexivity.
  - eapply site_definition; [left; reflexivity|]. apply site_asn_ty.
    eapply site_Sequence_ty; [right; left; reflexivity|].
    apply site_SetOf_ty. apply site_OctetString. apply site_SFix.
    eexists. split; [vm_compute; reflexivity|]. intros v H; discriminate.
Qed.

(* REFUTED without the uniqueness condition: two loaded modules called Lib both define x; the one loaded first wins *)
Definition T_l1 : string := "Lib DEFINITIONS ::= BEGIN x INTEGER ::= 1 END".
Definition T_l2 : string := "Lib DEFINITIONS ::= BEGIN x INTEGER ::= 2 END".
Definition T_m : string := "M DEFINITIONS ::= BEGIN IMPORTS x FROM Lib; A ::= INTEGER (0..x) END".
Definition set3 (a b c : string) : list Z :=
  ([3; Z.of_nat (length (txt a))] ++ txt a ++ [Z.of_nat (length (txt b))] ++ txt b ++ [Z.of_nat (length (txt c))] ++ txt c)%Z.

Example C12_refuted_load_order_matters_with_duplicate_module_names :
  exists l1 l2 m r12 r21,
    parsed T_l1 = Some l1 /\ parsed T_l2 = Some l2 /\ parsed T_m = Some m /\
    resolve_model [l1; l2; m] m = ROk r12 /\ resolve_model [l2; l1; m] m = ROk r21 /\ r12 <> r21 /\
    m_definitions r12 = [(s2n "A", (None, TInteger (Some 0%Z, Some 1%Z, false) [], None))] /\
    m_definitions r21 = [(s2n "A", (None, TInteger (Some 0%Z, Some 2%Z, false) [], None))] /\
    op_3302 dev_mode (set3 T_l1 T_l2 T_m) <> op_3302 dev_mode (set3 T_l2 T_l1 T_m).
Proof.
  do 5 eexists.
  split; [vm_compute; reflexivity|]. split; [vm_compute; reflexivity|]. split; [vm_compute; reflexivity|].
  split; [vm_compute; reflexivity|]. split; [vm_compute; reflexivity|].
  split; [intros H; inversion H|].
  split; [vm_compute; reflexivity|]. split; [vm_compute; reflexivity|].
  vm_compute. intros H; inversion H.
Qed.

(* the uniqueness condition holds for the module set of C12_subst_nonvacuous *)
Example C12_order_nonvacuous :
  exists lib other m_ref,
    parsed T_lib = Some lib /\ parsed T_other = Some other /\ parsed T_ref = Some m_ref /\
    (forall m, In m [lib; other; m_ref] -> unique_targets [lib; other; m_ref] m) /\
    Permutation [lib; other; m_ref] [m_ref; other; lib] /\
    exists rs, resolve_all [lib; other; m_ref] = ROk rs.
Proof.
  do 3 eexists.
  split; [vm_compute; reflexivity|]. split; [vm_compute; reflexivity|]. split; [vm_compute; reflexivity|].
  split.
  - intros m Hm imp m1 m2 Himp H1 H2 Hp1 Hp2.
    cbn [In] in Hm, H1, H2.
    destruct Hm as [Hm|[Hm|[Hm|[]]]]; subst m; cbn [m_imports In] in Himp; try contradiction.
    destruct Himp as [Himp|[Himp|[]]]; subst imp;
    destruct H1 as [H1|[H1|[H1|[]]]]; subst m1; destruct H2 as [H2|[H2|[H2|[]]]]; subst m2;
      try reflexivity; vm_compute in Hp1; vm_compute in Hp2; discriminate.
  - split.
    + apply Permutation_rev.
    + eexists. vm_compute. reflexivity.
Qed.

Print Assumptions C12_subst_bound_partial.
Print Assumptions C12_subst_size_bound_partial.
Print Assumptions C12_subst_default_partial.
Print Assumptions C12_unresolved_is_error.
Print Assumptions C12_non_integer_is_error.
Print Assumptions C12_refuted_reference_in_0_max_range_not_folded.
Print Assumptions C12_negative_size_is_error.
Print Assumptions C12_fixed_negative_size_reference_is_error.
Print Assumptions C12_refuted_reference_in_size_0_max_extensible_accepted.
Print Assumptions C12_refuted_cyclic_import_diverges.
Print Assumptions C12_subst_type.
Print Assumptions C12_subst_definition.
Print Assumptions C12_subst_module.
Print Assumptions C12_subst_all.
Print Assumptions C12_literalize_type.
Print Assumptions C12_literalize_module.
Print Assumptions C12_literalize_all.
Print Assumptions C12_literalize_is_abstraction.
Print Assumptions C12_literalize_complete_type.
Print Assumptions C12_literalize_complete_module.
Print Assumptions C12_unresolved_is_error_type.
Print Assumptions C12_unresolved_is_error_module.
Print Assumptions C12_unresolved_is_error_all.
Print Assumptions C12_non_integer_is_error_type.
Print Assumptions C12_non_integer_is_error_module.
Print Assumptions C12_non_integer_is_error_all.
Print Assumptions C12_order_irrelevant_module.
Print Assumptions C12_order_irrelevant_all.
Print Assumptions C12_order_irrelevant_all_error.
Print Assumptions C12_subst_nonvacuous.
Print Assumptions C12_error_nonvacuous.
Print Assumptions C12_refuted_load_order_matters_with_duplicate_module_names.
Print Assumptions C12_order_nonvacuous.
Print Assumptions C12_enum_default_precedence.
Print Assumptions C12_enum_default_other_item_is_value.
Print Assumptions C12_non_reference_default_is_value.
Print Assumptions C12_enum_default_precedence_nonvacuous.
