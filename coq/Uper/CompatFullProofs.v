(* C05 end to end: schema pairs related by appended extension additions (SEQUENCE/SET), extension
   alternatives (CHOICE) or extension values (ENUMERATED); the reader of one version on the
   reference encoding of the other.  Built on the decomposition of [enc] in Uper/Proofs.v. *)
From A1 Require Import Uper.Spec Uper.Proofs Uper.CompatProofs.
From A1 Require Import Bits.Proofs.
From A1 Require Import Per.Proofs.
Require Import ZifyBool ZifyNat ZifyN.
Local Open Scope N_scope.

(** * the relation between the two schema versions *)
Definition optk (f : fkind * ty) : Prop := is_optk (fst f) = true.

Inductive extends : ty -> ty -> Prop :=
| ext_seq fs adds so fc ea :
    wf_ty (TSeq fs so fc (Some ea)) ->
    wf_ty (TSeq (fs ++ adds) so (fc + N.of_nat (length adds)) (Some ea)) ->
    Forall optk adds ->      (* an addition the older version does not know is OPTIONAL or DEFAULT *)
    extends (TSeq fs so fc (Some ea)) (TSeq (fs ++ adds) so (fc + N.of_nat (length adds)) (Some ea))
| ext_choice alts more std :
    wf_ty (TChoice alts std true) -> wf_ty (TChoice (alts ++ more) std true) ->
    extends (TChoice alts std true) (TChoice (alts ++ more) std true)
| ext_enum vc k std :
    wf_ty (TEnum vc std true) -> wf_ty (TEnum (vc + k) std true) ->
    extends (TEnum vc std true) (TEnum (vc + k) std true).

(* what the newer reader reports for an addition that was not transmitted *)
Definition pad_of (adds : list (fkind * ty)) : list (option val) :=
  map (fun f => match fst f with FDef d => Some d | _ => None end) adds.

(* a V1 value seen under V2 *)
Definition pad_absent (V1 V2 : ty) (v : val) : val :=
  match V1, V2, v with
  | TSeq fs1 _ _ _, TSeq fs2 _ _ _, VSeq vals => VSeq (vals ++ pad_of (skipn (length fs1) fs2))
  | _, _, _ => v
  end.
(* a V2 value seen under V1 *)
Definition project_root (V1 V2 : ty) (v : val) : val :=
  match V1, v with
  | TSeq fs1 _ _ _, VSeq vals => VSeq (firstn (length fs1) vals)
  | _, _ => v
  end.
(* the alternative / item of a V2 value exists in V1 *)
Definition known_index (V1 : ty) (v : val) : Prop :=
  match V1, v with
  | TChoice alts _ _, VChoice i _ => i < N.of_nat (length alts)
  | TEnum vc _ _, VEnum i => i < vc
  | _, _ => True
  end.

(** * ENUMERATED *)
Lemma enum_forward m vc k std i bs s tail :
  wf_ty (TEnum (vc + k) std true) -> i < vc ->
  enc m (TEnum vc std true) (VEnum i) = Ok bs -> rsrc s bs tail ->
  read_ty m (TEnum (vc + k) std true) (r_of_src s) = Ok (VEnum i, r_of_src (src_adv s (bl bs) tail)).
Proof.
  intros Hty Hi He Hs.
  apply (read_enc m (TEnum (vc + k) std true) Hty (VEnum i) bs He); [cbn [wf_val]; lia|intros C; exact C|exact Hs].
Qed.

Lemma enum_backward m vc k std i bs s tail :
  wf_ty (TEnum vc std true) -> wf_ty (TEnum (vc + k) std true) -> i < vc + k ->
  enc m (TEnum (vc + k) std true) (VEnum i) = Ok bs -> rsrc s bs tail ->
  (i < vc -> read_ty m (TEnum vc std true) (r_of_src s) = Ok (VEnum i, r_of_src (src_adv s (bl bs) tail))) /\
  (~ i < vc -> read_ty m (TEnum vc std true) (r_of_src s) = Err E_INVALID_CHOICE).
Proof.
  intros Hty1 Hty2 Hi He Hs. split.
  - intros Hk. apply (read_enc m (TEnum vc std true) Hty1 (VEnum i) bs He); [exact Hk|intros C; exact C|exact Hs].
  - intros Hk. cbn [wf_ty] in Hty2. destruct Hty2 as (H1 & H2 & H3 & _).
    assert (Hstd : std < two64) by (unfold SIZE_LIMIT in H3; unfold two64; lia).
    assert (Hix : i < two64) by (unfold SIZE_LIMIT in H3; unfold two64; lia).
    cbn [enc] in He.
    destruct (x_index std true i) as [xb|] eqn:Ex.
    2:{ rewrite (index_reject m std true i Ex) in He. discriminate He. }
    rewrite (index_write m std true i xb Hstd Hix Ex) in He. injection He as <-.
    cbn [read_ty]. rewrite rentry_none' by reflexivity. cbn [bind].
    rewrite rwith_buffer_none by reflexivity.
    rewrite r_get_of_src, (index_read m std true i xb s tail Hstd Hix Ex (proj1 Hs)). cbn [bind].
    destruct (N.ltb_spec i vc); [lia|reflexivity].
Qed.

(** * CHOICE *)
Lemma enc_choice_eq m alts std ext i x :
  enc m (TChoice alts std ext) (VChoice i x) =
  let! ib := w_enumeration_index m std ext i in
  let! cb := enc_pick m x alts (N.to_nat i) in
  if std <=? i then let! wb := wrap_open m cb in Ok (ib ++ wb) else Ok (ib ++ cb).
Proof. reflexivity. Qed.

Lemma pick_wf_lt x : forall alts n, pick_wf x alts n -> (n < length alts)%nat.
Proof.
  induction alts as [|a alts IH]; intros [|n] H; cbn [pick_wf length] in *; try contradiction; [lia|].
  apply IH in H. lia.
Qed.
Lemma enc_pick_app m x more : forall alts n, (n < length alts)%nat ->
  enc_pick m x (alts ++ more) n = enc_pick m x alts n.
Proof.
  induction alts as [|a alts IH]; intros [|n] H; cbn [length] in H; try lia; cbn [app enc_pick]; [reflexivity|].
  apply IH. lia.
Qed.
Lemma pick_wf_app x more : forall alts n, (n < length alts)%nat ->
  (pick_wf x (alts ++ more) n <-> pick_wf x alts n).
Proof.
  induction alts as [|a alts IH]; intros [|n] H; cbn [length] in H; try lia; cbn [app pick_wf]; [tauto|].
  apply IH. lia.
Qed.
Lemma pick_known_app m std i x more : forall alts n, (n < length alts)%nat ->
  (pick_known m std i x (alts ++ more) n <-> pick_known m std i x alts n).
Proof.
  induction alts as [|a alts IH]; intros [|n] H; cbn [length] in H; try lia; cbn [app pick_known]; [tauto|].
  apply IH. lia.
Qed.

Lemma choice_same m alts more std i x : (N.to_nat i < length alts)%nat ->
  enc m (TChoice (alts ++ more) std true) (VChoice i x) = enc m (TChoice alts std true) (VChoice i x) /\
  (wf_val (TChoice (alts ++ more) std true) (VChoice i x) <-> wf_val (TChoice alts std true) (VChoice i x)) /\
  (Known_C01 m (TChoice (alts ++ more) std true) (VChoice i x) <-> Known_C01 m (TChoice alts std true) (VChoice i x)).
Proof.
  intros Hi. split; [|split].
  - rewrite !enc_choice_eq, enc_pick_app by exact Hi. reflexivity.
  - apply (pick_wf_app x more alts _ Hi).
  - apply (pick_known_app m std i x more alts _ Hi).
Qed.

Lemma choice_forward m alts more std v bs s tail :
  wf_ty (TChoice (alts ++ more) std true) ->
  wf_val (TChoice alts std true) v -> ~ Known_C01 m (TChoice alts std true) v ->
  enc m (TChoice alts std true) v = Ok bs -> rsrc s bs tail ->
  read_ty m (TChoice (alts ++ more) std true) (r_of_src s) = Ok (v, r_of_src (src_adv s (bl bs) tail)).
Proof.
  intros Hty Hv Hk He Hs. destruct v as [| | | | | | | |i x|]; try contradiction Hv.
  assert (Hi : (N.to_nat i < length alts)%nat) by (apply (pick_wf_lt x), Hv).
  destruct (choice_same m alts more std i x Hi) as (E1 & E2 & E3).
  apply (read_enc m _ Hty (VChoice i x) bs); [rewrite E1; exact He|apply E2; exact Hv|rewrite E3; exact Hk|exact Hs].
Qed.

Lemma choice_backward m alts more std v bs s tail :
  wf_ty (TChoice alts std true) -> wf_ty (TChoice (alts ++ more) std true) ->
  wf_val (TChoice (alts ++ more) std true) v -> ~ Known_C01 m (TChoice (alts ++ more) std true) v ->
  enc m (TChoice (alts ++ more) std true) v = Ok bs -> rsrc s bs tail ->
  (known_index (TChoice alts std true) v ->
     read_ty m (TChoice alts std true) (r_of_src s) = Ok (v, r_of_src (src_adv s (bl bs) tail))) /\
  (~ known_index (TChoice alts std true) v ->
     read_ty m (TChoice alts std true) (r_of_src s) = Err E_INVALID_CHOICE).
Proof.
  intros Hty1 Hty2 Hv Hk He Hs. destruct v as [| | | | | | | |i x|]; try contradiction Hv.
  cbn [known_index]. split.
  - intros Hi. assert (Hi' : (N.to_nat i < length alts)%nat) by lia.
    destruct (choice_same m alts more std i x Hi') as (E1 & E2 & E3).
    apply (read_enc m _ Hty1 (VChoice i x) bs); [rewrite <- E1; exact He|apply E2; exact Hv|rewrite <- E3; exact Hk|exact Hs].
  - intros Hi.
    cbn [wf_ty] in Hty1. destruct Hty1 as (A1 & A2 & _).
    cbn [wf_ty] in Hty2. destruct Hty2 as (H1 & H2 & H3 & H4 & Hta). fold all_wf_ty in Hta.
    assert (Hext : std <= i) by lia.
    rewrite enc_choice_eq in He.
    destruct (w_enumeration_index m std true i) as [ib| |] eqn:Ei; cbn [bind] in He; try discriminate He.
    destruct (enc_pick m x (alts ++ more) (N.to_nat i)) as [cb| |] eqn:Ec; cbn [bind] in He; try discriminate He.
    change (pick_wf x (alts ++ more) (N.to_nat i)) in Hv.
    change (~ pick_known m std i x (alts ++ more) (N.to_nat i)) in Hk.
    assert (F : Forall (Rprop m) (alts ++ more)) by (apply Forall_forall; intros a _; apply read_enc).
    destruct (rpick_spec m i std x (alts ++ more) F Hta (N.to_nat i) cb Ec Hv Hk) as (Hlt & Hsmall & _).
    specialize (Hsmall Hext).
    assert (Hstd : std < two64) by (unfold SIZE_LIMIT in H3; unfold two64; lia).
    assert (Hix : i < two64) by (unfold SIZE_LIMIT in H3; unfold two64; lia).
    destruct (x_index std true i) as [xb|] eqn:Ex.
    2:{ rewrite (index_reject m std true i Ex) in Ei. discriminate Ei. }
    rewrite (index_write m std true i xb Hstd Hix Ex) in Ei. injection Ei as <-.
    rewrite (proj2 (N.leb_le std i) Hext) in He.
    destruct (wrap_open m cb) as [wb| |] eqn:Ew; cbn [bind] in He; try discriminate He. injection He as <-.
    pose proof (wrap_open_small m cb wb Ew Hsmall) as Ewb.
    apply rsrc_split in Hs. destruct Hs as [Hs1 Hs2].
    cbn [read_ty]. rewrite rentry_none' by reflexivity. cbn [bind].
    unfold rscope_stashed. change (r_set_scope (r_of_src s) None) with (r_of_src s).
    rewrite r_get_of_src, (index_read m std true i xb s _ Hstd Hix Ex (proj1 Hs1)). cbn [bind].
    rewrite (proj2 (N.leb_le std i) Hext).
    set (n := (bl cb + 7) / 8) in *.
    subst wb. apply rsrc_split in Hs2. destruct Hs2 as [Hs2 Hs3].
    assert (Exl : x_length None None n = Some (x_len_first n)).
    { unfold x_length. destruct (N.leb_spec 0 n); [reflexivity|lia]. }
    rewrite <- (x_len_first_short n Hsmall) in Hs2 |- *.
    rewrite r_get_of_src.
    rewrite (length_read m None None n _ _ _ ltac:(intros C; apply C; reflexivity) Exl (proj1 Hs2)).
    unfold len_result, len_frag. rewrite frag_of_short by exact Hsmall. cbn [bind].
    unfold read_whole_sub_slice. cbn [r_src r_of_src].
    assert (U1 : umul m n BYTE_LEN = Ok (8 * n)).
    { unfold umul, BYTE_LEN. destruct (N.ltb_spec (n * 8) two64) as [L|L]; [f_equal; lia|unfold two64 in L; lia]. }
    rewrite U1. cbn [bind].
    destruct Hs3 as [(_ & HL & _) (_ & H64)]. rewrite bl_app in HL.
    assert (Hpad : bl cb + bl (repeat false (pad8 (length cb))) = 8 * n).
    { pose proof (f_equal bl (bits_of_bytes_of_bits cb)) as EL. rewrite bits_len8, bytes_of_bits_len, bl_app in EL.
      fold n in EL. lia. }
    rewrite uadd_ok by (rewrite (x_len_first_short n Hsmall) in *; lia). cbn [bind].
    destruct (N.leb_spec (N.of_nat (length alts)) i) as [L|L]; [|lia].
    reflexivity.
Qed.

(** * SEQUENCE / SET *)
(** ** small list facts *)
Lemma firstn_add {A} (l : list A) a b : firstn (a + b) l = firstn a l ++ firstn b (skipn a l).
Proof.
  revert l. induction a as [|a IH]; intros [|x l]; cbn [Nat.add firstn skipn app]; try reflexivity.
  - rewrite firstn_nil. reflexivity.
  - rewrite IH. reflexivity.
Qed.
Lemma firstn_app_exact {A} (a b : list A) n : n = length a -> firstn n (a ++ b) = a.
Proof. intros ->. rewrite firstn_app, Nat.sub_diag, firstn_all. cbn [firstn]. apply app_nil_r. Qed.
Lemma split_at {A} (l : list A) k : (k <= length l)%nat -> exists a b, l = a ++ b /\ length a = k.
Proof.
  intros H. exists (firstn k l), (skipn k l). split; [symmetry; apply firstn_skipn|].
  apply firstn_skipn_len. exact H.
Qed.
Lemma frev3 {A} (a b c : list A) : frev (rev c ++ rev b ++ rev a ++ []) = a ++ b ++ c.
Proof.
  unfold frev. rewrite rev_append_rev, !app_nil_r, !rev_app_distr, !rev_involutive, <- app_assoc. reflexivity.
Qed.

Lemma add_payloads_app m : forall a b fa fb, length fa = length a ->
  add_payloads m (a ++ b) (fa ++ fb) =
  let! x := add_payloads m a fa in let! y := add_payloads m b fb in Ok (x ++ y).
Proof.
  induction a as [|[k ft] a IH]; intros b [|[p bb] fa] fb H; try discriminate H.
  - cbn [app add_payloads bind]. destruct (add_payloads m b fb); reflexivity.
  - cbn [app add_payloads]. cbn [length] in H. rewrite IH by lia.
    destruct (if p && wraps k ft then wrap_open m bb else Ok bb) as [x| |]; cbn [bind]; try reflexivity.
    destruct (add_payloads m a fa) as [y| |]; cbn [bind]; try reflexivity.
    destruct (add_payloads m b fb) as [z| |]; cbn [bind]; try reflexivity.
    rewrite app_assoc. reflexivity.
Qed.

Lemma ext_part_true m afs afe xp : ext_part m afs afe = Ok (true, xp) ->
  exists b1 rest ns ap, afe = (true, b1) :: rest /\
    w_normally_small m (N.of_nat (length afe) - 1) = Ok ns /\
    add_payloads m afs afe = Ok ap /\ xp = ns ++ map fst afe ++ ap.
Proof.
  unfold ext_part. destruct afe as [|[p1 b1] rest]; [discriminate|].
  destruct p1; [|destruct (existsb fst rest); discriminate].
  destruct (w_normally_small m _) as [ns| |] eqn:Ens; cbn [bind]; try discriminate.
  destruct (add_payloads m afs _) as [ap| |] eqn:Eap; cbn [bind]; try discriminate.
  intros H. injection H as <-. exists b1, rest, ns, ap. repeat split; assumption || reflexivity.
Qed.

(** ** components the reader knows beyond the transmitted ones are absent *)
Definition absent_scope (sc : scope) : Prop :=
  match sc with
  | AllBitField a b | OptBitField a b => b <= a
  | ExtSeqEmpty => True
  | ExtSeq _ _ _ _ => False
  end.

Lemma entry_absent m s' sc o : absent_scope sc ->
  read_from_field m (mk_r s' sc) sc o = Ok (inl (Some false), mk_r s' sc).
Proof.
  destruct sc as [a b|a b|bp opt c nx|]; cbn [absent_scope]; intros H; try contradiction.
  - apply entry_tail_r. exact H.
  - cbn [read_from_field]. apply beyond_transmitted_is_absent. exact H.
  - reflexivity.
Qed.

Lemma beyond_walk m : forall rx s' sc acc, Forall optk rx -> absent_scope sc ->
  rwalk m rx (mk_r s' sc) acc = Ok (rev (pad_of rx) ++ acc, mk_r s' sc).
Proof.
  induction rx as [|[k ft] rx IH]; intros s' sc acc F Hsc; [reflexivity|].
  apply Forall_cons_iff in F. destruct F as [Hk F]. unfold optk in Hk. cbn [fst] in Hk.
  assert (He : read_bit_field_entry m (mk_r s' sc) true = Ok (Some false, mk_r s' sc)).
  { unfold read_bit_field_entry, read_bit_field_entry_st. cbn [r_scope mk_r].
    rewrite (entry_absent m s' sc true Hsc). reflexivity. }
  cbn [rwalk]. destruct k as [| |d]; [discriminate Hk| |]; cbn [rfield]; rewrite He; cbn [bind];
    rewrite (IH s' sc _ F Hsc); cbn [pad_of map fst rev]; rewrite <- app_assoc; reflexivity.
Qed.

Lemma beyond_or_nil m rx s' sc acc : Forall optk rx -> (rx = [] \/ absent_scope sc) ->
  rwalk m rx (mk_r s' sc) acc = Ok (rev (pad_of rx) ++ acc, mk_r s' sc).
Proof.
  intros F [->|H]; [reflexivity|]. apply beyond_walk; assumption.
Qed.

(** ** the first transmitted addition: the local addition count [nx'] plays no role, the range
       of presence bits is the transmitted one *)
Lemma entry_trans_r_gen m s' bp opt nx nx' (o : bool) ns fl ap tl :
  r_bit_at s' bp = Ok true -> 1 <= nx -> nx < SIZE_LIMIT ->
  w_normally_small m (nx - 1) = Ok ns -> rsrc s' (ns ++ (true :: fl) ++ ap) tl -> bl fl + 1 = nx ->
  read_from_field m (mk_r s' (ExtSeq bp opt 0 nx')) (ExtSeq bp opt 0 nx') o =
  Ok (inl (Some true),
      mk_r (src_adv s' (bl (ns ++ true :: fl)) (ap ++ tl))
           (AllBitField (s_pos s' + bl ns + 1) (s_pos s' + bl ns + nx))).
Proof.
  intros Hbit H1 Hlim Hns Hs Hfl.
  assert (Hv : nx - 1 < two64) by (unfold SIZE_LIMIT in Hlim; unfold two64; lia).
  rewrite normally_small_write in Hns by exact Hv. injection Hns as <-.
  cbn [read_from_field]. change (0 =? 0) with true. cbv iota.
  unfold bit_at at 1. cbn [r_src mk_r]. rewrite Hbit. cbn [bind].
  pose proof Hs as Hs0. apply rsrc_split in Hs. destruct Hs as [Hs1 Hs2].
  rewrite (normally_small_read m (nx - 1) s' _ Hv (proj1 Hs1)).
  rewrite ?uadd_ok by (unfold two64, SIZE_LIMIT in *; lia). cbn [bind r_src r_set_src mk_r].
  replace (nx - 1 + 1) with nx by lia.
  rewrite ?(N.min_l nx (two64 - 1)) by (unfold two64, SIZE_LIMIT in *; lia).
  set (ns := x_normally_small (nx - 1)) in *.
  match goal with |- context [src_set_pos ?S1 _] => set (s1 := S1) end.
  change (s_pos s1) with (s_pos s' + bl ns).
  assert (Hrs : rsrc s' (ns ++ true :: fl) (ap ++ tl)).
  { destruct Hs0 as [(R & L & T) O]. split; [|exact O].
    split; [rewrite R; rewrite <- !app_assoc; cbn [app]; rewrite <- ?app_assoc; reflexivity|].
    rewrite !bl_app in *. rewrite !bl_cons in *. split; lia. }
  assert (Hstop : N.min (s_pos s' + bl ns + nx) (two64 - 1) = s_pos s' + bl (ns ++ true :: fl)).
  { destruct Hrs as [(_ & L & _) (_ & H64)]. rewrite bl_app, bl_cons in *. lia. }
  rewrite Hstop.
  rewrite (src_set_pos_end s' s1 (ns ++ true :: fl) (ap ++ tl) Hrs) by apply same_buf_adv.
  cbn [read_from_field_simple].
  destruct (N.ltb_spec (s_pos s' + bl ns) (s_pos s' + bl (ns ++ true :: fl))) as [L|L];
    [|rewrite bl_app, bl_cons in L; lia].
  unfold bit_at. cbn [r_src r_set_scope r_set_src].
  rewrite (bit_at_spec s' ns true fl (ap ++ tl) _ Hrs (same_buf_adv _ _ _)). cbn [bind].
  replace (s_pos s' + bl (ns ++ true :: fl)) with (s_pos s' + bl ns + nx) by (rewrite bl_app, bl_cons; lia).
  reflexivity.
Qed.

(** ** skipping the additions the reader does not know *)
Lemma present_small m k ft ov b0 : is_optk k = true ->
  enc_field m (k, ft) ov = Ok (true, b0) -> fld_ok m true k ft ov -> (bl b0 + 7) / 8 < 16384.
Proof.
  intros Hk Ef Hf. assert (Hw : wraps k ft = true) by (destruct k; [discriminate Hk|reflexivity|reflexivity]).
  destruct ov as [x|].
  - cbn [fld_ok] in Hf. destruct Hf as [_ Hf].
    assert (Hx : enc m ft x = Ok b0 /\ encoded k x).
    { destruct k as [| |d]; [discriminate Hk| |]; cbn [enc_field encoded] in *.
      - destruct (enc m ft x) as [b| |]; cbn [bind] in Ef; try discriminate Ef. injection Ef as <-.
        split; [reflexivity|exact I].
      - destruct (val_eqb d x); [discriminate Ef|].
        destruct (enc m ft x) as [b| |]; cbn [bind] in Ef; try discriminate Ef. injection Ef as <-.
        split; reflexivity. }
    destruct Hx as [He Hen]. destruct (Hf Hen) as [_ Hbig].
    destruct (N.lt_ge_cases ((bl b0 + 7) / 8) 16384) as [L|L]; [exact L|]. exfalso.
    apply (Hbig eq_refl Hw). exists b0. split; assumption.
  - destruct k as [| |d]; [discriminate Hk| |]; cbn [enc_field] in Ef; discriminate Ef.
Qed.

Lemma skip_loop_spec m s0 sc : forall wx valsX fes ap a s' tl fuel,
  flds_ok m true wx valsX -> Forall optk wx -> enc_fields m wx valsX = Ok fes ->
  add_payloads m wx fes = Ok ap ->
  bits_at s0 a (map fst fes) -> same_buf s0 s' -> rsrc s' ap tl ->
  (length wx < fuel)%nat ->
  skip_unknown_loop fuel m (mk_r s' sc) a (a + N.of_nat (length wx)) = Ok (mk_r (src_adv s' (bl ap) tl) sc).
Proof.
  induction wx as [|[k ft] wx IH]; intros valsX fes ap a s' tl fuel Hok Fo He Hap Hbits Hsb Hs Hfuel.
  - destruct valsX; [|contradiction Hok]. cbn in He. injection He as <-. cbn in Hap. injection Hap as <-.
    cbn [length]. change (N.of_nat 0) with 0. rewrite N.add_0_r, skip_loop_done by lia.
    rewrite bl_nil, (src_adv_nil _ _ (proj1 Hs)). reflexivity.
  - destruct valsX as [|ov valsX]; [contradiction Hok|]. cbn [flds_ok] in Hok.
    destruct Hok as [(HR & Hty & Hd & Hf) Hok].
    apply Forall_cons_iff in Fo. destruct Fo as [Hk Fo]. unfold optk in Hk. cbn [fst] in Hk.
    rewrite enc_fields_cons in He.
    destruct (enc_field m (k, ft) ov) as [[p b0]| |] eqn:Ef; cbn [bind] in He; try discriminate He.
    destruct (enc_fields m wx valsX) as [fes'| |] eqn:Er; cbn [bind] in He; try discriminate He. injection He as <-.
    cbn [add_payloads] in Hap.
    destruct (if p && wraps k ft then wrap_open m b0 else Ok b0) as [y| |] eqn:Ey; cbn [bind] in Hap; try discriminate Hap.
    destruct (add_payloads m wx fes') as [ap'| |] eqn:Eap; cbn [bind] in Hap; try discriminate Hap. injection Hap as <-.
    cbn [map fst] in Hbits. apply bits_at_cons in Hbits. destruct Hbits as [Hb1 Hb2].
    destruct fuel as [|fuel]; [lia|]. cbn [length] in Hfuel |- *.
    replace (a + N.of_nat (S (length wx))) with (a + 1 + N.of_nat (length wx)) by lia.
    destruct p.
    + (* present: skipped by the length of its open type *)
      assert (Hw : wraps k ft = true) by (destruct k; [discriminate Hk|reflexivity|reflexivity]).
      rewrite Hw in Ey. cbn [andb] in Ey.
      pose proof (present_small m k ft ov b0 Hk Ef Hf) as Hsm.
      pose proof (wrap_open_small m b0 y Ey Hsm) as Ey'.
      set (n := (bl b0 + 7) / 8) in *. set (pad := repeat false (pad8 (length b0))) in *.
      assert (Hpad : bl b0 + bl pad = 8 * n).
      { pose proof (f_equal bl (bits_of_bytes_of_bits b0)) as EL. rewrite bits_len8, bytes_of_bits_len, bl_app in EL.
        fold pad n in EL. lia. }
      assert (Hy : bl y = bl (x_len_short n) + 8 * n) by (rewrite Ey', !bl_app; lia).
      pose proof Hs as Hs0. apply rsrc_split in Hs. destruct Hs as [Hs1 Hs2].
      assert (Hs1' : rsrc s' (x_len_first n) ((b0 ++ pad) ++ ap' ++ tl)).
      { rewrite (x_len_first_short n Hsm). pose proof Hs1 as Q. rewrite Ey' in Q. apply rsrc_split in Q. exact (proj1 Q). }
      assert (Exl : x_length None None n = Some (x_len_first n)).
      { unfold x_length. destruct (N.leb_spec 0 n); [reflexivity|lia]. }
      set (S1 := src_adv s' (bl (x_len_first n)) ((b0 ++ pad) ++ ap' ++ tl)).
      assert (Hlen : r_get (mk_r s' sc) (r_length_determinant m None None) = Ok (n, mk_r S1 sc)).
      { unfold r_get. cbn [r_src mk_r].
        rewrite (length_read m None None n _ s' _ ltac:(intros C; apply C; reflexivity) Exl (proj1 Hs1')).
        unfold len_result, len_frag. rewrite frag_of_short by exact Hsm. reflexivity. }
      destruct Hs0 as [(_ & HL & _) (_ & H64)]. rewrite bl_app in HL.
      assert (HposS1 : s_pos S1 = s_pos s' + bl (x_len_short n)).
      { unfold S1. cbn [s_pos src_adv]. rewrite (x_len_first_short n Hsm). reflexivity. }
      assert (Efin : src_set_pos S1 (s_pos S1 + n * 8) = src_adv s' (bl y) (ap' ++ tl)).
      { replace (s_pos S1 + n * 8) with (s_pos s' + bl y) by lia.
        apply src_set_pos_end; [exact Hs1|apply same_buf_adv]. }
      rewrite (skip_present_step fuel m (mk_r s' sc) a (a + 1 + N.of_nat (length wx)) n (mk_r S1 sc)
                 ltac:(lia) (Hb1 s' Hsb) Hlen);
        [|unfold two64; lia
         |cbn [r_src mk_r]; unfold two64 in *; lia
         |cbn [r_src mk_r]; change (s_len S1) with (s_len s'); lia].
      unfold r_set_src. cbn [r_src r_scope mk_r]. rewrite Efin.
      rewrite bl_app, <- (src_adv_adv s' (bl y) (bl ap') (ap' ++ tl) tl).
      apply (IH valsX fes' ap' (a + 1) _ tl fuel Hok Fo Er Eap Hb2); [|exact Hs2|lia].
      eapply same_buf_trans; [exact Hsb|apply same_buf_adv].
    + (* absent: the walk moves to the next presence bit *)
      assert (b0 = []) by (eapply enc_field_absent; exact Ef). subst b0. cbn [andb] in Ey. injection Ey as <-.
      rewrite skip_absent_step; [|lia|cbn [r_src mk_r]; apply Hb1; exact Hsb].
      cbn [app] in *.
      apply (IH valsX fes' ap' (a + 1) s' tl fuel Hok Fo Er Eap Hb2 Hsb Hs). lia.
Qed.

Lemma skip_all_spec m s0 wx valsX fes ap a s' tl :
  flds_ok m true wx valsX -> Forall optk wx -> enc_fields m wx valsX = Ok fes ->
  add_payloads m wx fes = Ok ap ->
  bits_at s0 a (map fst fes) -> same_buf s0 s' -> rsrc s' ap tl ->
  a + N.of_nat (length wx) <= s_len s' ->
  skip_unknown_extension_additions m (mk_r s' (AllBitField a (a + N.of_nat (length wx))))
  = Ok (mk_r (src_adv s' (bl ap) tl) (AllBitField (a + N.of_nat (length wx)) (a + N.of_nat (length wx)))).
Proof.
  intros Hok Fo He Hap Hbits Hsb Hs Hle. unfold skip_unknown_extension_additions.
  cbn [r_scope mk_r r_src r_set_scope].
  refine (skip_loop_spec m s0 _ wx valsX fes ap a s' tl _ Hok Fo He Hap Hbits Hsb Hs _). lia.
Qed.

(* the reader knows no addition at all: the count and the presence bits are read by the skip itself *)
Lemma skip_ext0_spec m wx valsX fes ap ns bp opt nx s' tl :
  flds_ok m true wx valsX -> Forall optk wx -> enc_fields m wx valsX = Ok fes ->
  add_payloads m wx fes = Ok ap ->
  (1 <= length wx)%nat -> N.of_nat (length wx) < SIZE_LIMIT ->
  w_normally_small m (N.of_nat (length wx) - 1) = Ok ns ->
  rsrc s' (ns ++ map fst fes ++ ap) tl ->
  skip_unknown_extension_additions m (mk_r s' (ExtSeq bp opt 0 nx))
  = Ok (mk_r (src_adv s' (bl (ns ++ map fst fes ++ ap)) tl)
             (AllBitField (s_pos s' + bl ns + N.of_nat (length wx)) (s_pos s' + bl ns + N.of_nat (length wx)))).
Proof.
  intros Hok Fo He Hap H1 Hlim Hns Hs.
  remember (N.of_nat (length wx)) as nW eqn:EnW.
  assert (Hv : nW - 1 < two64) by (unfold SIZE_LIMIT in Hlim; unfold two64; lia).
  rewrite normally_small_write in Hns by exact Hv. injection Hns as <-.
  pose proof (enc_fields_length _ _ _ _ He) as Hlf.
  unfold skip_unknown_extension_additions. cbn [r_scope mk_r].
  pose proof Hs as Hs0. apply rsrc_split in Hs. destruct Hs as [Hs1 Hs2].
  unfold r_get. cbn [r_src mk_r].
  rewrite (normally_small_read m (nW - 1) s' _ Hv (proj1 Hs1)). cbn [bind r_src r_set_src mk_r r_scope].
  replace (N.min (nW - 1 + 1) (two64 - 1)) with nW by (unfold two64, SIZE_LIMIT in *; lia).
  set (ns := x_normally_small (nW - 1)) in *.
  match goal with |- context [src_set_pos ?S1 _] => set (s1 := S1) end.
  change (s_pos s1) with (s_pos s' + bl ns).
  assert (Hrs : rsrc s' (ns ++ map fst fes) (ap ++ tl)).
  { rewrite app_assoc in Hs0. apply rsrc_split in Hs0. exact (proj1 Hs0). }
  assert (Hblf : bl (map fst fes) = nW) by (unfold bl; rewrite map_length; unfold fenc in *; lia).
  assert (Hstop : N.min (s_pos s' + bl ns + nW) (two64 - 1) = s_pos s' + bl (ns ++ map fst fes)).
  { destruct Hrs as [(_ & L & _) (_ & H64)]. rewrite bl_app in *. lia. }
  rewrite Hstop.
  rewrite (src_set_pos_end s' s1 (ns ++ map fst fes) (ap ++ tl) Hrs) by apply same_buf_adv.
  set (s2 := src_adv s' (bl (ns ++ map fst fes)) (ap ++ tl)).
  assert (Hs3 : rsrc s2 ap tl).
  { rewrite app_assoc in Hs0. apply rsrc_split in Hs0. exact (proj2 Hs0). }
  assert (Hbits : bits_at s' (s_pos s' + bl ns) (map fst fes)) by (apply (bits_at_intro s' ns _ ap tl); exact Hs0).
  replace (s_pos s' + bl (ns ++ map fst fes)) with (s_pos s' + bl ns + N.of_nat (length wx)) by (rewrite bl_app; lia).
  cbn [r_set_scope r_set_src r_src r_scope mk_r]. subst nW.
  replace (src_adv s' (bl (ns ++ map fst fes ++ ap)) tl) with (src_adv s2 (bl ap) tl)
    by (unfold s2; rewrite src_adv_adv; f_equal; rewrite !bl_app; lia).
  match goal with |- skip_unknown_loop ?f _ _ _ _ = _ =>
    apply (skip_loop_spec m s' _ wx valsX fes ap (s_pos s' + bl ns) s2 tl f Hok Fo He Hap Hbits (same_buf_adv _ _ _) Hs3) end.
  destruct Hrs as [(_ & L & _) _]. rewrite bl_app in L. unfold s2. cbn [s_len src_adv]. lia.
Qed.

(** ** the preamble, for any reader component list *)
Lemma seq_read_header m fsR so fcR e (eb : bool) flags rest s tail :
  bl flags = so -> rsrc s (eb :: flags ++ rest) tail ->
  read_ty m (TSeq fsR so fcR (Some e)) (r_of_src s) =
  if eb then
    let! nx := usub m fcR (e + 1) in
    rscope_pushed m (r_of_src (src_adv s (1 + so) (rest ++ tail)))
      (ExtSeq (s_pos s) (Some (s_pos s + 1, s_pos s + 1 + so)) (e + 1) nx)
      (fun r => let! (v, r) := rfields m fsR r [] in
                let! r := skip_unknown_extension_additions m r in Ok (v, r))
  else rscope_pushed m (r_of_src (src_adv s (1 + so) (rest ++ tail)))
         (OptBitField (s_pos s + 1) (s_pos s + 1 + so)) (fun r => rfields m fsR r []).
Proof.
  intros Hflags Hs.
  rewrite read_ty_seq_eq, rentry_none by reflexivity. cbn [bind]. rewrite rwith_buffer_none by reflexivity. cbv zeta.
  change (eb :: flags ++ rest) with ([eb] ++ flags ++ rest) in Hs.
  apply rsrc_split in Hs. destruct Hs as [Hs1 Hs2].
  rewrite r_get_of_src, (r_bit_ok _ _ _ (proj1 Hs1)). cbn [bind r_src r_of_src r_set_src r_scope].
  change (bl [eb]) with 1 in *.
  set (s1 := src_adv s 1 ((flags ++ rest) ++ tail)) in *.
  destruct (seq_header m s1 flags rest tail so Hs2 (eq_sym Hflags)) as (Q1 & Q2 & Q3 & Q4).
  rewrite Q1. cbn [bind]. rewrite Q2, Q3. cbn [bind]. rewrite Q4. clear Q1 Q2 Q3 Q4.
  unfold s1. rewrite src_adv_adv, Hflags. cbn [s_pos src_adv].
  destruct eb; reflexivity.
Qed.

Lemma seq_sources s eb flags pay rest tail so : bl flags = so ->
  rsrc s (eb :: flags ++ pay ++ rest) tail ->
  rsrc (src_adv s (1 + so) ((pay ++ rest) ++ tail)) (pay ++ rest) tail /\
  bits_at s (s_pos s + 1) flags.
Proof.
  intros Hf Hs. split.
  - change (eb :: flags ++ pay ++ rest) with ((eb :: flags) ++ pay ++ rest) in Hs.
    apply rsrc_split in Hs. destruct Hs as [_ Hs]. rewrite bl_cons, Hf in Hs. exact Hs.
  - change (s_pos s + 1) with (s_pos s + bl [eb]).
    apply (bits_at_intro s [eb] flags (pay ++ rest) tail). exact Hs.
Qed.

(** ** no addition transmitted: the extension bit is 0, every addition the reader knows is absent *)
Lemma seq_read_noext m e rfs afsC rx valsR valsC rfe afeC so fcR s tail :
  length rfs = S (N.to_nat e) -> so = N.of_nat (nopt rfs) ->
  enc_fields m rfs valsR = Ok rfe -> enc_fields m afsC valsC = Ok afeC ->
  flds_ok m false rfs valsR -> flds_ok m false afsC valsC -> existsb fst afeC = false ->
  Forall optk rx ->
  rsrc s (false :: flags_of rfs rfe ++ payload_of rfe) tail ->
  read_ty m (TSeq (rfs ++ afsC ++ rx) so fcR (Some e)) (r_of_src s) =
  Ok (VSeq (valsR ++ valsC ++ pad_of rx),
      r_of_src (src_adv s (bl (false :: flags_of rfs rfe ++ payload_of rfe)) tail)).
Proof.
  intros Hkr Hso Er Ec HokR HokC Hex Frx Hs.
  pose proof (enc_fields_length _ _ _ _ Er) as Hlr.
  assert (Hflags : bl (flags_of rfs rfe) = so) by (unfold bl; rewrite flags_of_length by exact Hlr; lia).
  rewrite <- (app_nil_r (payload_of rfe)) in Hs.
  rewrite (seq_read_header m _ so fcR e false (flags_of rfs rfe) (payload_of rfe ++ []) s tail Hflags Hs). cbv iota.
  destruct (seq_sources s false _ _ [] tail so Hflags Hs) as [Hs2 Hbits].
  rewrite app_nil_r in *.
  set (s2 := src_adv s (1 + so) (payload_of rfe ++ tail)) in *.
  rewrite rpushed_eq, rfields_rwalk, rwalk_app.
  change (OptBitField (s_pos s + 1) (s_pos s + 1 + so)) with (root_scope None (s_pos s + 1) (s_pos s + 1 + so)).
  rewrite (root_walk_r m s rfs valsR rfe (s_pos s + 1) (s_pos s + 1 + so) None s2 tail [] HokR Er Hbits
             ltac:(lia) I (same_buf_adv _ _ _) Hs2).
  cbn [bind xsub root_scope].
  replace (s_pos s + 1 + N.of_nat (nopt rfs)) with (s_pos s + 1 + so) by lia.
  rewrite rwalk_app.
  rewrite (tail_walk_r m afsC valsC afeC _ _ _ tail _ HokC Ec Hex (N.le_refl _) (rsrc_adv_nil _ _ _ Hs2)).
  cbn [bind].
  rewrite (beyond_walk m rx _ (OptBitField (s_pos s + 1 + so) (s_pos s + 1 + so)) _ Frx (N.le_refl _)).
  cbn [bind r_scope mk_r scope_exhausted]. rewrite N.eqb_refl. cbn [negb]. rewrite andb_false_r.
  rewrite frev3.
  unfold r_set_scope, mk_r, r_of_src. cbn [r_src]. do 3 f_equal.
  unfold s2. rewrite src_adv_adv. f_equal. rewrite bl_cons, bl_app. lia.
Qed.

(** ** additions transmitted, the reader knows none of them *)
Lemma seq_read_ext_unknown m e rfs wx valsR valsX rfe afeX apX ns so fcR s tail :
  length rfs = S (N.to_nat e) -> so = N.of_nat (nopt rfs) -> e + 1 <= fcR ->
  (1 <= length wx)%nat -> N.of_nat (length wx) < SIZE_LIMIT ->
  enc_fields m rfs valsR = Ok rfe -> enc_fields m wx valsX = Ok afeX ->
  flds_ok m false rfs valsR -> flds_ok m true wx valsX ->
  w_normally_small m (N.of_nat (length wx) - 1) = Ok ns ->
  add_payloads m wx afeX = Ok apX -> Forall optk wx ->
  rsrc s (true :: flags_of rfs rfe ++ payload_of rfe ++ ns ++ map fst afeX ++ apX) tail ->
  read_ty m (TSeq rfs so fcR (Some e)) (r_of_src s) =
  Ok (VSeq valsR,
      r_of_src (src_adv s (bl (true :: flags_of rfs rfe ++ payload_of rfe ++ ns ++ map fst afeX ++ apX)) tail)).
Proof.
  intros Hkr Hso Hfc H1 Hlim Er Ex HokR HokX Ens EapX Fwx Hs.
  pose proof (enc_fields_length _ _ _ _ Er) as Hlr.
  assert (Hflags : bl (flags_of rfs rfe) = so) by (unfold bl; rewrite flags_of_length by exact Hlr; lia).
  set (rest := ns ++ map fst afeX ++ apX) in *.
  rewrite (seq_read_header m _ so fcR e true (flags_of rfs rfe) (payload_of rfe ++ rest) s tail Hflags Hs). cbv iota.
  rewrite usub_ok by lia. cbn [bind].
  destruct (seq_sources s true _ _ rest tail so Hflags Hs) as [Hs2 Hbits].
  set (s2 := src_adv s (1 + so) ((payload_of rfe ++ rest) ++ tail)) in *.
  apply rsrc_split in Hs2. destruct Hs2 as [Hs3 Hs4].
  set (nxR := fcR - (e + 1)).
  rewrite rpushed_eq, rfields_rwalk.
  change (ExtSeq (s_pos s) (Some (s_pos s + 1, s_pos s + 1 + so)) (e + 1) nxR)
    with (root_scope (Some (s_pos s, e + 1, nxR)) (s_pos s + 1) (s_pos s + 1 + so)).
  rewrite (root_walk_r m s rfs valsR rfe (s_pos s + 1) (s_pos s + 1 + so) (Some (s_pos s, e + 1, nxR)) s2 _ [] HokR Er Hbits
             ltac:(lia) ltac:(cbn [xge]; lia) (same_buf_adv _ _ _) Hs3).
  cbn [bind xsub root_scope]. rewrite Hkr.
  replace (e + 1 - N.of_nat (S (N.to_nat e))) with 0 by lia.
  set (s3 := src_adv s2 (bl (payload_of rfe)) (rest ++ tail)) in *.
  unfold rest in Hs4.
  rewrite (skip_ext0_spec m wx valsX afeX apX ns _ _ _ s3 tail HokX Fwx Ex EapX H1 Hlim Ens Hs4).
  cbn [bind r_scope mk_r scope_exhausted]. rewrite N.eqb_refl. cbn [negb]. rewrite andb_false_r.
  rewrite frev_rev.
  unfold r_set_scope, mk_r, r_of_src. cbn [r_src]. do 3 f_equal.
  unfold s3, s2. rewrite !src_adv_adv. f_equal. unfold rest. rewrite bl_cons, !bl_app. lia.
Qed.

(** ** additions transmitted, the reader knows the first [1 + length afsC'] of them; it may know
       further ones ([rx], then the writer has no more) or the writer may have further ones ([wx]) *)
Lemma seq_read_ext_known m e rfs k1 ft1 afsC' wx rx valsR ov1 avals valsX rfe b1 afeC' afeX y1 apC' apX ns nW so fcR s tail :
  length rfs = S (N.to_nat e) -> so = N.of_nat (nopt rfs) -> e + 1 <= fcR ->
  nW = N.of_nat (S (length afsC' + length wx)) -> nW < SIZE_LIMIT ->
  enc_fields m rfs valsR = Ok rfe -> enc_field m (k1, ft1) ov1 = Ok (true, b1) ->
  enc_fields m afsC' avals = Ok afeC' -> enc_fields m wx valsX = Ok afeX ->
  flds_ok m false rfs valsR -> flds_ok m true ((k1, ft1) :: afsC') (ov1 :: avals) -> flds_ok m true wx valsX ->
  w_normally_small m (nW - 1) = Ok ns ->
  (if wraps k1 ft1 then wrap_open m b1 else Ok b1) = Ok y1 ->
  add_payloads m afsC' afeC' = Ok apC' -> add_payloads m wx afeX = Ok apX ->
  Forall optk rx -> Forall optk wx -> (rx = [] \/ wx = []) ->
  rsrc s (true :: flags_of rfs rfe ++ payload_of rfe ++ ns ++ (true :: map fst afeC' ++ map fst afeX)
            ++ y1 ++ apC' ++ apX) tail ->
  read_ty m (TSeq (rfs ++ ((k1, ft1) :: afsC') ++ rx) so fcR (Some e)) (r_of_src s) =
  Ok (VSeq (valsR ++ (ov1 :: avals) ++ pad_of rx),
      r_of_src (src_adv s (bl (true :: flags_of rfs rfe ++ payload_of rfe ++ ns
                                 ++ (true :: map fst afeC' ++ map fst afeX) ++ y1 ++ apC' ++ apX)) tail)).
Proof.
  intros Hkr Hso Hfc HnW Hlim Er Ef1 Ea' Ex HokR HokC HokX Ens Ey1 EapC' EapX Frx Fwx Hdisj Hs.
  pose proof (enc_fields_length _ _ _ _ Er) as Hlr.
  pose proof (enc_fields_length _ _ _ _ Ea') as Hlc.
  pose proof (enc_fields_length _ _ _ _ Ex) as Hlx.
  assert (Hflags : bl (flags_of rfs rfe) = so) by (unfold bl; rewrite flags_of_length by exact Hlr; lia).
  cbn [flds_ok] in HokC. destruct HokC as [(HR1 & Hty1 & Hd1 & Hf1) Hoka'].
  set (fl := map fst afeC' ++ map fst afeX) in *.
  set (AP := y1 ++ apC' ++ apX) in *.
  set (rest := ns ++ (true :: fl) ++ AP) in *.
  pose proof Hs as Hs0.
  rewrite (seq_read_header m _ so fcR e true (flags_of rfs rfe) (payload_of rfe ++ rest) s tail Hflags Hs). cbv iota.
  rewrite usub_ok by lia. cbn [bind].
  destruct (seq_sources s true _ _ rest tail so Hflags Hs) as [Hs2 Hbits].
  set (s2 := src_adv s (1 + so) ((payload_of rfe ++ rest) ++ tail)) in *.
  apply rsrc_split in Hs2. destruct Hs2 as [Hs3 Hs4].
  set (nxR := fcR - (e + 1)).
  rewrite rpushed_eq, rfields_rwalk, rwalk_app.
  change (ExtSeq (s_pos s) (Some (s_pos s + 1, s_pos s + 1 + so)) (e + 1) nxR)
    with (root_scope (Some (s_pos s, e + 1, nxR)) (s_pos s + 1) (s_pos s + 1 + so)).
  rewrite (root_walk_r m s rfs valsR rfe (s_pos s + 1) (s_pos s + 1 + so) (Some (s_pos s, e + 1, nxR)) s2 _ [] HokR Er Hbits
             ltac:(lia) ltac:(cbn [xge]; lia) (same_buf_adv _ _ _) Hs3).
  cbn [bind xsub root_scope]. rewrite Hkr.
  replace (e + 1 - N.of_nat (S (N.to_nat e))) with 0 by lia.
  replace (s_pos s + 1 + N.of_nat (nopt rfs)) with (s_pos s + 1 + so) by lia.
  set (s3 := src_adv s2 (bl (payload_of rfe)) (rest ++ tail)) in *.
  assert (Hsb3 : same_buf s s3) by (eapply same_buf_trans; apply same_buf_adv).
  (* the first addition: the scope turns into the transmitted presence bits *)
  assert (Hbit0 : r_bit_at s3 (s_pos s) = Ok true).
  { pose proof (bit_at_spec s [] true _ tail s3 Hs0 Hsb3) as Q. rewrite bl_nil, N.add_0_r in Q. exact Q. }
  assert (Hfl : bl fl + 1 = nW).
  { unfold fl, bl. rewrite app_length, !map_length. unfold fenc in *. lia. }
  pose proof (entry_trans_r_gen m s3 (s_pos s) (Some (s_pos s + 1 + so, s_pos s + 1 + so)) nW nxR (is_optk k1) ns
                fl AP tail Hbit0 ltac:(lia) Hlim Ens Hs4 Hfl) as Hent.
  set (s4 := src_adv s3 (bl (ns ++ true :: fl)) (AP ++ tail)) in *.
  assert (Hs5 : rsrc s4 AP tail).
  { assert (EQ : rest = (ns ++ true :: fl) ++ AP) by (unfold rest; rewrite <- app_assoc; reflexivity).
    rewrite EQ in Hs4. apply rsrc_split in Hs4. exact (proj2 Hs4). }
  unfold AP in Hs5. apply rsrc_split in Hs5. destruct Hs5 as [Hs5 Hs6].
  cbn [app rwalk].
  rewrite (rfield_spec m k1 ft1 ov1 true b1 s3 _ (Some true) s4 _ true HR1 Hty1 Ef1 Hf1 Hd1 Hent
             ltac:(reflexivity) eq_refl y1 _ ltac:(cbn [andb]; destruct (wraps k1 ft1); congruence) Hs5).
  cbn [bind].
  (* the other additions known to both *)
  set (a1 := s_pos s3 + bl ns + 1) in *.
  assert (Hbits2 : bits_at s a1 fl).
  { pose proof (bits_at_intro s ([true] ++ flags_of rfs rfe ++ payload_of rfe ++ ns ++ [true]) fl AP tail) as Q.
    replace (s_pos s + bl ([true] ++ flags_of rfs rfe ++ payload_of rfe ++ ns ++ [true])) with a1 in Q.
    - apply Q. replace (([true] ++ flags_of rfs rfe ++ payload_of rfe ++ ns ++ [true]) ++ fl ++ AP)
        with (true :: flags_of rfs rfe ++ payload_of rfe ++ rest); [exact Hs0|].
      unfold rest. cbn [app]. rewrite <- !app_assoc. cbn [app]. reflexivity.
    - unfold a1, s3, s2. cbn [s_pos src_adv]. rewrite !bl_app. change (bl [true]) with 1. lia. }
  unfold fl in Hbits2. apply bits_at_app in Hbits2. destruct Hbits2 as [HbC HbX].
  apply rsrc_split in Hs6. destruct Hs6 as [Hs6 Hs7].
  set (s5 := src_adv s4 (bl y1) ((apC' ++ apX) ++ tail)) in *.
  assert (Hsb5 : same_buf s s5).
  { eapply same_buf_trans; [exact Hsb3|]. eapply same_buf_trans; apply same_buf_adv. }
  rewrite rwalk_app.
  rewrite (all_walk_r m s afsC' avals afeC' apC' a1 (s_pos s3 + bl ns + nW) s5 (apX ++ tail) _ Hoka' Ea' EapC' HbC
             ltac:(unfold a1; lia) Hsb5 Hs6).
  cbn [bind].
  set (a2 := a1 + N.of_nat (length afsC')) in *.
  set (s6 := src_adv s5 (bl apC') (apX ++ tail)) in *.
  assert (Hend : s_pos s3 + bl ns + nW = a2 + N.of_nat (length wx)) by (unfold a2, a1; lia).
  rewrite Hend.
  (* additions only the reader knows: beyond the transmitted presence bits *)
  rewrite (beyond_or_nil m rx s6 (AllBitField a2 (a2 + N.of_nat (length wx))) _ Frx).
  2:{ destruct Hdisj as [->| ->]; [left; reflexivity|right]. cbn [absent_scope length]. lia. }
  cbn [bind].
  (* additions only the writer knows: skipped *)
  assert (Hblc : bl (map fst afeC') = N.of_nat (length afsC')) by (unfold bl; rewrite map_length; unfold fenc in *; lia).
  rewrite Hblc in HbX. fold a2 in HbX.
  assert (Hsb6 : same_buf s s6) by (eapply same_buf_trans; [exact Hsb5|apply same_buf_adv]).
  assert (Hle : a2 + N.of_nat (length wx) <= s_len s6).
  { destruct Hs0 as [(_ & L & _) _]. unfold rest in L. rewrite bl_cons, !bl_app, bl_cons in L.
    change (s_len s6) with (s_len s). rewrite <- Hend. unfold s3, s2. cbn [s_pos src_adv]. lia. }
  rewrite (skip_all_spec m s wx valsX afeX apX a2 s6 tail HokX Fwx Ex EapX HbX Hsb6 Hs7 Hle).
  cbn [bind r_scope mk_r scope_exhausted]. rewrite N.eqb_refl. cbn [negb]. rewrite andb_false_r.
  replace (rev avals ++ ov1 :: rev valsR ++ []) with (rev (ov1 :: avals) ++ rev valsR ++ [])
    by (cbn [rev]; rewrite <- app_assoc; reflexivity).
  rewrite frev3.
  unfold r_set_scope, mk_r, r_of_src. cbn [r_src]. do 3 f_equal.
  unfold s6, s5, s4, s3, s2. rewrite !src_adv_adv. f_equal.
  unfold rest, AP. repeat (rewrite bl_cons || rewrite bl_app). lia.
Qed.

(** ** the three cases together: writer components [rfs ++ afsC ++ wx], reader components
       [rfs ++ afsC ++ rx] (root, additions known to both, additions known to one side) *)
Lemma seq_compat_core m e rfs afsC wx rx valsR valsC valsX rfe afeC afeX so fcR eb xp s tail :
  length rfs = S (N.to_nat e) -> so = N.of_nat (nopt rfs) -> e + 1 <= fcR ->
  N.of_nat (length (afsC ++ wx)) < SIZE_LIMIT ->
  enc_fields m rfs valsR = Ok rfe -> enc_fields m afsC valsC = Ok afeC -> enc_fields m wx valsX = Ok afeX ->
  flds_ok m false rfs valsR -> flds_ok m false afsC valsC -> flds_ok m true afsC valsC -> flds_ok m true wx valsX ->
  ext_part m (afsC ++ wx) (afeC ++ afeX) = Ok (eb, xp) ->
  Forall optk rx -> Forall optk wx -> (rx = [] \/ wx = []) ->
  rsrc s (eb :: flags_of rfs rfe ++ payload_of rfe ++ xp) tail ->
  read_ty m (TSeq (rfs ++ afsC ++ rx) so fcR (Some e)) (r_of_src s) =
  Ok (VSeq (valsR ++ valsC ++ pad_of rx),
      r_of_src (src_adv s (bl (eb :: flags_of rfs rfe ++ payload_of rfe ++ xp)) tail)).
Proof.
  intros Hkr Hso Hfc Hlim Er Ec Ex HokR HokC0 HokC1 HokX Hext Frx Fwx Hdisj Hs.
  pose proof (enc_fields_length _ _ _ _ Ec) as Hlc.
  pose proof (enc_fields_length _ _ _ _ Ex) as Hlx.
  rewrite app_length in Hlim.
  destruct eb.
  - destruct (ext_part_true m _ _ _ Hext) as (b1 & rest & ns & ap & Eafe & Ens & Eap & ->).
    rewrite add_payloads_app in Eap by exact Hlc.
    destruct (add_payloads m afsC afeC) as [apC| |] eqn:EapC; cbn [bind] in Eap; try discriminate Eap.
    destruct (add_payloads m wx afeX) as [apX| |] eqn:EapX; cbn [bind] in Eap; try discriminate Eap.
    injection Eap as <-.
    rewrite app_length in Ens.
    destruct afsC as [|[k1 ft1] afsC'].
    + (* the reader knows no addition *)
      destruct afeC; [|cbn [length] in Hlc; discriminate Hlc]. destruct valsC; [|contradiction HokC0].
      cbn in EapC. injection EapC as <-.
      cbn [app length Nat.add] in *.
      destruct Hdisj as [-> | ->].
      2:{ destruct afeX; [discriminate Eafe|cbn [length] in Hlx; discriminate Hlx]. }
      cbn [pad_of map app]. rewrite !app_nil_r.
      rewrite Hlx in Ens.
      apply (seq_read_ext_unknown m e rfs wx valsR valsX rfe afeX apX ns so fcR s tail); try assumption.
      rewrite <- Hlx, Eafe. cbn [length]. lia.
    + (* the reader knows at least the first one *)
      destruct valsC as [|ov1 avals]; [contradiction HokC0|].
      rewrite enc_fields_cons in Ec.
      destruct (enc_field m (k1, ft1) ov1) as [[p1 b1']| |] eqn:Ef1; cbn [bind] in Ec; try discriminate Ec.
      destruct (enc_fields m afsC' avals) as [afeC'| |] eqn:Ea'; cbn [bind] in Ec; try discriminate Ec.
      injection Ec as <-.
      cbn [app] in Eafe. injection Eafe as -> -> <-.
      cbn [add_payloads andb] in EapC.
      destruct (if wraps k1 ft1 then wrap_open m b1 else Ok b1) as [y1| |] eqn:Ey1; cbn [bind] in EapC; try discriminate EapC.
      destruct (add_payloads m afsC' afeC') as [apC'| |] eqn:EapC'; cbn [bind] in EapC; try discriminate EapC.
      injection EapC as <-.
      pose proof (enc_fields_length _ _ _ _ Ea') as Hlc'.
      cbn [app map fst length] in Hs, Ens, Hlim |- *.
      rewrite map_app, <- (app_assoc y1 apC' apX) in Hs |- *.
      apply (seq_read_ext_known m e rfs k1 ft1 afsC' wx rx valsR ov1 avals valsX rfe b1 afeC' afeX y1 apC' apX ns
               (N.of_nat (S (length afsC' + length wx))) so fcR s tail); try assumption; try reflexivity; try lia.
      replace (N.of_nat (S (length afsC' + length wx))) with (N.of_nat (S (length afeC') + length afeX)) by lia.
      exact Ens.
  - destruct (ext_part_bit m _ _ _ _ Hext) as [Heb Hxp]. rewrite (Hxp eq_refl) in *.
    symmetry in Heb. rewrite existsb_app in Heb. apply orb_false_iff in Heb. destruct Heb as [HexC HexX].
    rewrite app_nil_r in Hs |- *.
    apply (seq_read_noext m e rfs afsC rx valsR valsC rfe afeC so fcR s tail); assumption.
Qed.

(** ** from the types and the value to the per-part facts *)
Theorem seq_compat m fsC wx rx so fcW fcR e vals bs s tail :
  wf_ty (TSeq (fsC ++ wx) so fcW (Some e)) -> wf_ty (TSeq (fsC ++ rx) so fcR (Some e)) ->
  (S (N.to_nat e) <= length fsC)%nat ->
  Forall optk rx -> Forall optk wx -> (rx = [] \/ wx = []) ->
  wf_val (TSeq (fsC ++ wx) so fcW (Some e)) (VSeq vals) ->
  ~ Known_C01 m (TSeq (fsC ++ wx) so fcW (Some e)) (VSeq vals) ->
  enc m (TSeq (fsC ++ wx) so fcW (Some e)) (VSeq vals) = Ok bs -> rsrc s bs tail ->
  read_ty m (TSeq (fsC ++ rx) so fcR (Some e)) (r_of_src s) =
  Ok (VSeq (firstn (length fsC) vals ++ pad_of rx), r_of_src (src_adv s (bl bs) tail)).
Proof.
  intros HtyW HtyR Hkr Frx Fwx Hdisj Hv Hk He Hs.
  destruct (split_at fsC (S (N.to_nat e)) Hkr) as (rfs & afsC & -> & Hlrfs).
  rewrite <- !app_assoc in *.
  apply wf_ty_seq in HtyW. destruct HtyW as [(HfcW & HlimW & HeaW & HsoW) HtfW].
  apply wf_ty_seq in HtyR. destruct HtyR as [(HfcR & HlimR & HeaR & HsoR) _].
  cbn [root_len] in HsoW. rewrite firstn_app_exact in HsoW by (symmetry; exact Hlrfs).
  rewrite enc_seq_eq in He.
  destruct (enc_fields m (rfs ++ afsC ++ wx) vals) as [fes| |] eqn:Ef; cbn [bind] in He; try discriminate He.
  change (all_wf_vals (rfs ++ afsC ++ wx) vals) in Hv.
  change (~ any_known_f m (Some e) (rfs ++ afsC ++ wx) vals 0) in Hk.
  assert (F : Forall (fun f => Rprop m (snd f)) (rfs ++ afsC ++ wx)) by (apply Forall_forall; intros f _; apply read_enc).
  destruct (flds_ok_intro m (Some e) _ vals 0 F HtfW Hv Hk) as [Hok0 _].
  assert (Hok1 : flds_ok m true (afsC ++ wx) (skipn (length rfs) vals)).
  { rewrite <- (skipn_app_exact rfs (afsC ++ wx) (length rfs) eq_refl).
    apply (flds_ok_intro m (Some e) _ _ (0 + length rfs)).
    - apply Forall_skipn. exact F.
    - apply all_wf_fields_skipn. exact HtfW.
    - apply all_wf_vals_skipn. exact Hv.
    - apply any_known_skip. exact Hk.
    - cbn [is_addition]. lia. }
  apply flds_ok_app in Hok0. destruct Hok0 as [HokR Hok0].
  apply flds_ok_app in Hok0. destruct Hok0 as [HokC0 _].
  apply flds_ok_app in Hok1. destruct Hok1 as [HokC1 HokX].
  rewrite enc_fields_app in Ef.
  destruct (enc_fields m rfs vals) as [rfe| |] eqn:Er; cbn [bind] in Ef; try discriminate Ef.
  rewrite enc_fields_app in Ef.
  destruct (enc_fields m afsC (skipn (length rfs) vals)) as [afeC| |] eqn:Ec; cbn [bind] in Ef; try discriminate Ef.
  destruct (enc_fields m wx (skipn (length afsC) (skipn (length rfs) vals))) as [afeX| |] eqn:Ex;
    cbn [bind] in Ef; try discriminate Ef.
  injection Ef as <-.
  apply enc_fields_firstn in Er. apply enc_fields_firstn in Ec.
  pose proof (enc_fields_length _ _ _ _ Er) as Hlr.
  rewrite (seq_assemble_some m _ _ e (S (N.to_nat e)) eq_refl) in He.
  rewrite !firstn_app_exact, !skipn_app_exact in He by congruence.
  destruct (ext_part m (afsC ++ wx) (afeC ++ afeX)) as [[eb xp]| |] eqn:Ext; cbn [bind] in He; try discriminate He.
  injection He as <-.
  rewrite app_length, firstn_add, <- app_assoc.
  eapply (seq_compat_core m e rfs afsC wx rx _ _ _ rfe afeC afeX so fcR eb xp s tail); try eassumption.
  - lia.
  - rewrite app_length in HfcW. lia.
Qed.

(** * the end-to-end statements *)
Theorem C05_forward_thm m V1 V2 v bs s tail :
  extends V1 V2 -> wf_val V1 v -> ~ Known_C01 m V1 v -> enc m V1 v = Ok bs -> rsrc s bs tail ->
  read_ty m V2 (r_of_src s) = Ok (pad_absent V1 V2 v, r_of_src (src_adv s (bl bs) tail)).
Proof.
  intros Hext Hv Hk He Hs.
  destruct Hext as [fs adds so fc ea Hty1 Hty2 Fo|alts more std Hty1 Hty2|vc k std Hty1 Hty2].
  - destruct v as [| | | | | | |vals| |]; try contradiction Hv.
    cbn [pad_absent]. rewrite skipn_app_exact by reflexivity.
    pose proof (all_wf_vals_length fs vals Hv) as Hlen.
    assert (Hkr : (S (N.to_nat ea) <= length fs)%nat).
    { apply wf_ty_seq in Hty1. destruct Hty1 as [(A1 & _ & A3 & _) _]. lia. }
    pose proof (seq_compat m fs [] adds so fc (fc + N.of_nat (length adds)) ea vals bs s tail) as Q.
    rewrite app_nil_r in Q.
    specialize (Q Hty1 Hty2 Hkr Fo (Forall_nil _) (or_intror eq_refl) Hv Hk He Hs).
    rewrite firstn_all2 in Q by lia. exact Q.
  - exact (choice_forward m alts more std v bs s tail Hty2 Hv Hk He Hs).
  - destruct v as [| | | | | | | | |i]; try contradiction Hv. cbn [pad_absent].
    apply (enum_forward m vc k std i bs s tail Hty2 Hv He Hs).
Qed.

Theorem C05_backward_thm m V1 V2 v bs s tail :
  extends V1 V2 -> wf_val V2 v -> ~ Known_C01 m V2 v -> enc m V2 v = Ok bs -> rsrc s bs tail ->
  (known_index V1 v ->
     read_ty m V1 (r_of_src s) = Ok (project_root V1 V2 v, r_of_src (src_adv s (bl bs) tail))) /\
  (~ known_index V1 v -> read_ty m V1 (r_of_src s) = Err E_INVALID_CHOICE).
Proof.
  intros Hext Hv Hk He Hs.
  destruct Hext as [fs adds so fc ea Hty1 Hty2 Fo|alts more std Hty1 Hty2|vc k std Hty1 Hty2].
  - destruct v as [| | | | | | |vals| |]; try contradiction Hv.
    cbn [known_index project_root]. split; [intros _|intros C; exfalso; apply C; exact I].
    assert (Hkr : (S (N.to_nat ea) <= length fs)%nat).
    { apply wf_ty_seq in Hty1. destruct Hty1 as [(A1 & _ & A3 & _) _]. lia. }
    pose proof (seq_compat m fs adds [] so (fc + N.of_nat (length adds)) fc ea vals bs s tail) as Q.
    cbn [pad_of map] in Q. rewrite !app_nil_r in Q.
    exact (Q Hty2 Hty1 Hkr (Forall_nil _) Fo (or_introl eq_refl) Hv Hk He Hs).
  - destruct (choice_backward m alts more std v bs s tail Hty1 Hty2 Hv Hk He Hs) as [A B].
    split; [|exact B]. intros Hi. exact (A Hi).
  - destruct v as [| | | | | | | | |i]; try contradiction Hv. cbn [known_index project_root].
    apply (enum_backward m vc k std i bs s tail Hty1 Hty2 Hv He Hs).
Qed.

(* the reader ends exactly at the end of the message: a value written after it decodes correctly *)
Theorem C05_sentinel_forward_thm m V1 V2 v bs T x bs' s tail :
  extends V1 V2 -> wf_val V1 v -> ~ Known_C01 m V1 v -> enc m V1 v = Ok bs ->
  wf_ty T -> wf_val T x -> ~ Known_C01 m T x -> enc m T x = Ok bs' ->
  rsrc s (bs ++ bs') tail ->
  exists r1, read_ty m V2 (r_of_src s) = Ok (pad_absent V1 V2 v, r1) /\
             read_ty m T r1 = Ok (x, r_of_src (src_adv s (bl (bs ++ bs')) tail)).
Proof.
  intros Hext Hv Hk He HtyT HvT HkT HeT Hs. apply rsrc_split in Hs. destruct Hs as [Hs1 Hs2].
  eexists. split; [apply (C05_forward_thm m V1 V2 v bs s _ Hext Hv Hk He Hs1)|].
  rewrite (read_enc m T HtyT x bs' HeT HvT HkT _ _ Hs2), src_adv_adv, bl_app. reflexivity.
Qed.

Theorem C05_sentinel_backward_thm m V1 V2 v bs T x bs' s tail :
  extends V1 V2 -> wf_val V2 v -> ~ Known_C01 m V2 v -> enc m V2 v = Ok bs -> known_index V1 v ->
  wf_ty T -> wf_val T x -> ~ Known_C01 m T x -> enc m T x = Ok bs' ->
  rsrc s (bs ++ bs') tail ->
  exists r1, read_ty m V1 (r_of_src s) = Ok (project_root V1 V2 v, r1) /\
             read_ty m T r1 = Ok (x, r_of_src (src_adv s (bl (bs ++ bs')) tail)).
Proof.
  intros Hext Hv Hk He Hi HtyT HvT HkT HeT Hs. apply rsrc_split in Hs. destruct Hs as [Hs1 Hs2].
  eexists. split; [apply (proj1 (C05_backward_thm m V1 V2 v bs s _ Hext Hv Hk He Hs1) Hi)|].
  rewrite (read_enc m T HtyT x bs' HeT HvT HkT _ _ Hs2), src_adv_adv, bl_app. reflexivity.
Qed.

(** * non-vacuity: V1 = SEQUENCE { a BOOLEAN, b INTEGER(0..255) OPTIONAL, ..., c BOOLEAN OPTIONAL },
      V2 = V1 + { d OCTET STRING OPTIONAL, e INTEGER(0..255) DEFAULT 7 }; d carries 130 octets, so its
      open type holds 132 octets and the open-type length takes two octets; a sentinel octet follows *)
Definition ex5_fields : list (fkind * ty) :=
  [(FReq, TBool); (FOpt, TInt U8 (Some 0%Z) (Some 255%Z) false); (FOpt, TBool)].
Definition ex5_adds : list (fkind * ty) :=
  [(FOpt, TOctets None None false); (FDef (VInt 7), TInt U8 (Some 0%Z) (Some 255%Z) false)].
Definition ex5_V1 : ty := TSeq ex5_fields 1 3 (Some 1).
Definition ex5_V2 : ty := TSeq (ex5_fields ++ ex5_adds) 1 (3 + N.of_nat (length ex5_adds)) (Some 1).
Definition ex5_v1 : val := VSeq [Some (VBool true); Some (VInt 9); Some (VBool false)].
Definition ex5_v2 : val :=
  VSeq [Some (VBool true); None; Some (VBool true); Some (VOctets (repeat 171 130)); Some (VInt 200)].
Definition ex5_sentinel : ty := TInt U8 (Some 0%Z) (Some 255%Z) false.

(* write [vw] under [Vw] followed by [x] under [T]; read under [Vr], then [T]; report both values and
   whether the reader ended exactly at the end of the input *)
Definition compat_run (m : mode) (Vw Vr : ty) (vw : val) (T : ty) (x : val) : option (val * val * bool) :=
  match enc m Vw vw, enc m T x with
  | Ok bs, Ok bs' =>
      let all := bs ++ bs' in
      match read_ty m Vr (r_of_src (src_of_bits all (bl all))) with
      | Ok (v, r1) =>
          match read_ty m T r1 with
          | Ok (x', r2) => Some (v, x', s_pos (r_src r2) =? bl all)
          | _ => None
          end
      | _ => None
      end
  | _, _ => None
  end.

Ltac ex5_unfold := unfold ex5_V1, ex5_V2, ex5_v1, ex5_v2, ex5_fields, ex5_adds in *.
Ltac not_known :=
  let C := fresh "C" in
  intros C; ex5_unfold; cbn [Known_C01 app] in C;
  repeat match goal with
         | H : _ \/ _ |- _ => destruct H
         | H : _ /\ _ |- _ => destruct H
         | H : False |- _ => contradiction H
         | H : Known_C01_open_type_16k _ _ _ |- _ =>
             let b := fresh "b" in let E := fresh "E" in let L := fresh "L" in
             destruct H as (b & E & L); vm_compute in E; injection E as <-; vm_compute in L; apply L; reflexivity
         | H : Known_C10_sized_length _ _ _ |- _ => destruct H as [H _]; apply H; reflexivity
         end.
Ltac wf_value :=
  ex5_unfold; cbn [wf_val app]; repeat split; try reflexivity; try (vm_compute; reflexivity);
  try (apply Forall_forall; intros ? Hx; apply repeat_spec in Hx; subst; reflexivity).

Lemma ex5_extends : extends ex5_V1 ex5_V2.
Proof.
  apply (ext_seq ex5_fields ex5_adds 1 3 1).
  - vm_compute. repeat split; try discriminate; try reflexivity.
  - vm_compute. repeat split; try discriminate; try reflexivity.
  - repeat constructor.
Qed.

Lemma nonvacuous_c05 :
  extends ex5_V1 ex5_V2 /\
  (wf_val ex5_V1 ex5_v1 /\ ~ Known_C01 dev_mode ex5_V1 ex5_v1) /\
  (wf_val ex5_V2 ex5_v2 /\ ~ Known_C01 dev_mode ex5_V2 ex5_v2) /\
  (* forward: V1 data under V2 -- d absent, e takes its default; the sentinel decodes *)
  compat_run dev_mode ex5_V1 ex5_V2 ex5_v1 ex5_sentinel (VInt 165)
    = Some (pad_absent ex5_V1 ex5_V2 ex5_v1, VInt 165, true) /\
  pad_absent ex5_V1 ex5_V2 ex5_v1
    = VSeq [Some (VBool true); Some (VInt 9); Some (VBool false); None; Some (VInt 7)] /\
  (* backward: V2 data under V1 -- d (132-octet open type) and e skipped; the sentinel decodes *)
  compat_run dev_mode ex5_V2 ex5_V1 ex5_v2 ex5_sentinel (VInt 165)
    = Some (project_root ex5_V1 ex5_V2 ex5_v2, VInt 165, true) /\
  compat_run release_mode ex5_V2 ex5_V1 ex5_v2 ex5_sentinel (VInt 165)
    = Some (project_root ex5_V1 ex5_V2 ex5_v2, VInt 165, true) /\
  project_root ex5_V1 ex5_V2 ex5_v2 = VSeq [Some (VBool true); None; Some (VBool true)] /\
  match enc dev_mode (TOctets None None false) (VOctets (repeat 171 130)) with
  | Ok b => (bl b + 7) / 8 = 132
  | _ => False
  end.
Proof.
  split; [exact ex5_extends|].
  split; [split; [wf_value|not_known]|].
  split; [split; [wf_value|not_known]|].
  repeat split; vm_compute; reflexivity.
Qed.
