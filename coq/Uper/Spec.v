(* L2 specification layer for C01 / C03:
     - [enc]: an implementation-shaped but scope-free, compositional reference encoder
       (no writer state, no back-patching: presence bits are computed up front);
     - [wf_ty] / [wf_val]: descriptor constants as the compiler derives them / values of the
       generated Rust type;
     - [Known_C01]: the excluded classes (the model reproduces real defects of the crate).
   Nothing here is used by the executable model; Uper/Proofs.v relates it to Writer.v/Reader.v. *)
From A1 Require Export Uper.Reader.
From A1 Require Export Per.X691 Per.Proofs.
Local Open Scope N_scope.

(** * the compositional reference encoder *)

Definition is_choice (t : ty) : bool := match t with TChoice _ _ _ => true | _ => false end.
Definition is_optk (k : fkind) : bool := match k with FReq => false | _ => true end.
(* which present extension additions are wrapped as open types by the crate: everything written
   through write_opt / write_default, and mandatory additions except CHOICE (write_choice does
   not go through with_buffer) *)
Definition wraps (k : fkind) (ft : ty) : bool :=
  match k with FReq => negb (is_choice ft) | _ => true end.

(* open type: the content padded to octets, as an unconstrained OCTET STRING *)
Definition wrap_open (m : mode) (b : bits) : res bits :=
  w_octetstring m None None false (bytes_of_bits b).

(* write_extensible_bit_and_length_or_err *)
Definition len_hdr (m : mode) (ext : bool) (lo hi : option N) (upper len : N) : res bits :=
  let oor := (len <? opt_or lo 0) || (opt_or hi upper <? len) in
  let pre := if ext then [oor] else [] in
  if oor then
    if negb ext then Err E_SIZE_RANGE
    else let! (b, _) := w_length_determinant m None None len in Ok (pre ++ b)
  else let! (b, _) := w_length_determinant m lo hi len in Ok (pre ++ b).

Definition int_enc (m : mode) (lo hi : option Z) (ext : bool) (z : Z) : res bits :=
  let value := to_i64 z in
  let max_fn :=
    if ext then ((value <? opt_or lo 0) || (opt_or hi I64_MAXz <? value))%Z
    else negb (is_some lo) && negb (is_some hi) in
  let! b := (if max_fn then w_unconstrained m value
             else w_constrained m (opt_or lo 0%Z) (opt_or hi I64_MAXz) value) in
  Ok ((if ext then [max_fn] else []) ++ b).

(* per-component result of a SEQUENCE: (present, direct encoding of the value or [] when absent) *)
Definition fenc := (bool * bits)%type.

(* one presence bit per OPTIONAL/DEFAULT component, in order *)
Fixpoint flags_of (fs : list (fkind * ty)) (fes : list fenc) : bits :=
  match fs, fes with
  | (k, _) :: fs', (p, _) :: fes' => (if is_optk k then [p] else []) ++ flags_of fs' fes'
  | _, _ => []
  end.
Definition payload_of (fes : list fenc) : bits := concat (map snd fes).

Fixpoint add_payloads (m : mode) (fs : list (fkind * ty)) (fes : list fenc) : res bits :=
  match fs, fes with
  | (k, ft) :: fs', (p, b) :: fes' =>
      let! x := (if p && wraps k ft then wrap_open m b else Ok b) in
      let! r := add_payloads m fs' fes' in Ok (x ++ r)
  | _, _ => Ok []
  end.

(* the extension part: nothing when there is no addition in the type; otherwise the crate
   sets the extension bit from the FIRST addition and refuses later ones when it is absent *)
Definition ext_part (m : mode) (afs : list (fkind * ty)) (afe : list fenc) : res (bool * bits) :=
  match afe with
  | [] => Ok (false, [])
  | (p1, _) :: rest =>
      if p1 then
        let! ns := w_normally_small m (N.of_nat (length afe) - 1) in
        let! ap := add_payloads m afs afe in
        Ok (true, ns ++ map fst afe ++ ap)
      else if existsb fst rest then Err E_EXT_INCONSISTENT
      else Ok (false, [])
  end.

Definition seq_assemble (m : mode) (fs : list (fkind * ty)) (fes : list fenc) (ea : option N) : res bits :=
  match ea with
  | None => Ok (flags_of fs fes ++ payload_of fes)
  | Some e =>
      let k := S (N.to_nat e) in
      let rfs := firstn k fs in let rfe := firstn k fes in
      let! (eb, xp) := ext_part m (skipn k fs) (skipn k fes) in
      Ok (eb :: flags_of rfs rfe ++ payload_of rfe ++ xp)
  end.

Fixpoint enc (m : mode) (t : ty) (v : val) {struct t} : res bits :=
  match t, v with
  | TBool, VBool b => Ok [b]
  | TNull, VNull => Ok []
  | TInt k lo hi ext, VInt z => int_enc m lo hi ext z
  | TStr Utf8 lo hi ext, VStr chars =>
      let n := N.of_nat (length chars) in
      if negb ext && ((n <? opt_or lo 0) || (opt_or hi U64_MAX <? n)) then Err E_SIZE_RANGE
      else w_octetstring m None None false (utf8_encode chars)
  | TStr c lo hi ext, VStr chars =>
      if find_invalid c chars then Err E_INVALID_STRING else
      let! h := len_hdr m ext lo hi U64_MAX (N.of_nat (length chars)) in
      Ok (h ++ flat_map (char_bits c) chars)
  | TOctets lo hi ext, VOctets bs => w_octetstring m lo hi ext bs
  | TBitStr lo hi ext, VBits bs n => w_bitstring m lo hi ext bs 0 n
  | TListOf e lo hi ext, VList vs =>
      let! h := len_hdr m ext lo hi I64_MAX (N.of_nat (length vs)) in
      let! body :=
        (fix elems (vs : list val) : res bits :=
           match vs with
           | [] => Ok []
           | x :: r => let! a := enc m e x in let! b := elems r in Ok (a ++ b)
           end) vs in
      Ok (h ++ body)
  | TSeq fs so fc ea, VSeq vals =>
      let! fes :=
        (fix go (fs : list (fkind * ty)) (vals : list (option val)) : res (list fenc) :=
           match fs, vals with
           | [], _ => Ok []
           | (FReq, ft) :: fs', Some x :: vals' =>
               let! b := enc m ft x in let! r := go fs' vals' in Ok ((true, b) :: r)
           | (FOpt, ft) :: fs', None :: vals' =>
               let! r := go fs' vals' in Ok ((false, []) :: r)
           | (FOpt, ft) :: fs', Some x :: vals' =>
               let! b := enc m ft x in let! r := go fs' vals' in Ok ((true, b) :: r)
           | (FDef d, ft) :: fs', Some x :: vals' =>
               if val_eqb d x then let! r := go fs' vals' in Ok ((false, []) :: r)
               else let! b := enc m ft x in let! r := go fs' vals' in Ok ((true, b) :: r)
           | _, _ => Panic P_OTHER
           end) fs vals in
      seq_assemble m fs fes ea
  | TChoice alts std ext, VChoice index x =>
      let! ib := w_enumeration_index m std ext index in
      let! cb :=
        (fix pick (alts : list ty) (i : nat) : res bits :=
           match alts, i with
           | a :: _, O => enc m a x
           | _ :: r, S i' => pick r i'
           | [], _ => Panic P_OTHER
           end) alts (N.to_nat index) in
      if std <=? index then let! wb := wrap_open m cb in Ok (ib ++ wb) else Ok (ib ++ cb)
  | TEnum vc std ext, VEnum index => w_enumeration_index m std ext index
  | _, _ => Panic P_OTHER
  end.

(** * well-formed values and types *)

Definition scalar (c : N) : Prop := c < 55296 \/ (57344 <= c /\ c < 1114112).
Definition SIZE_LIMIT : N := 4294967296.

(* BitVec(bytes, n): exactly the octets holding n bits, unused trailing bits zero *)
Definition canonical_bits (bytes : list N) (n : N) : Prop :=
  Forall (fun b => b < 256) bytes /\ blen bytes = (n + 7) / 8 /\
  skipn (N.to_nat n) (bits_of_bytes bytes) = repeat false (N.to_nat (8 * blen bytes - n)).

Fixpoint wf_val (t : ty) (v : val) {struct t} : Prop :=
  match t, v with
  | TBool, VBool _ => True
  | TNull, VNull => True
  | TInt k _ _ _, VInt z => ik_fitsb k z = true
  | TStr _ _ _ _, VStr cs => Forall scalar cs /\ blen (utf8_encode cs) < SIZE_LIMIT   (* String::len() *)
  | TOctets _ _ _, VOctets bs => Forall (fun b => b < 256) bs /\ blen bs < SIZE_LIMIT
  | TBitStr _ _ _, VBits bs n => canonical_bits bs n /\ n < SIZE_LIMIT
  | TListOf e _ _ _, VList vs =>
      N.of_nat (length vs) < SIZE_LIMIT /\
      (fix all (vs : list val) : Prop :=
         match vs with [] => True | x :: r => wf_val e x /\ all r end) vs
  | TSeq fs _ _ _, VSeq vals =>
      (fix all (fs : list (fkind * ty)) (vals : list (option val)) : Prop :=
         match fs, vals with
         | [], [] => True
         | (k, ft) :: fs', ov :: vals' =>
             match ov with
             | Some x => wf_val ft x
             | None => k = FOpt
             end /\ all fs' vals'
         | _, _ => False
         end) fs vals
  | TChoice alts _ _, VChoice i x =>
      (fix pick (alts : list ty) (n : nat) : Prop :=
         match alts, n with
         | a :: _, O => wf_val a x
         | _ :: r, S n' => pick r n'
         | [], _ => False
         end) alts (N.to_nat i)
  | TEnum vc _ _, VEnum i => i < vc
  | _, _ => False
  end.

Definition opt_i64 (o : option Z) : Prop := match o with Some z => is_i64 z | None => True end.
Definition size_bounds_ok (lo hi : option N) : Prop :=
  match lo, hi with Some l, Some h => l <= h | _, _ => True end.

(* number of presence bits of a component list *)
Definition nopt (fs : list (fkind * ty)) : nat := length (filter (fun f => is_optk (fst f)) fs).
Definition root_len (fs : list (fkind * ty)) (ea : option N) : nat :=
  match ea with Some e => S (N.to_nat e) | None => length fs end.

Fixpoint wf_ty (t : ty) : Prop :=
  match t with
  | TBool | TNull => True
  | TInt _ lo hi _ => opt_i64 lo /\ opt_i64 hi /\
                      match lo, hi with Some l, Some h => (l <= h)%Z | _, _ => True end
  | TStr _ lo hi _ | TOctets lo hi _ | TBitStr lo hi _ => size_bounds_ok lo hi
  | TListOf e lo hi _ => size_bounds_ok lo hi /\ wf_ty e
  | TSeq fs so fc ea =>
      fc = N.of_nat (length fs) /\ fc < SIZE_LIMIT /\
      match ea with Some e => e < fc | None => True end /\
      so = N.of_nat (nopt (firstn (root_len fs ea) fs)) /\
      (fix all (fs : list (fkind * ty)) : Prop :=
         match fs with
         | [] => True
         | (k, ft) :: fs' =>
             wf_ty ft /\ match k with FDef d => wf_val ft d | _ => True end /\ all fs'
         end) fs
  | TChoice alts std ext =>
      1 <= std /\ std <= N.of_nat (length alts) /\ N.of_nat (length alts) < SIZE_LIMIT /\
      (ext = false -> std = N.of_nat (length alts)) /\
      (fix all (alts : list ty) : Prop :=
         match alts with [] => True | a :: r => wf_ty a /\ all r end) alts
  | TEnum vc std ext =>
      1 <= std /\ std <= vc /\ vc < SIZE_LIMIT /\ (ext = false -> std = vc)
  end.

(** * the excluded classes *)

(* a count written through write_extensible_bit_and_length_or_err (SEQUENCE OF, restricted strings) *)
Definition count_in_range (lo hi : option N) (upper n : N) : Prop :=
  opt_or lo 0 <= n /\ n <= opt_or hi upper.
(* F10-1 family: the size constraint has a lower bound and no upper bound, or an upper bound >= 64K *)
Definition Known_C01_size_F10_1 (lo hi : option N) (upper n : N) : Prop :=
  count_in_range lo hi upper n /\ Known_C10_length_semi_or_large_bound lo hi.
(* no fragmentation: 16K or more elements with the unconstrained length form *)
Definition Known_C01_count_16k (lo hi : option N) (upper n : N) : Prop :=
  16384 <= n /\ (~ count_in_range lo hi upper n \/ (lo = None /\ hi = None)).
Definition Known_C01_len (lo hi : option N) (upper n : N) : Prop :=
  Known_C01_size_F10_1 lo hi upper n \/ Known_C01_count_16k lo hi upper n.

(* open types of 16K octets or more: the writer fragments, the reader does not *)
Definition Known_C01_open_type_16k (m : mode) (t : ty) (x : val) : Prop :=
  exists b, enc m t x = Ok b /\ 16384 <= (bl b + 7) / 8.

Definition is_addition (ea : option N) (i : nat) : Prop :=
  match ea with Some e => (N.to_nat e < i)%nat | None => False end.
Definition encoded (k : fkind) (x : val) : Prop :=
  match k with FDef d => val_eqb d x = false | _ => True end.

Fixpoint Known_C01 (m : mode) (t : ty) (v : val) {struct t} : Prop :=
  match t, v with
  | TStr Utf8 _ _ _, VStr _ => False
  | TStr _ lo hi _, VStr cs => Known_C01_len lo hi U64_MAX (N.of_nat (length cs))
  | TOctets lo hi _, VOctets bs => Known_C10_sized_length lo hi (blen bs)
  | TBitStr lo hi _, VBits _ n => Known_C10_sized_length lo hi n \/ Known_C10_bitstring_16k lo hi n
  | TListOf e lo hi _, VList vs =>
      Known_C01_len lo hi I64_MAX (N.of_nat (length vs)) \/
      (fix any (vs : list val) : Prop :=
         match vs with [] => False | x :: r => Known_C01 m e x \/ any r end) vs
  | TSeq fs _ _ ea, VSeq vals =>
      (fix any (fs : list (fkind * ty)) (vals : list (option val)) (i : nat) : Prop :=
         match fs, vals with
         | (k, ft) :: fs', ov :: vals' =>
             match ov with
             | Some x => encoded k x /\
                         (Known_C01 m ft x \/
                          (is_addition ea i /\ wraps k ft = true /\ Known_C01_open_type_16k m ft x))
             | None => False
             end \/ any fs' vals' (S i)
         | _, _ => False
         end) fs vals O
  | TChoice alts std _, VChoice i x =>
      (fix pick (alts : list ty) (n : nat) : Prop :=
         match alts, n with
         | a :: _, O => Known_C01 m a x \/ (std <= i /\ Known_C01_open_type_16k m a x)
         | _ :: r, S n' => pick r n'
         | [], _ => False
         end) alts (N.to_nat i)
  | _, _ => False
  end.
