(* Uper/Spec.v -- stub, to be filled *)
