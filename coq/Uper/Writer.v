(* Uper/Writer.v -- stub, to be filled *)
