(* L2 writer: model of `impl Writer for UperWriter` in src/rw/uper.rs — Scope::write_into_field,
   write_bit_field_entry, scope_pushed (with its debug_assert), scope_stashed, with_buffer (open
   type wrapping), write_extensible_bit_and_length_or_err and every write_* method; the generated
   write_seq is the field walk over [TSeq]. *)
From A1 Require Export Uper.Ty.
Local Open Scope N_scope.

Inductive scope :=
| OptBitField (start stop : N)
| AllBitField (start stop : N)
| ExtSeq (bit_pos : N) (opt : option (N * N)) (calls_until_ext_bitfield : N) (number_of_ext_fields : N)
| ExtSeqEmpty.

Definition scope_exhausted (s : scope) : bool :=
  match s with
  | OptBitField a b | AllBitField a b => a =? b
  | ExtSeq _ (Some (a, b)) _ _ => a =? b
  | ExtSeq _ None _ _ => true
  | ExtSeqEmpty => true
  end.
Definition encode_as_open_type_field (s : scope) : bool :=
  match s with AllBitField _ _ | ExtSeqEmpty => true | _ => false end.

(* the bit sink: bits in reverse order (newest first) with their count, and the current scope *)
Record wst := { w_rbits : list bool; w_n : N; w_scope : option scope }.
Definition w_empty : wst := {| w_rbits := []; w_n := 0; w_scope := None |}.
Definition w_bits (w : wst) : bits := frev (w_rbits w).

Definition w_append (w : wst) (b : bits) : wst :=
  {| w_rbits := rev_append b (w_rbits w); w_n := w_n w + N.of_nat (length b); w_scope := w_scope w |}.
Definition w_set_scope (w : wst) (s : option scope) : wst :=
  {| w_rbits := w_rbits w; w_n := w_n w; w_scope := s |}.

Fixpoint set_nth {A} (l : list A) (i : nat) (x : A) : list A :=
  match l, i with
  | [], _ => []
  | _ :: r, O => x :: r
  | a :: r, S i' => a :: set_nth r i' x
  end.

(* bits.with_write_position_at(pos, |b| b.write_bit(bit)) for a position inside the written bits *)
Definition w_patch (w : wst) (pos : N) (bit : bool) : res wst :=
  if pos <? w_n w then
    Ok {| w_rbits := set_nth (w_rbits w) (N.to_nat (w_n w - 1 - pos)) bit; w_n := w_n w; w_scope := w_scope w |}
  else Panic P_OTHER.   (* outside the model: a placeholder position at or beyond the write position *)

(* lift an L1 writer (appended bits) *)
Definition w_put (w : wst) (r : res bits) : res wst := let! b := r in Ok (w_append w b).

(** Scope::write_into_field *)
Definition write_into_field (m : mode) (w : wst) (sc : scope) (is_opt is_present : bool) : res wst :=
  match sc with
  | OptBitField a b =>
      if is_opt then
        let! w := w_patch w a is_present in Ok (w_set_scope w (Some (OptBitField (a + 1) b)))
      else Ok w
  | AllBitField a b =>
      let! w := w_patch w a is_present in Ok (w_set_scope w (Some (AllBitField (a + 1) b)))
  | ExtSeq bit_pos opt calls n_ext =>
      if calls =? 0 then
        let! w := w_patch w bit_pos is_present in
        if is_present then
          let! d := usub m n_ext 1 in
          let! w := w_put w (w_normally_small m d) in
          let pos := w_n w in
          let w := w_append w (repeat true (N.to_nat n_ext)) in
          Ok (w_set_scope w (Some (AllBitField (pos + 1) (w_n w))))
        else Ok (w_set_scope w (Some ExtSeqEmpty))
      else
        let calls' := calls - 1 in
        match opt with
        | Some (a, b) =>
            if is_opt then
              let! w := w_patch w a is_present in
              Ok (w_set_scope w (Some (ExtSeq bit_pos (Some (a + 1, b)) calls' n_ext)))
            else Ok (w_set_scope w (Some (ExtSeq bit_pos opt calls' n_ext)))
        | None => Ok (w_set_scope w (Some (ExtSeq bit_pos opt calls' n_ext)))
        end
  | ExtSeqEmpty => if is_present then Err E_EXT_INCONSISTENT else Ok w
  end.

Definition write_bit_field_entry (m : mode) (w : wst) (is_opt is_present : bool) : res wst :=
  match w_scope w with
  | Some sc => write_into_field m w sc is_opt is_present
  | None => if is_opt then Ok (w_append w [is_present]) else Ok w
  end.

(* scope_pushed(scope, f): on success in a debug build the pushed scope must be exhausted *)
Definition scope_pushed (m : mode) (w : wst) (sc : scope) (f : wst -> res wst) : res wst :=
  let original := w_scope w in
  let! w' := f (w_set_scope w (Some sc)) in
  if debug_asserts m && negb (match w_scope w' with Some s => scope_exhausted s | None => false end)
  then Panic P_ASSERT
  else Ok (w_set_scope w' original).

Definition scope_stashed (w : wst) (f : wst -> res wst) : res wst :=
  let original := w_scope w in
  let! w' := f (w_set_scope w None) in
  Ok (w_set_scope w' original).

(* with_buffer: an open-type field is written into a fresh writer and appended as an octet string *)
Definition with_buffer (m : mode) (w : wst) (f : wst -> res wst) : res wst :=
  if match w_scope w with Some s => encode_as_open_type_field s | None => false end then
    let! sub := f w_empty in
    w_put w (w_octetstring m None None false (bytes_of_bits (w_bits sub)))
  else f w.

Definition write_ext_bit_and_length (m : mode) (w : wst) (extensible : bool) (min max : option N)
           (upper_limit len : N) : res wst :=
  let umin := opt_or min 0 in
  let umax := opt_or max upper_limit in
  let out_of_range := (len <? umin) || (umax <? len) in
  let w := if extensible then w_append w [out_of_range] else w in
  if out_of_range then
    if negb extensible then Err E_SIZE_RANGE
    else let! (b, _) := w_length_determinant m None None len in Ok (w_append w b)
  else let! (b, _) := w_length_determinant m min max len in Ok (w_append w b).

Definition U64_MAX : N := two64 - 1.

Fixpoint find_invalid (c : cset) (chars : list N) : bool :=
  match chars with
  | [] => false
  | ch :: r => negb (cs_valid c ch) || find_invalid c r
  end.

(* the per-character bit fields of the known-multiplier string writers (`char as u8`) *)
Definition char_bits (c : cset) (ch : N) : bits :=
  let b := ch mod 256 in
  match c with
  | Numeric => let x := (if b - 32 =? 0 then 0 else (b - 32 - 15) mod 256) in skipn 4 (byte_bits x)
  | _ => skipn 1 (byte_bits b)
  end.

Definition wf_seq_val (vs : list (option val)) := True.

Fixpoint write_ty (m : mode) (t : ty) (v : val) (w : wst) {struct t} : res wst :=
  match t, v with
  | TBool, VBool b =>
      let! w := write_bit_field_entry m w false true in
      with_buffer m w (fun w => Ok (w_append w [b]))
  | TNull, VNull =>
      let! w := write_bit_field_entry m w false true in
      with_buffer m w (fun w => Ok w)
  | TInt k lo hi ext, VInt z =>
      let! w := write_bit_field_entry m w false true in
      let value := to_i64 z in
      let max_fn :=
        if ext then ((value <? opt_or lo 0) || (opt_or hi I64_MAXz <? value))%Z
        else negb (is_some lo) && negb (is_some hi) in
      with_buffer m w (fun w =>
        let w := if ext then w_append w [max_fn] else w in
        if max_fn then w_put w (w_unconstrained m value)
        else w_put w (w_constrained m (opt_or lo 0%Z) (opt_or hi I64_MAXz) value))
  | TStr Utf8 lo hi ext, VStr chars =>
      let! w := write_bit_field_entry m w false true in
      with_buffer m w (fun w =>
        let n := N.of_nat (length chars) in
        if negb ext && ((n <? opt_or lo 0) || (opt_or hi U64_MAX <? n)) then Err E_SIZE_RANGE
        else w_put w (w_octetstring m None None false (utf8_encode chars)))
  | TStr c lo hi ext, VStr chars =>
      let! w := write_bit_field_entry m w false true in
      with_buffer m w (fun w =>
        if find_invalid c chars then Err E_INVALID_STRING else
        let! w := write_ext_bit_and_length m w ext lo hi U64_MAX (N.of_nat (length chars)) in
        Ok (w_append w (flat_map (char_bits c) chars)))
  | TOctets lo hi ext, VOctets bs =>
      let! w := write_bit_field_entry m w false true in
      with_buffer m w (fun w => w_put w (w_octetstring m lo hi ext bs))
  | TBitStr lo hi ext, VBits bs bl =>
      let! w := write_bit_field_entry m w false true in
      with_buffer m w (fun w => w_put w (w_bitstring m lo hi ext bs 0 bl))
  | TListOf e lo hi ext, VList vs =>
      let! w := write_bit_field_entry m w false true in
      with_buffer m w (fun w =>
      scope_stashed w (fun w =>
        let! w := write_ext_bit_and_length m w ext lo hi I64_MAX (N.of_nat (length vs)) in
        scope_stashed w (fun w =>
          (fix elems (vs : list val) (w : wst) : res wst :=
             match vs with
             | [] => Ok w
             | x :: vs' => let! w := write_ty m e x w in elems vs' w
             end) vs w)))
  | TSeq fs std_opt field_count ext_after, VSeq vals =>
      let! w := write_bit_field_entry m w false true in
      with_buffer m w (fun w =>
        let bit_pos := w_n w in
        let w := match ext_after with Some _ => w_append w [false] | None => w end in
        let write_pos := w_n w in
        let w := w_append w (repeat false (N.to_nat std_opt)) in
        let walk (w : wst) : res wst :=
          (fix fields (fs : list (fkind * ty)) (vals : list (option val)) (w : wst) : res wst :=
             match fs, vals with
             | [], _ => Ok w
             | (FReq, ft) :: fs', Some x :: vals' =>
                 let! w := write_ty m ft x w in fields fs' vals' w
             | (FOpt, ft) :: fs', ov :: vals' =>
                 (* write_opt *)
                 let! w := write_bit_field_entry m w true (is_some ov) in
                 let! w := (match ov with
                            | Some x => with_buffer m w (fun w => scope_stashed w (fun w => write_ty m ft x w))
                            | None => Ok w
                            end) in
                 fields fs' vals' w
             | (FDef d, ft) :: fs', Some x :: vals' =>
                 (* write_default *)
                 let present := negb (val_eqb d x) in
                 let! w := write_bit_field_entry m w true present in
                 let! w := (if present then with_buffer m w (fun w => scope_stashed w (fun w => write_ty m ft x w)) else Ok w) in
                 fields fs' vals' w
             | _, _ => Panic P_OTHER   (* value does not match the type: outside the model *)
             end) fs vals w in
        match ext_after with
        | Some ea =>
            let! nx := usub m field_count (ea + 1) in
            scope_pushed m w (ExtSeq bit_pos (Some (write_pos, write_pos + std_opt)) (ea + 1) nx) walk
        | None => scope_pushed m w (OptBitField write_pos (write_pos + std_opt)) walk
        end)
  | TChoice alts std ext, VChoice index x =>
      let! w := write_bit_field_entry m w false true in
      scope_stashed w (fun w =>
        let! w := w_put w (w_enumeration_index m std ext index) in
        let content (w : wst) : res wst :=
          if N.of_nat (length alts) <=? index then Panic P_OTHER else
          (fix pick (alts : list ty) (i : nat) : res wst :=
             match alts, i with
             | a :: _, O => write_ty m a x w
             | _ :: r, S i' => pick r i'
             | [], _ => Panic P_OTHER
             end) alts (N.to_nat index) in
        if std <=? index then
          let! sub := content w_empty in
          w_put w (w_octetstring m None None false (bytes_of_bits (w_bits sub)))
        else content w)
  | TEnum variant_count std ext, VEnum index =>
      let! w := write_bit_field_entry m w false true in
      with_buffer m w (fun w => w_put w (w_enumeration_index m std ext index))
  | _, _ => Panic P_OTHER
  end.
