(* Type-level reference of the canonical UNALIGNED PER encoding (ITU-T X.691 08/2015), written clause
   by clause from the standard over the descriptor universe [ty] and independent of the writer model
   (Uper/Writer.v) and of its implementation-shaped reference (Uper/Spec.v): it uses only the
   primitive transcriptions of Per/X691.v.  [None] = the value is not a value of the type
   (constraint violated where the constraint is not extensible). *)
From A1 Require Export Uper.Ty.
From A1 Require Import Per.X691.
Local Open Scope N_scope.

Definition in_range (lo hi : option Z) (v : Z) : bool :=
  match lo with Some l => (l <=? v)%Z | None => true end &&
  match hi with Some h => (v <=? h)%Z | None => true end.
Definition in_size (lo hi : option N) (n : N) : bool :=
  match lo with Some l => l <=? n | None => true end &&
  match hi with Some h => n <=? h | None => true end.

(* 13: INTEGER.  PER-visible bounds: both -> constrained (11.5), lower only -> semi-constrained (11.7),
   otherwise unconstrained (11.8); an extensible constraint adds the extension bit (13.1) and
   out-of-root values are encoded as unconstrained *)
Definition x_integer (lo hi : option Z) (ext : bool) (v : Z) : option bits :=
  let root :=
    match lo, hi with
    | Some l, Some h => x_constrained l h v
    | Some l, None => x_semi_constrained l v
    | None, _ => Some (x_unconstrained v)
    end in
  if in_range lo hi v then
    match root with
    | Some b => Some (if ext then false :: b else b)
    | None => None
    end
  else if ext then Some (true :: x_unconstrained v)
  else None.

(* 11.2 / 11.9: an open type: the complete encoding padded to octets (at least one), as an
   unconstrained-length run of octets *)
Definition x_open_type (content : bits) : bits :=
  let octs := match bytes_of_bits content with [] => [0] | l => l end in
  x_unconstrained_length_run 8 (N.of_nat (length octs)) (bits_of_bytes octs).

(* 30: restricted character strings.  IA5String / VisibleString / PrintableString: 7 bits per
   character holding the character value (30.5.2, 30.5.4: largest value <= 2^7 - 1);
   NumericString: 4 bits holding the index in " 0123456789" (30.5.4).  UTF8String is not a
   known-multiplier type: octets of the UTF-8 form with an unconstrained length (30.3). *)
Definition x_char (c : cset) (ch : N) : bits :=
  match c with
  | Numeric => field 4 (if ch =? 32 then 0 else ch - 47)
  | _ => field 7 ch
  end.
Definition char_unit (c : cset) : N := match c with Numeric => 4 | _ => 7 end.

(* a count-prefixed run with a SIZE constraint (16.*, 17.*, 20.*, 30.5.7): shared by the string kinds *)
Definition x_run (unit : N) (lo hi : option N) (ext : bool) (n : N) (body : bits) : option bits :=
  x_sized_run unit lo hi ext n body.

Fixpoint x_all {A} (f : A -> option bits) (l : list A) : option bits :=
  match l with
  | [] => Some []
  | a :: r => match f a, x_all f r with Some x, Some y => Some (x ++ y) | _, _ => None end
  end.

(* 11.9.3.4: normally small length (used for the number of extension additions) *)
Definition x_normally_small_length (n : N) : bits :=
  if n <=? 64 then false :: field 6 (n - 1)
  else true :: x_len_first n.

Fixpoint x691 (t : ty) (v : val) {struct t} : option bits :=
  match t, v with
  | TBool, VBool b => Some [b]                                         (* 12 *)
  | TNull, VNull => Some []                                            (* 24 *)
  | TInt _ lo hi ext, VInt z => x_integer lo hi ext z
  | TEnum vc std ext, VEnum i => if i <? vc then x_index std ext i else None     (* 14 *)
  | TOctets lo hi ext, VOctets bs => x_octetstring lo hi ext bs        (* 17 *)
  | TBitStr lo hi ext, VBits bs bl =>                                   (* 16 *)
      x_bitstring lo hi ext (firstn (N.to_nat bl) (bits_of_bytes bs))
  | TStr Utf8 lo hi ext, VStr cs =>
      if in_size lo hi (N.of_nat (length cs)) || ext
      then x_octetstring None None false (utf8_encode cs) else None
  | TStr c lo hi ext, VStr cs =>
      if forallb (cs_valid c) cs
      then x_run (char_unit c) lo hi ext (N.of_nat (length cs)) (flat_map (x_char c) cs)
      else None
  | TListOf e lo hi ext, VList vs =>                                    (* 20 *)
      (* elements have no fixed width: the run is assembled from the element encodings; for fewer
         than 16K elements the unconstrained form is one length followed by the elements *)
      match x_all (x691 e) vs with
      | Some body =>
          let n := N.of_nat (length vs) in
          let small := n <? 16384 in
          let l := match lo with Some l => l | None => 0 end in
          let in_root := in_size lo hi n in
          let unc := if small then Some (x_len_short n ++ body) else None in   (* >= 16K elements: fragmented, not transcribed here *)
          if in_root then
            let pre := if ext then [false] else [] in
            match hi with
            | Some u =>
                if u <? 65536 then
                  if (l =? u) then Some (pre ++ body)
                  else match x_constrained (Z.of_N l) (Z.of_N u) (Z.of_N n) with
                       | Some lenb => Some (pre ++ lenb ++ body) | None => None end
                else option_map (app pre) unc
            | None => option_map (app pre) unc
            end
          else if ext then option_map (cons true) unc
          else None
      | None => None
      end
  | TSeq fs std_opt field_count ext_after, VSeq vals =>                 (* 19 *)
      let nroot := match ext_after with Some ea => S (N.to_nat ea) | None => length fs end in
      (* per component: (present, encoding) *)
      let comps :=
        (fix go (fs : list (fkind * ty)) (vals : list (option val)) : option (list (bool * bool * bits)) :=
           match fs, vals with
           | [], [] => Some []
           | (FReq, ft) :: fs', Some x :: vals' =>
               match x691 ft x, go fs' vals' with
               | Some b, Some r => Some ((false, true, b) :: r) | _, _ => None end
           | (FOpt, ft) :: fs', None :: vals' =>
               option_map (cons (true, false, [])) (go fs' vals')
           | (FOpt, ft) :: fs', Some x :: vals' =>
               match x691 ft x, go fs' vals' with
               | Some b, Some r => Some ((true, true, b) :: r) | _, _ => None end
           | (FDef d, ft) :: fs', Some x :: vals' =>
               if val_eqb d x then option_map (cons (true, false, [])) (go fs' vals')   (* 19.5: omitted when equal to the default *)
               else match x691 ft x, go fs' vals' with
                    | Some b, Some r => Some ((true, true, b) :: r) | _, _ => None end
           | _, _ => None
           end) fs vals in
      match comps with
      | None => None
      | Some cs =>
          let root := firstn nroot cs in
          let adds := skipn nroot cs in
          let any_add := existsb (fun c : bool * bool * bits => snd (fst c)) adds in
          let ext_bit := match ext_after with Some _ => [any_add] | None => [] end in           (* 19.1 *)
          let preamble := flat_map (fun c : bool * bool * bits => if fst (fst c) then [snd (fst c)] else []) root in  (* 19.2 *)
          let root_body := flat_map (fun c : bool * bool * bits => if snd (fst c) then snd c else []) root in          (* 19.4 *)
          let add_part :=
            if any_add then
              x_normally_small_length (N.of_nat (length adds))                                    (* 19.8 *)
                ++ map (fun c : bool * bool * bits => snd (fst c)) adds                                               (* 19.7 *)
                ++ flat_map (fun c : bool * bool * bits => if snd (fst c) then x_open_type (snd c) else []) adds      (* 19.9 *)
            else [] in
          Some (ext_bit ++ preamble ++ root_body ++ add_part)
      end
  | TChoice alts std ext, VChoice i x =>                                (* 23 *)
      if N.of_nat (length alts) <=? i then None else
      match (fix pick (alts : list ty) (k : nat) : option bits :=
               match alts, k with
               | a :: _, O => x691 a x
               | _ :: r, S k' => pick r k'
               | [], _ => None
               end) alts (N.to_nat i) with
      | Some b =>
          if i <? std then
            match x_constrained 0 (Z.of_N std - 1) (Z.of_N i) with
            | Some ib => Some ((if ext then [false] else []) ++ ib ++ b)     (* 23.6 / 23.7 *)
            | None => None
            end
          else if ext then Some (true :: x_normally_small (i - std) ++ x_open_type b)   (* 23.8 *)
          else None
      | None => None
      end
  | _, _ => None
  end.
