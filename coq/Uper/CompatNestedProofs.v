(* C05 at arbitrary depth: the evolving type may be a component of a SEQUENCE/SET (root component or
   extension addition, i.e. inside an open type), the element type of a SEQUENCE OF or an alternative
   of a CHOICE, and several nested types may evolve at once.  The walk lemmas of Uper/Proofs.v and
   Uper/CompatFullProofs.v are restated for a writer component list and a reader component list that
   differ in their component types; the per-component fact is [Cprop] (the reader of one type on the
   reference encoding of the other).  An unknown CHOICE alternative / ENUMERATED item anywhere inside an
   encoded position makes the whole read fail with InvalidChoiceIndex.
   What the reader does inside scopes, as far as it matters here: a nested type read while an outer
   presence scope is active factors through the same reader with no scope (read_ty_factor, stashed_read
   of Uper/Proofs.v); inside an open type the inner reader stops after the last addition it skipped (the
   padding of the open type is still ahead) and read_whole_sub_slice repositions the cursor to the end of
   the window on success, and passes an inner error on unchanged.
   Main results: compat_deep (one induction for both directions), C05_forward_deep_thm,
   C05_backward_deep_thm, conv_none_unknown (the old reader fails only on an unknown alternative/item),
   extends_deep_trans. *)
From A1 Require Import Uper.Spec Uper.Proofs Uper.CompatProofs Uper.CompatFullProofs.
From A1 Require Import Bits.Proofs.
From A1 Require Import Per.Proofs.
Require Import ZifyBool ZifyNat ZifyN.
Local Open Scope N_scope.

(** * the relation between the two schema versions, at any depth *)
(* a component keeps its kind (and default); the type of a DEFAULT component does not evolve (its
   default value would have to change with it) *)
Definition field_ext (R : ty -> ty -> Prop) (f1 f2 : fkind * ty) : Prop :=
  fst f1 = fst f2 /\ R (snd f1) (snd f2) /\
  match fst f1 with FDef _ => snd f1 = snd f2 | _ => True end.

Inductive extends_deep : ty -> ty -> Prop :=
| ed_refl t : extends_deep t t
| ed_list e1 e2 lo hi ext :
    extends_deep e1 e2 -> extends_deep (TListOf e1 lo hi ext) (TListOf e2 lo hi ext)
| ed_seq fs1 fs2 adds so fc ea :
    (* the components evolve pointwise and, at the same node, additions may be appended *)
    Forall2 (field_ext extends_deep) fs1 fs2 ->
    Forall optk adds -> (adds <> [] -> ea <> None) ->
    extends_deep (TSeq fs1 so fc ea) (TSeq (fs2 ++ adds) so (fc + N.of_nat (length adds)) ea)
| ed_choice a1 a2 more std ext :
    Forall2 extends_deep a1 a2 -> (more <> [] -> ext = true) ->
    extends_deep (TChoice a1 std ext) (TChoice (a2 ++ more) std ext)
| ed_enum vc k std :
    extends_deep (TEnum vc std true) (TEnum (vc + k) std true).

(** * value translations *)
(* option-valued traversals: [None] = an index the reader does not know *)
Definition tr_ov (f : val -> option val) (ov : option val) : option (option val) :=
  match ov with Some x => option_map Some (f x) | None => Some None end.

Definition tr_vals (tr : ty -> ty -> val -> option val) :=
  fix go (fsW fsR : list (fkind * ty)) (vals : list (option val)) {struct fsW} : option (list (option val)) :=
    match fsW, fsR, vals with
    | (_, tW) :: fsW', (_, tR) :: fsR', ov :: vals' =>
        match tr_ov (tr tW tR) ov with
        | None => None
        | Some o => option_map (cons o) (go fsW' fsR' vals')
        end
    | _, _, _ => Some []
    end.

Fixpoint tr_list (f : val -> option val) (vs : list val) : option (list val) :=
  match vs with
  | [] => Some []
  | x :: r => match f x with None => None | Some y => option_map (cons y) (tr_list f r) end
  end.

Definition tr_pick (tr : ty -> ty -> val -> option val) (x : val) :=
  fix pick (aW aR : list ty) (n : nat) {struct aW} : option val :=
    match aW, aR, n with
    | tW :: _, tR :: _, O => tr tW tR x
    | _ :: rW, _ :: rR, S n' => pick rW rR n'
    | _, _, _ => None
    end.

(* what the reader of type [R] returns for a value written under type [W]: common components are
   translated pointwise, components only the writer has are dropped, components only the reader has
   are absent (DEFAULT: the default); [None] when a CHOICE alternative / ENUMERATED item the reader
   does not have occurs *)
Fixpoint conv_deep (W R : ty) (v : val) {struct W} : option val :=
  match W, R, v with
  | TListOf eW _ _ _, TListOf eR _ _ _, VList vs => option_map VList (tr_list (conv_deep eW eR) vs)
  | TSeq fsW _ _ _, TSeq fsR _ _ _, VSeq vals =>
      option_map (fun l => VSeq (l ++ pad_of (skipn (length fsW) fsR))) (tr_vals conv_deep fsW fsR vals)
  | TChoice aW _ _, TChoice aR _ _, VChoice i x =>
      option_map (VChoice i) (tr_pick conv_deep x aW aR (N.to_nat i))
  | TEnum _ _ _, TEnum vcR _ _, VEnum i => if i <? vcR then Some v else None
  | _, _, _ => Some v
  end.

(* backward: a V2 value seen by the V1 reader *)
Definition forget_deep (V1 V2 : ty) (v : val) : option val := conv_deep V2 V1 v.

(* forward: a V1 value seen by the V2 reader (total) *)
Definition pad_vals (f : ty -> ty -> val -> val) :=
  fix go (fs1 fs2 : list (fkind * ty)) (vals : list (option val)) : list (option val) :=
    match fs1, fs2, vals with
    | (_, t1) :: fs1', (_, t2) :: fs2', ov :: vals' => option_map (f t1 t2) ov :: go fs1' fs2' vals'
    | _, _, _ => []
    end.
Definition pad_pick (f : ty -> ty -> val -> val) (x : val) :=
  fix pick (a1 a2 : list ty) (n : nat) : val :=
    match a1, a2, n with
    | t1 :: _, t2 :: _, O => f t1 t2 x
    | _ :: r1, _ :: r2, S n' => pick r1 r2 n'
    | _, _, _ => x
    end.
Fixpoint pad_deep (V1 V2 : ty) (v : val) {struct V1} : val :=
  match V1, V2, v with
  | TListOf e1 _ _ _, TListOf e2 _ _ _, VList vs => VList (map (pad_deep e1 e2) vs)
  | TSeq fs1 _ _ _, TSeq fs2 _ _ _, VSeq vals =>
      VSeq (pad_vals pad_deep fs1 fs2 vals ++ pad_of (skipn (length fs1) fs2))
  | TChoice a1 _ _, TChoice a2 _ _, VChoice i x => VChoice i (pad_pick pad_deep x a1 a2 (N.to_nat i))
  | _, _, _ => v
  end.

(** * the per-component fact and the walks over two component lists *)
Section Walk.
Variable m : mode.

Definition Cprop (W R : ty) (f : val -> option val) : Prop :=
  forall v bs, enc m W v = Ok bs -> wf_val W v -> ~ Known_C01 m W v ->
  forall s tail, rsrc s bs tail ->
  read_ty m R (r_of_src s) =
  match f v with
  | Some v' => Ok (v', r_of_src (src_adv s (bl bs) tail))
  | None => Err E_INVALID_CHOICE
  end.

Lemma open_read_o {A} cb wb s tail (f : rst -> res (A * rst)) (ox : option A) :
  wrap_open m cb = Ok wb -> (bl cb + 7) / 8 < 16384 -> rsrc s wb tail ->
  (forall s' tl, rsrc s' cb tl ->
     f (r_of_src s') = match ox with Some x => Ok (x, r_of_src (src_adv s' (bl cb) tl)) | None => Err E_INVALID_CHOICE end) ->
  (let! (len, r2) := r_get (r_of_src s) (r_length_determinant m None None) in
   read_whole_sub_slice m r2 len f) =
  match ox with Some x => Ok (x, r_of_src (src_adv s (bl wb) tail)) | None => Err E_INVALID_CHOICE end.
Proof.
  intros Hw Hn Hs Hf. destruct ox as [x|]; [apply (open_read m cb wb s tail f x Hw Hn Hs Hf)|].
  pose proof (wrap_open_small m cb wb Hw Hn) as E.
  set (n := (bl cb + 7) / 8) in *. set (pad := repeat false (pad8 (length cb))) in *.
  assert (Hpad : bl cb + bl pad = 8 * n).
  { pose proof (f_equal bl (bits_of_bytes_of_bits cb)) as EL. rewrite bits_len8, bytes_of_bits_len, bl_app in EL.
    fold pad n in EL. lia. }
  assert (Hwb : bl wb = bl (x_len_short n) + 8 * n) by (rewrite E, !bl_app; lia).
  pose proof Hs as Hs0. rewrite E in Hs. apply rsrc_split in Hs. destruct Hs as [H1 H2].
  assert (Ex : x_length None None n = Some (x_len_first n)).
  { unfold x_length. destruct (N.leb_spec 0 n); [reflexivity|lia]. }
  rewrite <- (x_len_first_short n Hn) in H1, H2.
  rewrite r_get_of_src.
  rewrite (length_read m None None n _ s _ ltac:(intros C; apply C; reflexivity) Ex (proj1 H1)).
  unfold len_result, len_frag. rewrite frag_of_short by exact Hn. cbn [bind].
  unfold read_whole_sub_slice. cbn [r_src r_of_src].
  destruct Hs0 as [(_ & HL & HT) (_ & H64)].
  assert (U1 : umul m n BYTE_LEN = Ok (8 * n)).
  { unfold umul, BYTE_LEN. destruct (N.ltb_spec (n * 8) two64) as [L|L]; [f_equal; lia|unfold two64 in L; lia]. }
  rewrite U1. cbn [bind]. unfold src_adv at 1. cbn [s_pos].
  rewrite (x_len_first_short n Hn) in *.
  rewrite uadd_ok by lia. cbn [bind].
  apply rsrc_split in H2. destruct H2 as [H2 _].
  rewrite (Hf _ _ H2). reflexivity.
Qed.

(** ** SEQUENCE OF *)
Lemma relems_spec2 eW eR f : Cprop eW eR f ->
  forall vs body s tail acc, enc_elems m eW vs = Ok body -> all_wf_val eW vs -> ~ any_known m eW vs ->
  rsrc s body tail ->
  relems m eR false (length vs) (r_of_src s) acc =
  match tr_list f vs with
  | Some vs' => Ok (VList (rev acc ++ vs'), r_of_src (src_adv s (bl body) tail))
  | None => Err E_INVALID_CHOICE
  end.
Proof.
  intros IH. induction vs as [|x vs IHl]; intros body s tail acc He Hv Hk Hs.
  - cbn [enc_elems] in He. injection He as <-. cbn [length relems tr_list]. unfold frev.
    rewrite rev_append_rev, !app_nil_r, bl_nil, (src_adv_nil _ _ (proj1 Hs)). reflexivity.
  - cbn [enc_elems] in He. destruct (enc m eW x) as [a| |] eqn:Ea; cbn [bind] in He; try discriminate He.
    destruct (enc_elems m eW vs) as [b| |] eqn:Eb; cbn [bind] in He; try discriminate He. injection He as <-.
    cbn [all_wf_val] in Hv. destruct Hv as [Hx Hv]. cbn [any_known] in Hk.
    apply rsrc_split in Hs. destruct Hs as [H1 H2].
    cbn [length relems tr_list]. rewrite (IH x a Ea Hx (fun C => Hk (or_introl C)) _ _ H1).
    destruct (f x) as [y|]; [|reflexivity]. cbn [bind andb].
    rewrite (IHl b _ tail (y :: acc) eq_refl Hv (fun C => Hk (or_intror C)) H2).
    destruct (tr_list f vs) as [vs'|]; [|reflexivity].
    cbn [option_map rev]. rewrite <- app_assoc. cbn [app].
    rewrite src_adv_adv, bl_app. reflexivity.
Qed.

Definition conv_list (f : val -> option val) (v : val) : option val :=
  match v with VList vs => option_map VList (tr_list f vs) | _ => Some v end.

Lemma C_list eW eR f lo hi ext : Cprop eW eR f ->
  Cprop (TListOf eW lo hi ext) (TListOf eR lo hi ext) (conv_list f).
Proof.
  intros IH v bs He Hv Hk s tail Hs. destruct v; try discriminate He; try contradiction Hv.
  cbn [enc] in He. fold (enc_elems m eW) in He.
  destruct (len_hdr m ext lo hi I64_MAX (N.of_nat (length vs))) as [h| |] eqn:Eh; cbn [bind] in He; try discriminate He.
  destruct (enc_elems m eW vs) as [body| |] eqn:Eb; cbn [bind] in He; try discriminate He. injection He as <-.
  cbn [wf_val] in Hv. destruct Hv as [Hlen Hv]. cbn [Known_C01] in Hk.
  cbn [read_ty conv_list]. rewrite rentry_none' by reflexivity. cbn [bind]. rewrite rwith_buffer_none by reflexivity.
  apply rsrc_split in Hs. destruct Hs as [H1 H2].
  destruct (len_hdr_read m ext lo hi I64_MAX _ h s _ Eh (fun C => Hk (or_introl C)) (proj1 H1)) as [E Hn]. rewrite E. cbn [bind].
  destruct (N.ltb_spec 0 (N.of_nat (length vs))) as [L|L].
  - unfold rscope_stashed. change (r_set_scope (r_of_src ?x) None) with (r_of_src x). cbn [r_scope r_of_src].
    rewrite alloc_ok by (unfold ALLOC_LIMIT; lia). cbn [bind]. cbv zeta.
    destruct (N.ltb_spec LOOP_LIMIT (N.of_nat (length vs))) as [L2|L2]; [unfold LOOP_LIMIT in L2; lia|].
    rewrite Nat2N.id. fold (relems m eR false).
    rewrite (relems_spec2 eW eR f IH vs body _ tail [] Eb Hv (fun C => Hk (or_intror C)) H2).
    destruct (tr_list f vs) as [vs'|]; [|reflexivity]. cbn [bind rev app option_map].
    rewrite src_adv_adv, bl_app. reflexivity.
  - destruct vs; [|cbn [length] in L; lia]. cbn [enc_elems] in Eb. injection Eb as <-.
    rewrite app_nil_r. cbn [app tr_list option_map]. reflexivity.
Qed.

Variable tr : ty -> ty -> val -> option val.

(** ** one component *)
Lemma rfield_spec2 k ftW ftR ov p b s sc ob s1 sc1 opn :
  Cprop ftW ftR (tr ftW ftR) -> is_choice ftR = is_choice ftW ->
  enc_field m (k, ftW) ov = Ok (p, b) -> fld_ok m opn k ftW ov ->
  (match k with FDef d => tr ftW ftR d = Some d | _ => True end) ->
  read_from_field m (mk_r s sc) sc (is_optk k) = Ok (inl ob, mk_r s1 sc1) ->
  (is_optk k = true -> ob = Some p) ->
  opn = encode_as_open_type_field sc1 ->
  forall bits tl,
  (if p then (if opn && wraps k ftW then wrap_open m b = Ok bits else bits = b) else bits = []) ->
  rsrc s1 bits tl ->
  rfield m (k, ftR) (mk_r s sc) =
  match tr_ov (tr ftW ftR) ov with
  | Some ov' => Ok (ov', mk_r (src_adv s1 (bl bits) tl) sc1)
  | None => Err E_INVALID_CHOICE
  end.
Proof.
  intros IH Hch Hef Hok Hd Hent Hob Hopn bits tl Hbits Hs.
  assert (Hst : read_bit_field_entry_st m (mk_r s sc) (is_optk k) = Ok (inl ob, mk_r s1 sc1)) by exact Hent.
  assert (Hcontent : forall x wr, enc m ftW x = Ok b -> wf_val ftW x -> ~ Known_C01 m ftW x ->
            (opn = true -> wr = true -> ~ Known_C01_open_type_16k m ftW x) ->
            (if opn && wr then wrap_open m b = Ok bits else bits = b) ->
            (if ropen (mk_r s1 sc1) && wr then
               let! (len, r2) := r_get (mk_r s1 sc1) (r_length_determinant m None None) in
               let! (y, r3) := read_whole_sub_slice m (r_set_scope r2 None) len (read_ty m ftR) in
               Ok (y, r_set_scope r3 (r_scope (mk_r s1 sc1)))
             else let! (y, r2) := read_ty m ftR (r_set_scope (mk_r s1 sc1) None) in
                  Ok (y, r_set_scope r2 (r_scope (mk_r s1 sc1))))
            = match tr ftW ftR x with
              | Some x' => Ok (x', mk_r (src_adv s1 (bl bits) tl) sc1)
              | None => Err E_INVALID_CHOICE
              end).
  { intros x wr He Hv Hk Hbig Hb. unfold ropen. cbn [r_scope mk_r]. rewrite <- Hopn.
    destruct (opn && wr) eqn:Eo.
    - apply andb_true_iff in Eo. destruct Eo as [-> ->].
      assert (Hsm : (bl b + 7) / 8 < 16384).
      { destruct (N.lt_ge_cases ((bl b + 7) / 8) 16384) as [L|L]; [exact L|]. exfalso.
        apply (Hbig eq_refl eq_refl). exists b. split; assumption. }
      pose proof (open_read_o b bits s1 tl (read_ty m ftR) (tr ftW ftR x) Hb Hsm Hs
                    (fun s' tl' Hs' => IH x b He Hv Hk s' tl' Hs')) as Ho.
      unfold r_get, mk_r, r_of_src in *. cbn [r_src] in *.
      destruct (r_length_determinant m None None s1) as [[len s2]| |]; cbn [bind] in *.
      + change (r_set_scope (r_set_src {| r_src := s1; r_scope := Some sc1 |} s2) None) with {| r_src := s2; r_scope := None |}.
        change (r_set_src {| r_src := s1; r_scope := None |} s2) with {| r_src := s2; r_scope := None |} in Ho.
        rewrite Ho. destruct (tr ftW ftR x); reflexivity.
      + destruct (tr ftW ftR x); [discriminate Ho|exact Ho].
      + destruct (tr ftW ftR x); discriminate Ho.
    - subst bits. change (r_set_scope (mk_r s1 sc1) None) with (r_of_src s1).
      rewrite (IH x b He Hv Hk s1 tl Hs). destruct (tr ftW ftR x); reflexivity. }
  destruct k as [| |d]; cbn [is_optk] in *.
  - (* mandatory *)
    destruct ov as [x|]; cbn [enc_field] in Hef; [|discriminate Hef].
    destruct (enc m ftW x) as [b'| |] eqn:He; cbn [bind] in Hef; try discriminate Hef. injection Hef as <- <-.
    cbn [fld_ok] in Hok. destruct Hok as [Hv Hk]. destruct (Hk I) as [Hk1 Hk2].
    cbn [rfield tr_ov]. rewrite (read_ty_factor m ftR _ _ _ Hst). rewrite Hch.
    assert (Hb' : if opn && negb (is_choice ftW) then wrap_open m b' = Ok bits else bits = b') by exact Hbits.
    rewrite (Hcontent x (negb (is_choice ftW)) He Hv Hk1 Hk2 Hb').
    destruct (tr ftW ftR x); reflexivity.
  - (* OPTIONAL *)
    specialize (Hob eq_refl). subst ob. cbn [rfield]. unfold read_bit_field_entry. rewrite Hst. cbn [bind].
    destruct ov as [x|]; cbn [enc_field] in Hef.
    + destruct (enc m ftW x) as [b'| |] eqn:He; cbn [bind] in Hef; try discriminate Hef. injection Hef as <- <-.
      cbn [fld_ok] in Hok. destruct Hok as [Hv Hk]. destruct (Hk I) as [Hk1 Hk2].
      rewrite stashed_read.
      pose proof (Hcontent x true He Hv Hk1 Hk2 Hbits) as Hc. rewrite andb_true_r in Hc.
      rewrite Hc. cbn [tr_ov]. destruct (tr ftW ftR x); reflexivity.
    + injection Hef as <- <-. subst bits. rewrite bl_nil, (src_adv_nil _ _ (proj1 Hs)). reflexivity.
  - (* DEFAULT *)
    specialize (Hob eq_refl). subst ob. cbn [rfield]. unfold read_bit_field_entry. rewrite Hst. cbn [bind].
    destruct ov as [x|]; cbn [enc_field] in Hef; [|discriminate Hef].
    cbn [fld_ok] in Hok. destruct Hok as [Hv Hk]. cbn [encoded] in Hk.
    destruct (val_eqb d x) eqn:Ed.
    + injection Hef as <- <-. subst bits. apply val_eqb_eq in Ed. subst x.
      rewrite bl_nil, (src_adv_nil _ _ (proj1 Hs)). cbn [tr_ov]. rewrite Hd. reflexivity.
    + destruct (enc m ftW x) as [b'| |] eqn:He; cbn [bind] in Hef; try discriminate Hef. injection Hef as <- <-.
      destruct (Hk eq_refl) as [Hk1 Hk2].
      rewrite stashed_read.
      pose proof (Hcontent x true He Hv Hk1 Hk2 Hbits) as Hc. rewrite andb_true_r in Hc.
      rewrite Hc. cbn [tr_ov]. destruct (tr ftW ftR x); reflexivity.
Qed.

(** ** component lists *)
Fixpoint flds_ok2 (opn : bool) (fsW fsR : list (fkind * ty)) (vals : list (option val)) : Prop :=
  match fsW, fsR, vals with
  | [], [], [] => True
  | (k, tW) :: fsW', (k', tR) :: fsR', ov :: vals' =>
      (k' = k /\ is_choice tR = is_choice tW /\ Cprop tW tR (tr tW tR) /\
       match k with FDef d => tr tW tR d = Some d | _ => True end /\ fld_ok m opn k tW ov)
      /\ flds_ok2 opn fsW' fsR' vals'
  | _, _, _ => False
  end.

Lemma tr_vals_cons kW tW fsW kR tR fsR ov vals :
  tr_vals tr ((kW, tW) :: fsW) ((kR, tR) :: fsR) (ov :: vals) =
  match tr_ov (tr tW tR) ov with
  | None => None
  | Some o => option_map (cons o) (tr_vals tr fsW fsR vals)
  end.
Proof. reflexivity. Qed.

Lemma root_walk_r2 s0 : forall rfsW rfsR vals fes a b x s' tl acc,
  flds_ok2 false rfsW rfsR vals -> enc_fields m rfsW vals = Ok fes ->
  bits_at s0 a (flags_of rfsW fes) -> a + N.of_nat (nopt rfsW) <= b -> xge x (length rfsW) ->
  same_buf s0 s' -> rsrc s' (payload_of fes) tl ->
  rwalk m rfsR (mk_r s' (root_scope x a b)) acc =
  match tr_vals tr rfsW rfsR vals with
  | Some vals' =>
      Ok (rev vals' ++ acc,
          mk_r (src_adv s' (bl (payload_of fes)) tl) (root_scope (xsub x (length rfsW)) (a + N.of_nat (nopt rfsW)) b))
  | None => Err E_INVALID_CHOICE
  end.
Proof.
  induction rfsW as [|[k ft] rfsW IHl]; intros rfsR vals fes a b x s' tl acc Hok He Hbits Hab Hx Hsb Hs.
  - destruct rfsR; [|contradiction Hok]. destruct vals; [|contradiction Hok]. cbn in He. injection He as <-.
    cbn [rwalk rev app payload_of map concat length nopt filter tr_vals]. rewrite bl_nil, (src_adv_nil _ _ (proj1 Hs)).
    change (N.of_nat 0) with 0. rewrite N.add_0_r.
    destruct x as [[[bp c] nx]|]; cbn [xsub]; rewrite ?N.sub_0_r; reflexivity.
  - destruct rfsR as [|[k' ftR] rfsR]; [contradiction Hok|].
    destruct vals as [|ov vals]; [contradiction Hok|]. cbn [flds_ok2] in Hok.
    destruct Hok as [(-> & Hch & HR & Hd & Hf) Hok].
    rewrite enc_fields_cons in He.
    destruct (enc_field m (k, ft) ov) as [[p b0]| |] eqn:Ef; cbn [bind] in He; try discriminate He.
    destruct (enc_fields m rfsW vals) as [fes'| |] eqn:Er; cbn [bind] in He; try discriminate He. injection He as <-.
    cbn [flags_of] in Hbits. apply bits_at_app in Hbits. destruct Hbits as [Hb1 Hb2].
    unfold nopt in Hab. cbn [filter fst] in Hab. cbn [length] in Hx.
    assert (Hx1 : xge x 1) by (destruct x as [[[bp c] nx]|]; cbn [xge] in *; lia).
    destruct (entry_root_r m s' x a b (is_optk k) p) as (ob & Hent & Hob); [|exact Hx1|].
    { intros Ho. rewrite Ho in *. cbn [length] in Hab. split; [|lia].
      apply bits_at_cons in Hb1. apply (proj1 Hb1). exact Hsb. }
    cbn [payload_of map concat snd] in Hs. fold (payload_of fes') in Hs.
    apply rsrc_split in Hs. destruct Hs as [Hs1 Hs2].
    assert (Hb0 : p = false -> b0 = []) by (intros ->; eapply enc_field_absent; exact Ef).
    cbn [rwalk]. rewrite tr_vals_cons.
    rewrite (rfield_spec2 k ft ftR ov p b0 s' _ ob s' _ false HR Hch Ef Hf Hd Hent Hob
               ltac:(destruct x as [[[? ?] ?]|]; reflexivity) b0 _
               ltac:(destruct p; [reflexivity|auto]) Hs1).
    destruct (tr_ov (tr ft ftR) ov) as [o|]; [|reflexivity].
    cbn [bind].
    rewrite (IHl rfsR vals fes' _ b (xsub x 1) _ tl (o :: acc) Hok Er).
    + destruct (tr_vals tr rfsW rfsR vals) as [vals'|]; [|reflexivity].
      cbn [option_map rev length payload_of map concat snd]. fold (payload_of fes'). rewrite <- app_assoc. cbn [app].
      rewrite src_adv_adv, bl_app, xsub_xsub. unfold nopt. cbn [filter fst].
      destruct (is_optk k); cbn [length app bl]; do 4 f_equal; lia.
    + destruct (is_optk k); cbn [app bl length] in Hb2; [|rewrite N.add_0_r in Hb2; exact Hb2].
      change (bl [p]) with 1 in Hb2. exact Hb2.
    + unfold nopt. destruct (is_optk k); cbn [length] in Hab; lia.
    + destruct x as [[[bp c] nx]|]; cbn [xge xsub] in *; lia.
    + eapply same_buf_trans; [exact Hsb|apply same_buf_adv].
    + exact Hs2.
Qed.

Lemma all_walk_r2 s0 : forall afsW afsR vals fes ap a b s' tl acc,
  flds_ok2 true afsW afsR vals -> enc_fields m afsW vals = Ok fes -> add_payloads m afsW fes = Ok ap ->
  bits_at s0 a (map fst fes) -> a + N.of_nat (length afsW) <= b ->
  same_buf s0 s' -> rsrc s' ap tl ->
  rwalk m afsR (mk_r s' (AllBitField a b)) acc =
  match tr_vals tr afsW afsR vals with
  | Some vals' => Ok (rev vals' ++ acc, mk_r (src_adv s' (bl ap) tl) (AllBitField (a + N.of_nat (length afsW)) b))
  | None => Err E_INVALID_CHOICE
  end.
Proof.
  induction afsW as [|[k ft] afsW IHl]; intros afsR vals fes ap a b s' tl acc Hok He Hap Hbits Hab Hsb Hs.
  - destruct afsR; [|contradiction Hok]. destruct vals; [|contradiction Hok].
    cbn in He. injection He as <-. cbn in Hap. injection Hap as <-.
    cbn [rwalk rev app length tr_vals]. rewrite bl_nil, (src_adv_nil _ _ (proj1 Hs)).
    change (N.of_nat 0) with 0. rewrite N.add_0_r. reflexivity.
  - destruct afsR as [|[k' ftR] afsR]; [contradiction Hok|].
    destruct vals as [|ov vals]; [contradiction Hok|]. cbn [flds_ok2] in Hok.
    destruct Hok as [(-> & Hch & HR & Hd & Hf) Hok].
    rewrite enc_fields_cons in He.
    destruct (enc_field m (k, ft) ov) as [[p b0]| |] eqn:Ef; cbn [bind] in He; try discriminate He.
    destruct (enc_fields m afsW vals) as [fes'| |] eqn:Er; cbn [bind] in He; try discriminate He. injection He as <-.
    cbn [add_payloads] in Hap.
    destruct (if p && wraps k ft then wrap_open m b0 else Ok b0) as [y| |] eqn:Ey; cbn [bind] in Hap; try discriminate Hap.
    destruct (add_payloads m afsW fes') as [ap'| |] eqn:Eap; cbn [bind] in Hap; try discriminate Hap. injection Hap as <-.
    cbn [map fst] in Hbits. apply bits_at_cons in Hbits. destruct Hbits as [Hb1 Hb2].
    cbn [length] in Hab.
    apply rsrc_split in Hs. destruct Hs as [Hs1 Hs2].
    assert (Hb0 : p = false -> b0 = []) by (intros ->; eapply enc_field_absent; exact Ef).
    cbn [rwalk]. rewrite tr_vals_cons.
    rewrite (rfield_spec2 k ft ftR ov p b0 s' _ (Some p) s' _ true HR Hch Ef Hf Hd
               (entry_all_r m s' a b (is_optk k) p ltac:(lia) (Hb1 s' Hsb)) ltac:(reflexivity) eq_refl y _
               ltac:(destruct p; cbn [andb] in *; [destruct (wraps k ft); [exact Ey|congruence]|rewrite (Hb0 eq_refl) in Ey; congruence]) Hs1).
    destruct (tr_ov (tr ft ftR) ov) as [o|]; [|reflexivity].
    cbn [bind].
    rewrite (IHl afsR vals fes' ap' _ b _ tl (o :: acc) Hok Er Eap Hb2 ltac:(lia)
               ltac:(eapply same_buf_trans; [exact Hsb|apply same_buf_adv]) Hs2).
    destruct (tr_vals tr afsW afsR vals) as [vals'|]; [|reflexivity].
    cbn [option_map rev length]. rewrite <- app_assoc. cbn [app]. rewrite src_adv_adv, bl_app.
    replace (a + 1 + N.of_nat (length afsW)) with (a + N.of_nat (S (length afsW))) by lia. reflexivity.
Qed.

Lemma tail_walk_r2 : forall afsW afsR vals fes a b s' tl acc,
  flds_ok2 false afsW afsR vals -> enc_fields m afsW vals = Ok fes -> existsb fst fes = false -> b <= a ->
  rsrc s' [] tl ->
  rwalk m afsR (mk_r s' (OptBitField a b)) acc =
  match tr_vals tr afsW afsR vals with
  | Some vals' => Ok (rev vals' ++ acc, mk_r s' (OptBitField a b))
  | None => Err E_INVALID_CHOICE
  end.
Proof.
  induction afsW as [|[k ft] afsW IHl]; intros afsR vals fes a b s' tl acc Hok He Hex Hab Hs.
  - destruct afsR; [|contradiction Hok]. destruct vals; [|contradiction Hok]. reflexivity.
  - destruct afsR as [|[k' ftR] afsR]; [contradiction Hok|].
    destruct vals as [|ov vals]; [contradiction Hok|]. cbn [flds_ok2] in Hok.
    destruct Hok as [(-> & Hch & HR & Hd & Hf) Hok].
    rewrite enc_fields_cons in He.
    destruct (enc_field m (k, ft) ov) as [[p b0]| |] eqn:Ef; cbn [bind] in He; try discriminate He.
    destruct (enc_fields m afsW vals) as [fes'| |] eqn:Er; cbn [bind] in He; try discriminate He. injection He as <-.
    cbn [existsb fst] in Hex. apply orb_false_iff in Hex. destruct Hex as [-> Hex].
    cbn [rwalk]. rewrite tr_vals_cons.
    rewrite (rfield_spec2 k ft ftR ov false b0 s' _ (Some false) s' _ false HR Hch Ef Hf Hd
               (entry_tail_r m s' a b (is_optk k) Hab) ltac:(reflexivity) eq_refl [] tl eq_refl Hs).
    destruct (tr_ov (tr ft ftR) ov) as [o|]; [|reflexivity].
    cbn [bind]. rewrite bl_nil, (src_adv_nil _ _ (proj1 Hs)).
    rewrite (IHl afsR vals fes' a b s' tl (o :: acc) Hok Er Hex Hab Hs).
    destruct (tr_vals tr afsW afsR vals) as [vals'|]; [|reflexivity].
    cbn [option_map rev]. rewrite <- app_assoc. reflexivity.
Qed.

(** ** SEQUENCE / SET: writer components [rfsW ++ afsCW ++ wx], reader components [rfsR ++ afsCR ++ rx] *)
Definition seq_res (oa oc : option (list (option val))) (rx : list (fkind * ty)) (r : rst) : res (val * rst) :=
  match oa, oc with
  | Some a, Some c => Ok (VSeq (a ++ c ++ pad_of rx), r)
  | _, _ => Err E_INVALID_CHOICE
  end.

Lemma seq_read_noext2 e rfsW rfsR afsCW afsCR rx valsR valsC rfe afeC so fcR s tail :
  length rfsW = S (N.to_nat e) -> so = N.of_nat (nopt rfsW) ->
  enc_fields m rfsW valsR = Ok rfe -> enc_fields m afsCW valsC = Ok afeC ->
  flds_ok2 false rfsW rfsR valsR -> flds_ok2 false afsCW afsCR valsC -> existsb fst afeC = false ->
  Forall optk rx ->
  rsrc s (false :: flags_of rfsW rfe ++ payload_of rfe) tail ->
  read_ty m (TSeq (rfsR ++ afsCR ++ rx) so fcR (Some e)) (r_of_src s) =
  seq_res (tr_vals tr rfsW rfsR valsR) (tr_vals tr afsCW afsCR valsC) rx
    (r_of_src (src_adv s (bl (false :: flags_of rfsW rfe ++ payload_of rfe)) tail)).
Proof.
  intros Hkr Hso Er Ec HokR HokC Hex Frx Hs.
  pose proof (enc_fields_length _ _ _ _ Er) as Hlr.
  assert (Hflags : bl (flags_of rfsW rfe) = so) by (unfold bl; rewrite flags_of_length by exact Hlr; lia).
  rewrite <- (app_nil_r (payload_of rfe)) in Hs.
  rewrite (seq_read_header m _ so fcR e false (flags_of rfsW rfe) (payload_of rfe ++ []) s tail Hflags Hs). cbv iota.
  destruct (seq_sources s false _ _ [] tail so Hflags Hs) as [Hs2 Hbits].
  rewrite app_nil_r in *.
  set (s2 := src_adv s (1 + so) (payload_of rfe ++ tail)) in *.
  rewrite rpushed_eq, rfields_rwalk, rwalk_app.
  change (OptBitField (s_pos s + 1) (s_pos s + 1 + so)) with (root_scope None (s_pos s + 1) (s_pos s + 1 + so)).
  rewrite (root_walk_r2 s rfsW rfsR valsR rfe (s_pos s + 1) (s_pos s + 1 + so) None s2 tail [] HokR Er Hbits
             ltac:(lia) I (same_buf_adv _ _ _) Hs2).
  unfold seq_res.
  destruct (tr_vals tr rfsW rfsR valsR) as [va|]; [|reflexivity].
  cbn [bind xsub root_scope].
  replace (s_pos s + 1 + N.of_nat (nopt rfsW)) with (s_pos s + 1 + so) by lia.
  rewrite rwalk_app.
  rewrite (tail_walk_r2 afsCW afsCR valsC afeC _ _ _ tail _ HokC Ec Hex (N.le_refl _) (rsrc_adv_nil _ _ _ Hs2)).
  destruct (tr_vals tr afsCW afsCR valsC) as [vc|]; [|reflexivity].
  cbn [bind].
  rewrite (beyond_walk m rx _ (OptBitField (s_pos s + 1 + so) (s_pos s + 1 + so)) _ Frx (N.le_refl _)).
  cbn [bind r_scope mk_r scope_exhausted]. rewrite N.eqb_refl. cbn [negb]. rewrite andb_false_r.
  rewrite frev3.
  unfold r_set_scope, mk_r, r_of_src. cbn [r_src]. do 3 f_equal.
  unfold s2. rewrite src_adv_adv. f_equal. rewrite bl_cons, bl_app. lia.
Qed.

Lemma seq_read_ext_unknown2 e rfsW rfsR wx valsR valsX rfe afeX apX ns so fcR s tail :
  length rfsW = S (N.to_nat e) -> so = N.of_nat (nopt rfsW) -> e + 1 <= fcR ->
  (1 <= length wx)%nat -> N.of_nat (length wx) < SIZE_LIMIT ->
  enc_fields m rfsW valsR = Ok rfe -> enc_fields m wx valsX = Ok afeX ->
  flds_ok2 false rfsW rfsR valsR -> flds_ok m true wx valsX ->
  w_normally_small m (N.of_nat (length wx) - 1) = Ok ns ->
  add_payloads m wx afeX = Ok apX -> Forall optk wx ->
  rsrc s (true :: flags_of rfsW rfe ++ payload_of rfe ++ ns ++ map fst afeX ++ apX) tail ->
  read_ty m (TSeq rfsR so fcR (Some e)) (r_of_src s) =
  seq_res (tr_vals tr rfsW rfsR valsR) (Some []) []
    (r_of_src (src_adv s (bl (true :: flags_of rfsW rfe ++ payload_of rfe ++ ns ++ map fst afeX ++ apX)) tail)).
Proof.
  intros Hkr Hso Hfc H1 Hlim Er Ex HokR HokX Ens EapX Fwx Hs.
  pose proof (enc_fields_length _ _ _ _ Er) as Hlr.
  assert (Hflags : bl (flags_of rfsW rfe) = so) by (unfold bl; rewrite flags_of_length by exact Hlr; lia).
  set (rest := ns ++ map fst afeX ++ apX) in *.
  rewrite (seq_read_header m _ so fcR e true (flags_of rfsW rfe) (payload_of rfe ++ rest) s tail Hflags Hs). cbv iota.
  rewrite usub_ok by lia. cbn [bind].
  destruct (seq_sources s true _ _ rest tail so Hflags Hs) as [Hs2 Hbits].
  set (s2 := src_adv s (1 + so) ((payload_of rfe ++ rest) ++ tail)) in *.
  apply rsrc_split in Hs2. destruct Hs2 as [Hs3 Hs4].
  set (nxR := fcR - (e + 1)).
  rewrite rpushed_eq, rfields_rwalk.
  change (ExtSeq (s_pos s) (Some (s_pos s + 1, s_pos s + 1 + so)) (e + 1) nxR)
    with (root_scope (Some (s_pos s, e + 1, nxR)) (s_pos s + 1) (s_pos s + 1 + so)).
  rewrite (root_walk_r2 s rfsW rfsR valsR rfe (s_pos s + 1) (s_pos s + 1 + so) (Some (s_pos s, e + 1, nxR)) s2 _ [] HokR Er Hbits
             ltac:(lia) ltac:(cbn [xge]; lia) (same_buf_adv _ _ _) Hs3).
  unfold seq_res.
  destruct (tr_vals tr rfsW rfsR valsR) as [va|]; [|reflexivity].
  cbn [bind xsub root_scope]. rewrite Hkr.
  replace (e + 1 - N.of_nat (S (N.to_nat e))) with 0 by lia.
  set (s3 := src_adv s2 (bl (payload_of rfe)) (rest ++ tail)) in *.
  unfold rest in Hs4.
  rewrite (skip_ext0_spec m wx valsX afeX apX ns _ _ _ s3 tail HokX Fwx Ex EapX H1 Hlim Ens Hs4).
  cbn [bind r_scope mk_r scope_exhausted]. rewrite N.eqb_refl. cbn [negb]. rewrite andb_false_r.
  rewrite frev_rev. cbn [pad_of map app]. rewrite app_nil_r.
  unfold r_set_scope, mk_r, r_of_src. cbn [r_src]. do 3 f_equal.
  unfold s3, s2. rewrite !src_adv_adv. f_equal. unfold rest. rewrite bl_cons, !bl_app. lia.
Qed.

Lemma seq_read_ext_known2 e rfsW rfsR k1 ft1W ft1R afsCW' afsCR' wx rx valsR ov1 avals valsX rfe b1 afeC' afeX y1 apC' apX
      ns nW so fcR s tail :
  length rfsW = S (N.to_nat e) -> so = N.of_nat (nopt rfsW) -> e + 1 <= fcR ->
  nW = N.of_nat (S (length afsCW' + length wx)) -> nW < SIZE_LIMIT ->
  enc_fields m rfsW valsR = Ok rfe -> enc_field m (k1, ft1W) ov1 = Ok (true, b1) ->
  enc_fields m afsCW' avals = Ok afeC' -> enc_fields m wx valsX = Ok afeX ->
  flds_ok2 false rfsW rfsR valsR ->
  flds_ok2 true ((k1, ft1W) :: afsCW') ((k1, ft1R) :: afsCR') (ov1 :: avals) -> flds_ok m true wx valsX ->
  w_normally_small m (nW - 1) = Ok ns ->
  (if wraps k1 ft1W then wrap_open m b1 else Ok b1) = Ok y1 ->
  add_payloads m afsCW' afeC' = Ok apC' -> add_payloads m wx afeX = Ok apX ->
  Forall optk rx -> Forall optk wx -> (rx = [] \/ wx = []) ->
  rsrc s (true :: flags_of rfsW rfe ++ payload_of rfe ++ ns ++ (true :: map fst afeC' ++ map fst afeX)
            ++ y1 ++ apC' ++ apX) tail ->
  read_ty m (TSeq (rfsR ++ ((k1, ft1R) :: afsCR') ++ rx) so fcR (Some e)) (r_of_src s) =
  seq_res (tr_vals tr rfsW rfsR valsR) (tr_vals tr ((k1, ft1W) :: afsCW') ((k1, ft1R) :: afsCR') (ov1 :: avals)) rx
    (r_of_src (src_adv s (bl (true :: flags_of rfsW rfe ++ payload_of rfe ++ ns
                               ++ (true :: map fst afeC' ++ map fst afeX) ++ y1 ++ apC' ++ apX)) tail)).
Proof.
  intros Hkr Hso Hfc HnW Hlim Er Ef1 Ea' Ex HokR HokC HokX Ens Ey1 EapC' EapX Frx Fwx Hdisj Hs.
  pose proof (enc_fields_length _ _ _ _ Er) as Hlr.
  pose proof (enc_fields_length _ _ _ _ Ea') as Hlc.
  pose proof (enc_fields_length _ _ _ _ Ex) as Hlx.
  assert (Hflags : bl (flags_of rfsW rfe) = so) by (unfold bl; rewrite flags_of_length by exact Hlr; lia).
  cbn [flds_ok2] in HokC. destruct HokC as [(_ & Hch1 & HR1 & Hd1 & Hf1) Hoka'].
  set (fl := map fst afeC' ++ map fst afeX) in *.
  set (AP := y1 ++ apC' ++ apX) in *.
  set (rest := ns ++ (true :: fl) ++ AP) in *.
  pose proof Hs as Hs0.
  rewrite (seq_read_header m _ so fcR e true (flags_of rfsW rfe) (payload_of rfe ++ rest) s tail Hflags Hs). cbv iota.
  rewrite usub_ok by lia. cbn [bind].
  destruct (seq_sources s true _ _ rest tail so Hflags Hs) as [Hs2 Hbits].
  set (s2 := src_adv s (1 + so) ((payload_of rfe ++ rest) ++ tail)) in *.
  apply rsrc_split in Hs2. destruct Hs2 as [Hs3 Hs4].
  set (nxR := fcR - (e + 1)).
  rewrite rpushed_eq, rfields_rwalk, rwalk_app.
  change (ExtSeq (s_pos s) (Some (s_pos s + 1, s_pos s + 1 + so)) (e + 1) nxR)
    with (root_scope (Some (s_pos s, e + 1, nxR)) (s_pos s + 1) (s_pos s + 1 + so)).
  rewrite (root_walk_r2 s rfsW rfsR valsR rfe (s_pos s + 1) (s_pos s + 1 + so) (Some (s_pos s, e + 1, nxR)) s2 _ [] HokR Er Hbits
             ltac:(lia) ltac:(cbn [xge]; lia) (same_buf_adv _ _ _) Hs3).
  unfold seq_res.
  destruct (tr_vals tr rfsW rfsR valsR) as [va|]; [|reflexivity].
  cbn [bind xsub root_scope]. rewrite Hkr.
  replace (e + 1 - N.of_nat (S (N.to_nat e))) with 0 by lia.
  replace (s_pos s + 1 + N.of_nat (nopt rfsW)) with (s_pos s + 1 + so) by lia.
  set (s3 := src_adv s2 (bl (payload_of rfe)) (rest ++ tail)) in *.
  assert (Hsb3 : same_buf s s3) by (eapply same_buf_trans; apply same_buf_adv).
  (* the first addition: the scope turns into the transmitted presence bits *)
  assert (Hbit0 : r_bit_at s3 (s_pos s) = Ok true).
  { pose proof (bit_at_spec s [] true _ tail s3 Hs0 Hsb3) as Q. rewrite bl_nil, N.add_0_r in Q. exact Q. }
  assert (Hfl : bl fl + 1 = nW).
  { unfold fl, bl. rewrite app_length, !map_length. unfold fenc in *. lia. }
  pose proof (entry_trans_r_gen m s3 (s_pos s) (Some (s_pos s + 1 + so, s_pos s + 1 + so)) nW nxR (is_optk k1) ns
                fl AP tail Hbit0 ltac:(lia) Hlim Ens Hs4 Hfl) as Hent.
  set (s4 := src_adv s3 (bl (ns ++ true :: fl)) (AP ++ tail)) in *.
  assert (Hs5 : rsrc s4 AP tail).
  { assert (EQ : rest = (ns ++ true :: fl) ++ AP) by (unfold rest; rewrite <- app_assoc; reflexivity).
    rewrite EQ in Hs4. apply rsrc_split in Hs4. exact (proj2 Hs4). }
  unfold AP in Hs5. apply rsrc_split in Hs5. destruct Hs5 as [Hs5 Hs6].
  cbn [app rwalk]. rewrite tr_vals_cons.
  rewrite (rfield_spec2 k1 ft1W ft1R ov1 true b1 s3 _ (Some true) s4 _ true HR1 Hch1 Ef1 Hf1 Hd1 Hent
             ltac:(reflexivity) eq_refl y1 _ ltac:(cbn [andb]; destruct (wraps k1 ft1W); congruence) Hs5).
  destruct (tr_ov (tr ft1W ft1R) ov1) as [o1|]; [|reflexivity].
  cbn [bind].
  (* the other additions known to both *)
  set (a1 := s_pos s3 + bl ns + 1) in *.
  assert (Hbits2 : bits_at s a1 fl).
  { pose proof (bits_at_intro s ([true] ++ flags_of rfsW rfe ++ payload_of rfe ++ ns ++ [true]) fl AP tail) as Q.
    replace (s_pos s + bl ([true] ++ flags_of rfsW rfe ++ payload_of rfe ++ ns ++ [true])) with a1 in Q.
    - apply Q. replace (([true] ++ flags_of rfsW rfe ++ payload_of rfe ++ ns ++ [true]) ++ fl ++ AP)
        with (true :: flags_of rfsW rfe ++ payload_of rfe ++ rest); [exact Hs0|].
      unfold rest. cbn [app]. rewrite <- !app_assoc. cbn [app]. reflexivity.
    - unfold a1, s3, s2. cbn [s_pos src_adv]. rewrite !bl_app. change (bl [true]) with 1. lia. }
  unfold fl in Hbits2. apply bits_at_app in Hbits2. destruct Hbits2 as [HbC HbX].
  apply rsrc_split in Hs6. destruct Hs6 as [Hs6 Hs7].
  set (s5 := src_adv s4 (bl y1) ((apC' ++ apX) ++ tail)) in *.
  assert (Hsb5 : same_buf s s5).
  { eapply same_buf_trans; [exact Hsb3|]. eapply same_buf_trans; apply same_buf_adv. }
  rewrite rwalk_app.
  rewrite (all_walk_r2 s afsCW' afsCR' avals afeC' apC' a1 (s_pos s3 + bl ns + nW) s5 (apX ++ tail) _ Hoka' Ea' EapC' HbC
             ltac:(unfold a1; lia) Hsb5 Hs6).
  destruct (tr_vals tr afsCW' afsCR' avals) as [vc'|]; [|reflexivity].
  cbn [bind option_map].
  set (a2 := a1 + N.of_nat (length afsCW')) in *.
  set (s6 := src_adv s5 (bl apC') (apX ++ tail)) in *.
  assert (Hend : s_pos s3 + bl ns + nW = a2 + N.of_nat (length wx)) by (unfold a2, a1; lia).
  rewrite Hend.
  (* additions only the reader knows: beyond the transmitted presence bits *)
  rewrite (beyond_or_nil m rx s6 (AllBitField a2 (a2 + N.of_nat (length wx))) _ Frx).
  2:{ destruct Hdisj as [->| ->]; [left; reflexivity|right]. cbn [absent_scope length]. lia. }
  cbn [bind].
  (* additions only the writer knows: skipped *)
  assert (Hblc : bl (map fst afeC') = N.of_nat (length afsCW')) by (unfold bl; rewrite map_length; unfold fenc in *; lia).
  rewrite Hblc in HbX. fold a2 in HbX.
  assert (Hsb6 : same_buf s s6) by (eapply same_buf_trans; [exact Hsb5|apply same_buf_adv]).
  assert (Hle : a2 + N.of_nat (length wx) <= s_len s6).
  { destruct Hs0 as [(_ & L & _) _]. unfold rest in L. rewrite bl_cons, !bl_app, bl_cons in L.
    change (s_len s6) with (s_len s). rewrite <- Hend. unfold s3, s2. cbn [s_pos src_adv]. lia. }
  rewrite (skip_all_spec m s wx valsX afeX apX a2 s6 tail HokX Fwx Ex EapX HbX Hsb6 Hs7 Hle).
  cbn [bind r_scope mk_r scope_exhausted]. rewrite N.eqb_refl. cbn [negb]. rewrite andb_false_r.
  replace (rev vc' ++ o1 :: rev va ++ []) with (rev (o1 :: vc') ++ rev va ++ [])
    by (cbn [rev]; rewrite <- app_assoc; reflexivity).
  rewrite frev3.
  unfold r_set_scope, mk_r, r_of_src. cbn [r_src]. do 3 f_equal.
  unfold s6, s5, s4, s3, s2. rewrite !src_adv_adv. f_equal.
  unfold rest, AP. repeat (rewrite bl_cons || rewrite bl_app). lia.
Qed.

(** ** the three cases together *)
Lemma seq_compat_core2 e rfsW rfsR afsCW afsCR wx rx valsR valsC valsX rfe afeC afeX so fcR eb xp s tail :
  length rfsW = S (N.to_nat e) -> so = N.of_nat (nopt rfsW) -> e + 1 <= fcR ->
  N.of_nat (length (afsCW ++ wx)) < SIZE_LIMIT ->
  enc_fields m rfsW valsR = Ok rfe -> enc_fields m afsCW valsC = Ok afeC -> enc_fields m wx valsX = Ok afeX ->
  flds_ok2 false rfsW rfsR valsR -> flds_ok2 false afsCW afsCR valsC -> flds_ok2 true afsCW afsCR valsC ->
  flds_ok m true wx valsX ->
  ext_part m (afsCW ++ wx) (afeC ++ afeX) = Ok (eb, xp) ->
  Forall optk rx -> Forall optk wx -> (rx = [] \/ wx = []) ->
  rsrc s (eb :: flags_of rfsW rfe ++ payload_of rfe ++ xp) tail ->
  read_ty m (TSeq (rfsR ++ afsCR ++ rx) so fcR (Some e)) (r_of_src s) =
  seq_res (tr_vals tr rfsW rfsR valsR) (tr_vals tr afsCW afsCR valsC) rx
    (r_of_src (src_adv s (bl (eb :: flags_of rfsW rfe ++ payload_of rfe ++ xp)) tail)).
Proof.
  intros Hkr Hso Hfc Hlim Er Ec Ex HokR HokC0 HokC1 HokX Hext Frx Fwx Hdisj Hs.
  pose proof (enc_fields_length _ _ _ _ Ec) as Hlc.
  pose proof (enc_fields_length _ _ _ _ Ex) as Hlx.
  rewrite app_length in Hlim.
  destruct eb.
  - destruct (ext_part_true m _ _ _ Hext) as (b1 & rest & ns & ap & Eafe & Ens & Eap & ->).
    rewrite add_payloads_app in Eap by exact Hlc.
    destruct (add_payloads m afsCW afeC) as [apC| |] eqn:EapC; cbn [bind] in Eap; try discriminate Eap.
    destruct (add_payloads m wx afeX) as [apX| |] eqn:EapX; cbn [bind] in Eap; try discriminate Eap.
    injection Eap as <-.
    rewrite app_length in Ens.
    destruct afsCW as [|[k1 ft1W] afsCW'].
    + (* the reader knows no addition *)
      destruct afsCR; [|contradiction HokC0].
      destruct afeC; [|cbn [length] in Hlc; discriminate Hlc]. destruct valsC; [|contradiction HokC0].
      cbn in EapC. injection EapC as <-.
      cbn [app length Nat.add] in *.
      destruct Hdisj as [-> | ->].
      2:{ destruct afeX; [discriminate Eafe|cbn [length] in Hlx; discriminate Hlx]. }
      rewrite !app_nil_r.
      rewrite Hlx in Ens.
      apply (seq_read_ext_unknown2 e rfsW rfsR wx valsR valsX rfe afeX apX ns so fcR s tail); try assumption.
      rewrite <- Hlx, Eafe. cbn [length]. lia.
    + (* the reader knows at least the first one *)
      destruct afsCR as [|[k1' ft1R] afsCR']; [contradiction HokC0|].
      destruct valsC as [|ov1 avals]; [contradiction HokC0|].
      assert (k1' = k1) by (cbn [flds_ok2] in HokC0; tauto). subst k1'.
      rewrite enc_fields_cons in Ec.
      destruct (enc_field m (k1, ft1W) ov1) as [[p1 b1']| |] eqn:Ef1; cbn [bind] in Ec; try discriminate Ec.
      destruct (enc_fields m afsCW' avals) as [afeC'| |] eqn:Ea'; cbn [bind] in Ec; try discriminate Ec.
      injection Ec as <-.
      cbn [app] in Eafe. injection Eafe as -> -> <-.
      cbn [add_payloads andb] in EapC.
      destruct (if wraps k1 ft1W then wrap_open m b1 else Ok b1) as [y1| |] eqn:Ey1; cbn [bind] in EapC; try discriminate EapC.
      destruct (add_payloads m afsCW' afeC') as [apC'| |] eqn:EapC'; cbn [bind] in EapC; try discriminate EapC.
      injection EapC as <-.
      pose proof (enc_fields_length _ _ _ _ Ea') as Hlc'.
      cbn [app map fst length] in Hs, Ens, Hlim |- *.
      rewrite map_app, <- (app_assoc y1 apC' apX) in Hs |- *.
      apply (seq_read_ext_known2 e rfsW rfsR k1 ft1W ft1R afsCW' afsCR' wx rx valsR ov1 avals valsX rfe b1 afeC' afeX y1 apC' apX ns
               (N.of_nat (S (length afsCW' + length wx))) so fcR s tail); try assumption; try reflexivity; try lia.
      replace (N.of_nat (S (length afsCW' + length wx))) with (N.of_nat (S (length afeC') + length afeX)) by lia.
      exact Ens.
  - destruct (ext_part_bit m _ _ _ _ Hext) as [Heb Hxp]. rewrite (Hxp eq_refl) in *.
    symmetry in Heb. rewrite existsb_app in Heb. apply orb_false_iff in Heb. destruct Heb as [HexC HexX].
    rewrite app_nil_r in Hs |- *.
    apply (seq_read_noext2 e rfsW rfsR afsCW afsCR rx valsR valsC rfe afeC so fcR s tail); assumption.
Qed.

(** ** from the types and the value to the per-part facts *)
Definition comp_ok (fW fR : fkind * ty) : Prop :=
  fst fR = fst fW /\ is_choice (snd fR) = is_choice (snd fW) /\
  Cprop (snd fW) (snd fR) (tr (snd fW) (snd fR)) /\
  match fst fW with FDef d => tr (snd fW) (snd fR) d = Some d | _ => True end.

Lemma flds_ok2_of opn : forall fsW fsR vals,
  Forall2 comp_ok fsW fsR -> flds_ok m opn fsW vals -> flds_ok2 opn fsW fsR vals.
Proof.
  induction fsW as [|[k tW] fsW IH]; intros fsR vals F Hok; inversion F as [|fW [k' tR] ? fsR' Hc F']; subst.
  - destruct vals; [exact I|contradiction Hok].
  - destruct vals as [|ov vals]; [contradiction Hok|]. cbn [flds_ok] in Hok. destruct Hok as [(_ & _ & _ & Hf) Hok].
    destruct Hc as (C1 & C2 & C3 & C4). cbn [fst snd] in *. cbn [flds_ok2]. split; [|apply IH; assumption].
    repeat split; assumption.
Qed.

Lemma Forall2_length' {A B} (P : A -> B -> Prop) l l' : Forall2 P l l' -> length l = length l'.
Proof. induction 1; cbn [length]; congruence. Qed.

Lemma option_map_app_nil {A} (o : option (list A)) : option_map (app []) o = o.
Proof. destruct o; reflexivity. Qed.

Lemma tr_vals_nil_vals fsW fsR : tr_vals tr fsW fsR [] = Some [].
Proof. destruct fsW as [|[? ?] ?]; [reflexivity|]. destruct fsR as [|[? ?] ?]; reflexivity. Qed.

Lemma tr_vals_app : forall aW aR bW bR vals, length aW = length aR ->
  tr_vals tr (aW ++ bW) (aR ++ bR) vals =
  match tr_vals tr aW aR (firstn (length aW) vals) with
  | Some x => option_map (app x) (tr_vals tr bW bR (skipn (length aW) vals))
  | None => None
  end.
Proof.
  induction aW as [|[kW tW] aW IH]; intros [|[kR tR] aR] bW bR vals Hl; try discriminate Hl.
  - cbn [app length firstn skipn tr_vals]. rewrite option_map_app_nil. reflexivity.
  - destruct vals as [|ov vals].
    + cbn [app length firstn skipn]. rewrite !tr_vals_nil_vals. reflexivity.
    + cbn [app length firstn skipn]. rewrite !tr_vals_cons.
      destruct (tr_ov (tr tW tR) ov) as [o|]; [|reflexivity].
      cbn [length] in Hl. rewrite IH by lia.
      destruct (tr_vals tr aW aR (firstn (length aW) vals)) as [x|]; [|reflexivity].
      cbn [option_map]. destruct (tr_vals tr bW bR (skipn (length aW) vals)); reflexivity.
Qed.

Lemma tr_vals_firstn : forall fsW fsR vals,
  tr_vals tr fsW fsR (firstn (length fsW) vals) = tr_vals tr fsW fsR vals.
Proof.
  induction fsW as [|[kW tW] fsW IH]; intros fsR vals; [destruct vals; reflexivity|].
  destruct fsR as [|[kR tR] fsR]; [destruct vals; reflexivity|].
  destruct vals as [|ov vals]; [reflexivity|].
  cbn [length firstn]. rewrite !tr_vals_cons, IH. reflexivity.
Qed.

Theorem seq_compat2 cW cR wx rx so fcW fcR e vals bs s tail :
  wf_ty (TSeq (cW ++ wx) so fcW (Some e)) -> wf_ty (TSeq (cR ++ rx) so fcR (Some e)) ->
  (S (N.to_nat e) <= length cW)%nat -> Forall2 comp_ok cW cR ->
  Forall optk rx -> Forall optk wx -> (rx = [] \/ wx = []) ->
  wf_val (TSeq (cW ++ wx) so fcW (Some e)) (VSeq vals) ->
  ~ Known_C01 m (TSeq (cW ++ wx) so fcW (Some e)) (VSeq vals) ->
  enc m (TSeq (cW ++ wx) so fcW (Some e)) (VSeq vals) = Ok bs -> rsrc s bs tail ->
  read_ty m (TSeq (cR ++ rx) so fcR (Some e)) (r_of_src s) =
  match tr_vals tr cW cR vals with
  | Some l => Ok (VSeq (l ++ pad_of rx), r_of_src (src_adv s (bl bs) tail))
  | None => Err E_INVALID_CHOICE
  end.
Proof.
  intros HtyW HtyR Hkr FC Frx Fwx Hdisj Hv Hk He Hs.
  destruct (split_at cW (S (N.to_nat e)) Hkr) as (rfsW & afsCW & -> & Hlrfs).
  apply Forall2_app_inv_l in FC. destruct FC as (rfsR & afsCR & FR & FA & ->).
  pose proof (Forall2_length' _ _ _ FR) as HlR. pose proof (Forall2_length' _ _ _ FA) as HlA.
  rewrite <- !app_assoc in *.
  apply wf_ty_seq in HtyW. destruct HtyW as [(HfcW & HlimW & HeaW & HsoW) HtfW].
  apply wf_ty_seq in HtyR. destruct HtyR as [(HfcR & HlimR & HeaR & HsoR) _].
  cbn [root_len] in HsoW. rewrite firstn_app_exact in HsoW by (symmetry; exact Hlrfs).
  rewrite enc_seq_eq in He.
  destruct (enc_fields m (rfsW ++ afsCW ++ wx) vals) as [fes| |] eqn:Ef; cbn [bind] in He; try discriminate He.
  change (all_wf_vals (rfsW ++ afsCW ++ wx) vals) in Hv.
  change (~ any_known_f m (Some e) (rfsW ++ afsCW ++ wx) vals 0) in Hk.
  assert (F : Forall (fun f => Rprop m (snd f)) (rfsW ++ afsCW ++ wx)) by (apply Forall_forall; intros f _; apply read_enc).
  destruct (flds_ok_intro m (Some e) _ vals 0 F HtfW Hv Hk) as [Hok0 _].
  assert (Hok1 : flds_ok m true (afsCW ++ wx) (skipn (length rfsW) vals)).
  { rewrite <- (skipn_app_exact rfsW (afsCW ++ wx) (length rfsW) eq_refl).
    apply (flds_ok_intro m (Some e) _ _ (0 + length rfsW)).
    - apply Forall_skipn. exact F.
    - apply all_wf_fields_skipn. exact HtfW.
    - apply all_wf_vals_skipn. exact Hv.
    - apply any_known_skip. exact Hk.
    - cbn [is_addition]. lia. }
  apply flds_ok_app in Hok0. destruct Hok0 as [HokR Hok0].
  apply flds_ok_app in Hok0. destruct Hok0 as [HokC0 _].
  apply flds_ok_app in Hok1. destruct Hok1 as [HokC1 HokX].
  rewrite enc_fields_app in Ef.
  destruct (enc_fields m rfsW vals) as [rfe| |] eqn:Er; cbn [bind] in Ef; try discriminate Ef.
  rewrite enc_fields_app in Ef.
  destruct (enc_fields m afsCW (skipn (length rfsW) vals)) as [afeC| |] eqn:Ec; cbn [bind] in Ef; try discriminate Ef.
  destruct (enc_fields m wx (skipn (length afsCW) (skipn (length rfsW) vals))) as [afeX| |] eqn:Ex;
    cbn [bind] in Ef; try discriminate Ef.
  injection Ef as <-.
  apply enc_fields_firstn in Er. apply enc_fields_firstn in Ec.
  pose proof (enc_fields_length _ _ _ _ Er) as Hlr.
  rewrite (seq_assemble_some m _ _ e (S (N.to_nat e)) eq_refl) in He.
  rewrite !firstn_app_exact, !skipn_app_exact in He by congruence.
  destruct (ext_part m (afsCW ++ wx) (afeC ++ afeX)) as [[eb xp]| |] eqn:Ext; cbn [bind] in He; try discriminate He.
  injection He as <-.
  pose proof (seq_compat_core2 e rfsW rfsR afsCW afsCR wx rx _ _ _ rfe afeC afeX so fcR eb xp s tail
                Hlrfs HsoW ltac:(rewrite !app_length in HfcR; lia) ltac:(rewrite !app_length in *; lia) Er Ec Ex
                (flds_ok2_of false _ _ _ FR HokR) (flds_ok2_of false _ _ _ FA HokC0) (flds_ok2_of true _ _ _ FA HokC1)
                HokX Ext Frx Fwx Hdisj Hs) as Q.
  rewrite Q. clear Q. unfold seq_res.
  rewrite (tr_vals_app rfsW rfsR afsCW afsCR vals HlR).
  rewrite (tr_vals_firstn afsCW afsCR).
  destruct (tr_vals tr rfsW rfsR (firstn (length rfsW) vals)) as [va|]; [|reflexivity].
  destruct (tr_vals tr afsCW afsCR (skipn (length rfsW) vals)) as [vc|]; [|reflexivity].
  cbn [option_map]. rewrite <- app_assoc. reflexivity.
Qed.

(** ** a SEQUENCE / SET without extension marker *)
Theorem seq_nonext2 fsW fsR so fc vals bs s tail :
  wf_ty (TSeq fsW so fc None) -> Forall2 comp_ok fsW fsR ->
  wf_val (TSeq fsW so fc None) (VSeq vals) -> ~ Known_C01 m (TSeq fsW so fc None) (VSeq vals) ->
  enc m (TSeq fsW so fc None) (VSeq vals) = Ok bs -> rsrc s bs tail ->
  read_ty m (TSeq fsR so fc None) (r_of_src s) =
  match tr_vals tr fsW fsR vals with
  | Some l => Ok (VSeq l, r_of_src (src_adv s (bl bs) tail))
  | None => Err E_INVALID_CHOICE
  end.
Proof.
  intros Hty FC Hv Hk He Hs.
  apply wf_ty_seq in Hty. destruct Hty as [(Hfc & Hlim & Hea & Hso) Htf].
  rewrite enc_seq_eq in He. destruct (enc_fields m fsW vals) as [fes| |] eqn:Ef; cbn [bind] in He; try discriminate He.
  change (all_wf_vals fsW vals) in Hv. change (~ any_known_f m None fsW vals 0) in Hk.
  pose proof (enc_fields_length _ _ _ _ Ef) as Hlf.
  assert (F : Forall (fun f => Rprop m (snd f)) fsW) by (apply Forall_forall; intros f _; apply read_enc).
  destruct (flds_ok_intro m None fsW vals 0 F Htf Hv Hk) as [Hok0 _].
  pose proof (flds_ok2_of false _ _ _ FC Hok0) as Hok2.
  rewrite read_ty_seq_eq, rentry_none by reflexivity. cbn [bind]. rewrite rwith_buffer_none by reflexivity. cbv zeta.
  cbn [root_len] in Hso.
  cbn [seq_assemble] in He. injection He as <-. rewrite firstn_all in Hso. cbn [bind r_src r_of_src].
  assert (Hflags : bl (flags_of fsW fes) = so) by (unfold bl; rewrite flags_of_length by exact Hlf; lia).
  destruct (seq_header m s (flags_of fsW fes) (payload_of fes) tail so Hs (eq_sym Hflags)) as (Q1 & Q2 & Q3 & Q4).
  rewrite Q1. cbn [bind]. rewrite Q2, Q3. cbn [bind]. unfold r_set_src. cbn [r_src r_scope r_of_src]. rewrite Q4. clear Q1 Q2 Q3 Q4.
  pose proof Hs as Hs0. apply rsrc_split in Hs. destruct Hs as [Hs1 Hs2].
  set (s2 := src_adv s (bl (flags_of fsW fes)) (payload_of fes ++ tail)) in *.
  assert (Hbits : bits_at s (s_pos s) (flags_of fsW fes)).
  { pose proof (bits_at_intro s [] (flags_of fsW fes) (payload_of fes) tail Hs0) as Q.
    rewrite bl_nil, N.add_0_r in Q. exact Q. }
  change {| r_src := s2; r_scope := None |} with (r_of_src s2).
  rewrite rpushed_eq, rfields_rwalk.
  change (OptBitField (s_pos s) (s_pos s + so)) with (root_scope None (s_pos s) (s_pos s + so)).
  assert (Hab : s_pos s + N.of_nat (nopt fsW) <= s_pos s + so) by lia.
  rewrite (root_walk_r2 s fsW fsR vals fes (s_pos s) (s_pos s + so) None s2 tail [] Hok2 Ef Hbits Hab I
             (same_buf_adv _ _ _) Hs2).
  destruct (tr_vals tr fsW fsR vals) as [l|]; [|reflexivity].
  cbn [bind xsub root_scope r_scope mk_r scope_exhausted].
  replace (s_pos s + N.of_nat (nopt fsW)) with (s_pos s + so) by lia.
  rewrite N.eqb_refl. cbn [negb]. rewrite andb_false_r, frev_rev.
  unfold r_set_scope, mk_r, r_of_src. cbn [r_src]. do 3 f_equal.
  unfold s2. rewrite src_adv_adv, bl_app. reflexivity.
Qed.

(** ** CHOICE *)
Lemma rscope_stashed_o {A} s (f : rst -> res (A * rst)) (ox : option A) s' :
  f (r_of_src s) = match ox with Some x => Ok (x, r_of_src s') | None => Err E_INVALID_CHOICE end ->
  rscope_stashed (r_of_src s) f = match ox with Some x => Ok (x, r_of_src s') | None => Err E_INVALID_CHOICE end.
Proof.
  unfold rscope_stashed. change (r_set_scope (r_of_src s) None) with (r_of_src s). intros ->.
  destruct ox; reflexivity.
Qed.

(* an open type whose content reader does not move: the cursor still jumps to the end of the window *)
Lemma open_read_stay {A} cb wb s tail (f : rst -> res (A * rst)) y :
  wrap_open m cb = Ok wb -> (bl cb + 7) / 8 < 16384 -> rsrc s wb tail ->
  (forall r, f r = Ok (y, r)) ->
  (let! (len, r2) := r_get (r_of_src s) (r_length_determinant m None None) in
   read_whole_sub_slice m r2 len f) = Ok (y, r_of_src (src_adv s (bl wb) tail)).
Proof.
  intros Hw Hn Hs Hf.
  pose proof (wrap_open_small m cb wb Hw Hn) as E.
  set (n := (bl cb + 7) / 8) in *. set (pad := repeat false (pad8 (length cb))) in *.
  assert (Hpad : bl cb + bl pad = 8 * n).
  { pose proof (f_equal bl (bits_of_bytes_of_bits cb)) as EL. rewrite bits_len8, bytes_of_bits_len, bl_app in EL.
    fold pad n in EL. lia. }
  assert (Hwb : bl wb = bl (x_len_short n) + 8 * n) by (rewrite E, !bl_app; lia).
  pose proof Hs as Hs0. rewrite E in Hs. apply rsrc_split in Hs. destruct Hs as [H1 H2].
  assert (Ex : x_length None None n = Some (x_len_first n)).
  { unfold x_length. destruct (N.leb_spec 0 n); [reflexivity|lia]. }
  rewrite <- (x_len_first_short n Hn) in H1, H2.
  rewrite r_get_of_src.
  rewrite (length_read m None None n _ s _ ltac:(intros C; apply C; reflexivity) Ex (proj1 H1)).
  unfold len_result, len_frag. rewrite frag_of_short by exact Hn. cbn [bind].
  unfold read_whole_sub_slice. cbn [r_src r_of_src].
  destruct Hs0 as [(_ & HL & HT) (_ & H64)].
  assert (U1 : umul m n BYTE_LEN = Ok (8 * n)).
  { unfold umul, BYTE_LEN. destruct (N.ltb_spec (n * 8) two64) as [L|L]; [f_equal; lia|unfold two64 in L; lia]. }
  rewrite U1. cbn [bind]. unfold src_adv at 1. cbn [s_pos].
  rewrite (x_len_first_short n Hn) in *.
  rewrite uadd_ok by lia. cbn [bind].
  rewrite Hf. cbn [bind]. unfold r_set_src. cbn [r_src r_scope r_of_src].
  replace (s_pos s + bl (x_len_short n) + 8 * n) with (s_pos s + bl wb) by lia.
  match goal with |- context [src_set_pos ?a ?b] =>
    assert (Efin : src_set_pos a b = src_adv s (bl wb) tail) end.
  { apply src_set_pos_end; [rewrite E; split; [|exact (proj2 H1)]|].
    - destruct H1 as [H1 _]. destruct H1 as (R & _). split; [rewrite R, <- !app_assoc; reflexivity|].
      rewrite <- E. split; lia.
    - apply same_buf_adv. }
  rewrite Efin. reflexivity.
Qed.

Definition alts_ok (aW aR : list ty) : Prop :=
  forall n tW tR, nth_error aW n = Some tW -> nth_error aR n = Some tR -> Cprop tW tR (tr tW tR).

Lemma alts_ok_tl tW aW tR aR : alts_ok (tW :: aW) (tR :: aR) -> alts_ok aW aR.
Proof. intros H n a b Ha Hb. apply (H (S n)); assumption. Qed.

Lemma tr_pick_beyond x : forall aW aR n, (length aR <= n)%nat -> tr_pick tr x aW aR n = None.
Proof.
  induction aW as [|tW aW IH]; intros [|tR aR] [|n] H; cbn [length] in H; try lia; try reflexivity.
  cbn [tr_pick]. apply IH. lia.
Qed.

Lemma rpick_spec2 index std x : forall aW aR, alts_ok aW aR ->
  forall i cb, enc_pick m x aW i = Ok cb -> pick_wf x aW i -> ~ pick_known m std index x aW i ->
  (i < length aR)%nat ->
  forall s tl, rsrc s cb tl ->
  rpick m index (r_of_src s) aR i =
  match tr_pick tr x aW aR i with
  | Some x' => Ok (Some (VChoice index x'), r_of_src (src_adv s (bl cb) tl))
  | None => Err E_INVALID_CHOICE
  end.
Proof.
  induction aW as [|tW aW IHl]; intros aR HC i cb He Hv Hk Hi s tl Hs; [destruct i; discriminate He|].
  destruct aR as [|tR aR]; [cbn [length] in Hi; lia|].
  destruct i as [|i]; cbn [enc_pick pick_wf pick_known rpick length tr_pick] in *.
  - rewrite (HC 0%nat tW tR eq_refl eq_refl x cb He Hv ltac:(tauto) s tl Hs).
    destruct (tr tW tR x); reflexivity.
  - apply (IHl aR (alts_ok_tl _ _ _ _ HC) i cb He Hv Hk ltac:(lia) s tl Hs).
Qed.

Definition conv_choice (aW aR : list ty) (v : val) : option val :=
  match v with
  | VChoice i x => option_map (VChoice i) (tr_pick tr x aW aR (N.to_nat i))
  | _ => Some v
  end.

Lemma C_choice aW aR std ext :
  wf_ty (TChoice aW std ext) -> wf_ty (TChoice aR std ext) -> alts_ok aW aR ->
  Cprop (TChoice aW std ext) (TChoice aR std ext) (conv_choice aW aR).
Proof.
  intros HtyW HtyR HC v bs He Hv Hk s tail Hs.
  destruct v as [| | | | | | | |index x|]; try discriminate He; try contradiction Hv.
  cbn [wf_ty] in HtyW. destruct HtyW as (H1 & H2 & H3 & H4 & Hta). fold all_wf_ty in Hta.
  cbn [wf_ty] in HtyR. destruct HtyR as (R1 & R2 & R3 & R4 & _).
  rewrite enc_choice_eq in He.
  destruct (w_enumeration_index m std ext index) as [ib| |] eqn:Ei; cbn [bind] in He; try discriminate He.
  destruct (enc_pick m x aW (N.to_nat index)) as [cb| |] eqn:Ec; cbn [bind] in He; try discriminate He.
  change (pick_wf x aW (N.to_nat index)) in Hv.
  change (~ pick_known m std index x aW (N.to_nat index)) in Hk.
  assert (F : Forall (Rprop m) aW) by (apply Forall_forall; intros a _; apply read_enc).
  destruct (rpick_spec m index std x aW F Hta (N.to_nat index) cb Ec Hv Hk) as (Hlt & Hsmall & _).
  assert (Hstd : std < two64) by (unfold SIZE_LIMIT in H3; unfold two64; lia).
  assert (Hix : index < two64) by (unfold SIZE_LIMIT in H3; unfold two64; lia).
  destruct (x_index std ext index) as [xb|] eqn:Ex.
  2:{ rewrite (index_reject m std ext index Ex) in Ei. discriminate Ei. }
  rewrite (index_write m std ext index xb Hstd Hix Ex) in Ei. injection Ei as <-.
  cbn [read_ty conv_choice]. rewrite rentry_none' by reflexivity. cbn [bind].
  apply rscope_stashed_o.
  set (gpick := fun r0 : rst => if N.of_nat (length aR) <=? index then Ok (None, r0)
                                else rpick m index r0 aR (N.to_nat index)).
  destruct (N.leb_spec std index) as [L|L].
  - destruct (wrap_open m cb) as [wb| |] eqn:Ew; cbn [bind] in He; try discriminate He. injection He as <-.
    apply rsrc_split in Hs. destruct Hs as [Hs1 Hs2].
    rewrite r_get_of_src, (index_read m std ext index xb s _ Hstd Hix Ex (proj1 Hs1)). cbn [bind].
    rewrite (proj2 (N.leb_le std index) L).
    match goal with |- context [read_whole_sub_slice m _ _ ?f] => change f with gpick end.
    destruct (N.leb_spec (N.of_nat (length aR)) index) as [LR|LR].
    + (* an alternative the reader does not have *)
      rewrite tr_pick_beyond by lia. cbn [option_map].
      rewrite (open_read_stay cb wb _ tail gpick None Ew (Hsmall L) Hs2).
      * reflexivity.
      * intros r. unfold gpick. rewrite ?(proj2 (N.leb_le _ _) LR). reflexivity.
    + assert (Eg : N.of_nat (length aR) <=? index = false) by (apply N.leb_gt; exact LR).
      destruct (tr_pick tr x aW aR (N.to_nat index)) as [x'|] eqn:Et.
      * rewrite (open_read_o cb wb _ tail gpick (Some (Some (VChoice index x'))) Ew (Hsmall L) Hs2).
        -- cbn [bind option_map]. rewrite src_adv_adv, bl_app. reflexivity.
        -- intros s' tl' Hs'. unfold gpick. rewrite ?Eg.
           rewrite (rpick_spec2 index std x aW aR HC (N.to_nat index) cb Ec Hv Hk ltac:(lia) s' tl' Hs'), Et.
           reflexivity.
      * rewrite (open_read_o cb wb _ tail gpick None Ew (Hsmall L) Hs2).
        -- reflexivity.
        -- intros s' tl' Hs'. unfold gpick. rewrite ?Eg.
           rewrite (rpick_spec2 index std x aW aR HC (N.to_nat index) cb Ec Hv Hk ltac:(lia) s' tl' Hs'), Et.
           reflexivity.
  - injection He as <-. apply rsrc_split in Hs. destruct Hs as [Hs1 Hs2].
    rewrite r_get_of_src, (index_read m std ext index xb s _ Hstd Hix Ex (proj1 Hs1)). cbn [bind].
    rewrite (proj2 (N.leb_gt std index) L).
    assert (Eg : N.of_nat (length aR) <=? index = false) by (apply N.leb_gt; lia).
    match goal with |- bind ?X _ = _ =>
      change X with (gpick (r_of_src (src_adv s (bl xb) (cb ++ tail)))) end.
    unfold gpick. rewrite Eg.
    rewrite (rpick_spec2 index std x aW aR HC (N.to_nat index) cb Ec Hv Hk ltac:(lia) _ _ Hs2).
    destruct (tr_pick tr x aW aR (N.to_nat index)) as [x'|]; [|reflexivity].
    cbn [bind option_map]. rewrite src_adv_adv, bl_app. reflexivity.
Qed.

End Walk.

(** * reflexivity of the translations *)
Lemma conv_deep_refl : forall t v, wf_val t v -> conv_deep t t v = Some v.
Proof.
  induction t as [| |k lo hi ext|c lo hi ext|lo hi ext|lo hi ext|e lo hi ext IH|fs so fc ea IH|alts std ext IH|vc std ext]
    using ty_ind'; intros v Hv; destruct v as [b| |z|cs|bytes|bytes n|vs|vals|i x|i]; try contradiction Hv; try reflexivity.
  - cbn [wf_val] in Hv. destruct Hv as [_ Hv]. change (all_wf_val e vs) in Hv. cbn [conv_deep].
    assert (E : tr_list (conv_deep e e) vs = Some vs).
    { induction vs as [|x vs IHl]; [reflexivity|]. cbn [all_wf_val] in Hv. destruct Hv as [Hx Hv].
      cbn [tr_list]. rewrite (IH x Hx), (IHl Hv). reflexivity. }
    rewrite E. reflexivity.
  - change (all_wf_vals fs vals) in Hv. cbn [conv_deep]. rewrite skipn_all. cbn [pad_of map].
    assert (E : tr_vals conv_deep fs fs vals = Some vals).
    { revert vals Hv. induction IH as [|[k ft] fs Hf _ IHl]; intros [|ov vals] Hv; try contradiction Hv; [reflexivity|].
      cbn [all_wf_vals] in Hv. destruct Hv as [Hv1 Hv]. rewrite tr_vals_cons. cbn [snd] in Hf.
      destruct ov as [x|]; cbn [tr_ov].
      - rewrite (Hf x Hv1). cbn [option_map]. rewrite (IHl vals Hv). reflexivity.
      - rewrite (IHl vals Hv). reflexivity. }
    rewrite E. cbn [option_map]. rewrite app_nil_r. reflexivity.
  - change (pick_wf x alts (N.to_nat i)) in Hv. cbn [conv_deep].
    assert (E : tr_pick conv_deep x alts alts (N.to_nat i) = Some x).
    { revert Hv. generalize (N.to_nat i) as n.
      induction IH as [|a alts Ha _ IHl]; intros [|n] Hv; cbn [pick_wf] in Hv; try contradiction Hv; cbn [tr_pick].
      - apply Ha, Hv.
      - apply IHl, Hv. }
    rewrite E. reflexivity.
  - cbn [wf_val] in Hv. cbn [conv_deep]. destruct (N.ltb_spec i vc); [reflexivity|lia].
Qed.

Lemma pad_deep_refl : forall t v, wf_val t v -> pad_deep t t v = v.
Proof.
  induction t as [| |k lo hi ext|c lo hi ext|lo hi ext|lo hi ext|e lo hi ext IH|fs so fc ea IH|alts std ext IH|vc std ext]
    using ty_ind'; intros v Hv; destruct v as [b| |z|cs|bytes|bytes n|vs|vals|i x|i]; try contradiction Hv; try reflexivity.
  - cbn [wf_val] in Hv. destruct Hv as [_ Hv]. change (all_wf_val e vs) in Hv. cbn [pad_deep]. f_equal.
    induction vs as [|x vs IHl]; [reflexivity|]. cbn [all_wf_val] in Hv. destruct Hv as [Hx Hv].
    cbn [map]. rewrite (IH x Hx), (IHl Hv). reflexivity.
  - change (all_wf_vals fs vals) in Hv. cbn [pad_deep]. rewrite skipn_all. cbn [pad_of map]. rewrite app_nil_r. f_equal.
    revert vals Hv. induction IH as [|[k ft] fs Hf _ IHl]; intros [|ov vals] Hv; try contradiction Hv; [reflexivity|].
    cbn [all_wf_vals] in Hv. destruct Hv as [Hv1 Hv]. cbn [pad_vals]. fold (pad_vals pad_deep). cbn [snd] in Hf.
    rewrite (IHl vals Hv). destruct ov as [x|]; cbn [option_map]; [rewrite (Hf x Hv1)|]; reflexivity.
  - change (pick_wf x alts (N.to_nat i)) in Hv. cbn [pad_deep]. f_equal.
    revert Hv. generalize (N.to_nat i) as n.
    induction IH as [|a alts Ha _ IHl]; intros [|n] Hv; cbn [pick_wf] in Hv; try contradiction Hv; cbn [pad_pick].
    + apply Ha, Hv.
    + apply IHl, Hv.
Qed.

(** * small list facts *)
Lemma Forall_Forall2_l {A B} (P : A -> Prop) (R : A -> B -> Prop) l l' :
  Forall P l -> Forall2 R l l' -> Forall2 (fun a b => P a /\ R a b) l l'.
Proof.
  intros F F2. induction F2 as [|a b l l' Hab F2 IH]; [constructor|].
  apply Forall_cons_iff in F. destruct F as [Ha F]. constructor; [split; assumption|apply IH; exact F].
Qed.
Lemma Forall2_swap {A B} (R : A -> B -> Prop) l l' : Forall2 R l l' -> Forall2 (fun b a => R a b) l' l.
Proof. induction 1; constructor; assumption. Qed.
Lemma Forall2_impl' {A B} (R R' : A -> B -> Prop) l l' :
  (forall a b, R a b -> R' a b) -> Forall2 R l l' -> Forall2 R' l l'.
Proof. intros H. induction 1; constructor; auto. Qed.
Lemma Forall2_nth_error {A B} (R : A -> B -> Prop) l l' : Forall2 R l l' ->
  forall n a b, nth_error l n = Some a -> nth_error l' n = Some b -> R a b.
Proof.
  induction 1 as [|x y l l' Hxy F IH]; intros [|n] a b Ha Hb; cbn [nth_error] in *; try discriminate.
  - injection Ha as <-. injection Hb as <-. exact Hxy.
  - eapply IH; eassumption.
Qed.
Lemma nth_error_app_lt {A} (l l' : list A) n a : nth_error (l ++ l') n = Some a -> (n < length l)%nat ->
  nth_error l n = Some a.
Proof. intros H L. rewrite nth_error_app1 in H by exact L. exact H. Qed.

Lemma all_wf_fields_app a : forall b, all_wf_fields (a ++ b) -> all_wf_fields a /\ all_wf_fields b.
Proof.
  induction a as [|[k ft] a IH]; intros b H; cbn [app all_wf_fields] in *; [tauto|].
  destruct H as (H1 & H2 & H3). destruct (IH b H3). tauto.
Qed.
Lemma all_wf_ty_app a : forall b, all_wf_ty (a ++ b) -> all_wf_ty a /\ all_wf_ty b.
Proof.
  induction a as [|t a IH]; intros b H; cbn [app all_wf_ty] in *; [tauto|].
  destruct H as (H1 & H3). destruct (IH b H3). tauto.
Qed.
Lemma all_wf_ty_nth alts : all_wf_ty alts -> forall n t, nth_error alts n = Some t -> wf_ty t.
Proof.
  induction alts as [|a alts IH]; intros H [|n] t Hn; cbn [nth_error] in Hn; try discriminate;
    cbn [all_wf_ty] in H; destruct H as [H1 H2].
  - injection Hn as <-. exact H1.
  - eapply IH; eassumption.
Qed.

Lemma tr_vals_app_r tr : forall fsW fsR rx vals, length fsW = length fsR ->
  tr_vals tr fsW (fsR ++ rx) vals = tr_vals tr fsW fsR vals.
Proof.
  induction fsW as [|[kW tW] fsW IH]; intros [|[kR tR] fsR] rx vals Hl; try discriminate Hl; [reflexivity|].
  destruct vals as [|ov vals]; [reflexivity|]. cbn [app]. rewrite !tr_vals_cons.
  cbn [length] in Hl. rewrite IH by lia. reflexivity.
Qed.
Lemma tr_vals_app_l tr : forall fsW fsR wx vals, length fsW = length fsR ->
  tr_vals tr (fsW ++ wx) fsR vals = tr_vals tr fsW fsR vals.
Proof.
  induction fsW as [|[kW tW] fsW IH]; intros [|[kR tR] fsR] wx vals Hl; try discriminate Hl.
  - cbn [app]. destruct wx as [|[? ?] ?]; reflexivity.
  - destruct vals as [|ov vals]; [reflexivity|]. cbn [app]. rewrite !tr_vals_cons.
    cbn [length] in Hl. rewrite IH by lia. reflexivity.
Qed.

Lemma ed_is_choice t1 t2 : extends_deep t1 t2 -> is_choice t2 = is_choice t1.
Proof. destruct 1; reflexivity. Qed.

(** * the reader of one version on the encoding of the other, at any depth *)
Lemma Cprop_ext m W R (f g : val -> option val) : (forall v, f v = g v) -> Cprop m W R f -> Cprop m W R g.
Proof. intros E H v bs He Hv Hk s tail Hs. rewrite <- E. apply H; assumption. Qed.

Lemma compat_refl m t : wf_ty t -> Cprop m t t (conv_deep t t).
Proof.
  intros Hty v bs He Hv Hk s tail Hs. rewrite (conv_deep_refl t v Hv).
  apply (read_enc m t Hty v bs He Hv Hk s tail Hs).
Qed.

Definition comp_pre (m : mode) (fW fR : fkind * ty) : Prop :=
  fst fR = fst fW /\ is_choice (snd fR) = is_choice (snd fW) /\
  (wf_ty (snd fW) -> wf_ty (snd fR) -> Cprop m (snd fW) (snd fR) (conv_deep (snd fW) (snd fR))) /\
  match fst fW with FDef _ => snd fW = snd fR | _ => True end.

Lemma comp_ok_build m : forall fsW fsR, Forall2 (comp_pre m) fsW fsR ->
  all_wf_fields fsW -> all_wf_fields fsR -> Forall2 (comp_ok m conv_deep) fsW fsR.
Proof.
  induction 1 as [|[kW tW] [kR tR] fsW fsR Hc F IH]; intros HW HR; [constructor|].
  cbn [all_wf_fields] in HW, HR. destruct HW as (W1 & W2 & W3). destruct HR as (R1 & R2 & R3).
  destruct Hc as (C1 & C2 & C3 & C4). cbn [fst snd] in *.
  constructor; [|apply IH; assumption]. unfold comp_ok. cbn [fst snd].
  repeat split; [exact C1|exact C2|apply C3; assumption|].
  destruct kW as [| |d]; try exact I. subst tR. apply conv_deep_refl. exact W2.
Qed.

Definition ext_dir (fwd : bool) (W R : ty) : Prop := if fwd then extends_deep W R else extends_deep R W.

Theorem compat_deep m : forall W R fwd, ext_dir fwd W R -> wf_ty W -> wf_ty R -> Cprop m W R (conv_deep W R).
Proof.
  induction W as [| |k lo hi ext|c lo hi ext|lo hi ext|lo hi ext|e lo hi ext IH|fs so fc ea IH|alts std ext IH|vc std ext]
    using ty_ind'; intros R fwd H HW HR; destruct fwd; cbn [ext_dir] in H; inversion H; subst;
    try (apply compat_refl; exact HW).
  - (* SEQUENCE OF, forward *)
    cbn [wf_ty] in HW, HR.
    apply (Cprop_ext m _ _ (conv_list (conv_deep e e2))); [intros v; destruct v; reflexivity|].
    apply C_list. apply (IH e2 true); [assumption|tauto|tauto].
  - (* SEQUENCE OF, backward *)
    cbn [wf_ty] in HW, HR.
    apply (Cprop_ext m _ _ (conv_list (conv_deep e e1))); [intros v; destruct v; reflexivity|].
    apply C_list. apply (IH e1 false); [assumption|tauto|tauto].
  - (* SEQUENCE, forward: W = fs, R = fs2 ++ adds *)
    match goal with F : Forall2 (field_ext extends_deep) _ _ |- _ => rename F into F2 end.
    pose proof (Forall2_length' _ _ _ F2) as Hl.
    pose proof HW as HW'. pose proof HR as HR'.
    apply wf_ty_seq in HW'. destruct HW' as [(Wfc & Wlim & Wea & Wso) Wtf].
    apply wf_ty_seq in HR'. destruct HR' as [_ Rtf]. apply all_wf_fields_app in Rtf. destruct Rtf as [Rtf _].
    assert (FC : Forall2 (comp_ok m conv_deep) fs fs2).
    { apply comp_ok_build; [|exact Wtf|exact Rtf].
      refine (Forall2_impl' _ _ _ _ _ (Forall_Forall2_l _ _ _ _ IH F2)).
      intros a b [Qi (Q1 & Q2 & Q3)]. unfold comp_pre. repeat split.
      - symmetry. exact Q1.
      - apply ed_is_choice. exact Q2.
      - intros A B. apply (Qi (snd b) true Q2 A B).
      - exact Q3. }
    intros v bs He Hv Hk s tail Hs. destruct v as [| | | | | | |vals| |]; try contradiction Hv.
    cbn [conv_deep]. rewrite skipn_app_exact by exact Hl. rewrite tr_vals_app_r by exact Hl.
    destruct ea as [e|].
    + pose proof (seq_compat2 m conv_deep fs fs2 [] adds so fc (fc + N.of_nat (length adds)) e vals bs s tail) as Q.
      rewrite app_nil_r in Q.
      rewrite (Q HW HR ltac:(lia) FC ltac:(assumption) (Forall_nil _) (or_intror eq_refl) Hv Hk He Hs).
      destruct (tr_vals conv_deep fs fs2 vals); reflexivity.
    + assert (adds = []) by (destruct adds; [reflexivity|exfalso; match goal with Q : _ <> [] -> None <> None |- _ => apply Q; [discriminate|reflexivity] end]).
      subst adds. cbn [length pad_of map] in *. rewrite app_nil_r, N.add_0_r in *.
      rewrite (seq_nonext2 m conv_deep fs fs2 so fc vals bs s tail HW FC Hv Hk He Hs).
      destruct (tr_vals conv_deep fs fs2 vals) as [l|]; [|reflexivity]. cbn [option_map]. rewrite app_nil_r. reflexivity.
  - (* SEQUENCE, backward: W = fs2 ++ adds, R = fs1 *)
    match goal with F : Forall2 (field_ext extends_deep) _ _ |- _ => rename F into F2 end.
    pose proof (Forall2_length' _ _ _ F2) as Hl.
    pose proof HW as HW'. pose proof HR as HR'.
    apply wf_ty_seq in HR'. destruct HR' as [(Rfc & Rlim & Rea & Rso) Rtf].
    apply wf_ty_seq in HW'. destruct HW' as [_ Wtf]. apply all_wf_fields_app in Wtf. destruct Wtf as [Wtf _].
    apply Forall_app in IH. destruct IH as [IH _].
    assert (FC : Forall2 (comp_ok m conv_deep) fs2 fs1).
    { apply comp_ok_build; [|exact Wtf|exact Rtf].
      refine (Forall2_impl' _ _ _ _ _ (Forall_Forall2_l _ _ _ _ IH (Forall2_swap _ _ _ F2))).
      intros a b [Qi (Q1 & Q2 & Q3)]. unfold comp_pre. repeat split.
      - exact Q1.
      - symmetry. apply ed_is_choice. exact Q2.
      - intros A B. apply (Qi (snd b) false Q2 A B).
      - rewrite <- Q1. destruct (fst b); try exact I. symmetry. exact Q3. }
    intros v bs He Hv Hk s tail Hs. destruct v as [| | | | | | |vals| |]; try contradiction Hv.
    cbn [conv_deep]. rewrite skipn_all2 by (rewrite app_length; lia). rewrite tr_vals_app_l by (symmetry; exact Hl).
    cbn [pad_of map].
    destruct ea as [e|].
    + pose proof (seq_compat2 m conv_deep fs2 fs1 adds [] so (fc0 + N.of_nat (length adds)) fc0 e vals bs s tail) as Q.
      rewrite app_nil_r in Q.
      rewrite (Q HW HR ltac:(lia) FC (Forall_nil _) ltac:(assumption) (or_introl eq_refl) Hv Hk He Hs).
      destruct (tr_vals conv_deep fs2 fs1 vals); reflexivity.
    + assert (adds = []) by (destruct adds; [reflexivity|exfalso; match goal with Q : _ <> [] -> None <> None |- _ => apply Q; [discriminate|reflexivity] end]).
      subst adds. cbn [length] in *. rewrite app_nil_r, N.add_0_r in *.
      rewrite (seq_nonext2 m conv_deep fs2 fs1 so fc0 vals bs s tail HW FC Hv Hk He Hs).
      destruct (tr_vals conv_deep fs2 fs1 vals) as [l|]; [|reflexivity]. cbn [option_map]. rewrite app_nil_r. reflexivity.
  - (* CHOICE, forward *)
    match goal with F : Forall2 extends_deep _ _ |- _ => rename F into F2 end.
    pose proof (Forall2_length' _ _ _ F2) as Hl.
    apply (Cprop_ext m _ _ (conv_choice conv_deep alts (a2 ++ more))); [intros v; destruct v; reflexivity|].
    apply C_choice; [exact HW|exact HR|].
    intros n tW tR HnW HnR.
    assert (Ln : (n < length alts)%nat) by (apply nth_error_Some; congruence).
    apply nth_error_app_lt in HnR; [|lia].
    cbn [wf_ty] in HW, HR. destruct HW as (_ & _ & _ & _ & WA). destruct HR as (_ & _ & _ & _ & RA).
    fold all_wf_ty in WA, RA. apply all_wf_ty_app in RA. destruct RA as [RA _].
    rewrite Forall_forall in IH.
    apply (IH tW (nth_error_In _ _ HnW) tR true (Forall2_nth_error _ _ _ F2 n tW tR HnW HnR)
              (all_wf_ty_nth _ WA n tW HnW) (all_wf_ty_nth _ RA n tR HnR)).
  - (* CHOICE, backward *)
    match goal with F : Forall2 extends_deep _ _ |- _ => rename F into F2 end.
    pose proof (Forall2_length' _ _ _ F2) as Hl.
    apply (Cprop_ext m _ _ (conv_choice conv_deep (a2 ++ more) a1)); [intros v; destruct v; reflexivity|].
    apply C_choice; [exact HW|exact HR|].
    intros n tW tR HnW HnR.
    assert (Ln : (n < length a1)%nat) by (apply nth_error_Some; congruence).
    pose proof HnW as HnW'. apply nth_error_app_lt in HnW'; [|lia].
    cbn [wf_ty] in HW, HR. destruct HW as (_ & _ & _ & _ & WA). destruct HR as (_ & _ & _ & _ & RA).
    fold all_wf_ty in WA, RA.
    rewrite Forall_forall in IH.
    apply (IH tW (nth_error_In _ _ HnW) tR false (Forall2_nth_error _ _ _ F2 n tR tW HnR HnW')
              (all_wf_ty_nth _ WA n tW HnW) (all_wf_ty_nth _ RA n tR HnR)).
  - (* ENUMERATED, forward *)
    intros v bs He Hv Hk s tail Hs. destruct v as [| | | | | | | | |i]; try contradiction Hv.
    cbn [wf_val] in Hv. cbn [conv_deep]. destruct (N.ltb_spec i (vc + k)) as [L|L]; [|lia].
    apply (enum_forward m vc k std i bs s tail HR Hv He Hs).
  - (* ENUMERATED, backward *)
    intros v bs He Hv Hk s tail Hs. destruct v as [| | | | | | | | |i]; try contradiction Hv.
    cbn [wf_val] in Hv. cbn [conv_deep].
    destruct (enum_backward m vc0 k std i bs s tail HR HW Hv He Hs) as [A B].
    destruct (N.ltb_spec i vc0) as [L|L]; [apply A; exact L|apply B; lia].
Qed.

(** * forward: the translation is total *)
Lemma conv_pad : forall V1 V2 v, extends_deep V1 V2 -> wf_val V1 v ->
  conv_deep V1 V2 v = Some (pad_deep V1 V2 v).
Proof.
  induction V1 as [| |k lo hi ext|c lo hi ext|lo hi ext|lo hi ext|e lo hi ext IH|fs so fc ea IH|alts std ext IH|vc std ext]
    using ty_ind'; intros V2 v H Hv; inversion H; subst;
    try (rewrite conv_deep_refl, pad_deep_refl by exact Hv; reflexivity).
  - destruct v as [b| |z|cs|bytes|bytes n|vs|vals|i x|i]; try contradiction Hv.
    cbn [wf_val] in Hv. destruct Hv as [_ Hv]. change (all_wf_val e vs) in Hv. cbn [conv_deep pad_deep].
    match goal with Hx : extends_deep e e2 |- _ => rename Hx into He end.
    assert (E : tr_list (conv_deep e e2) vs = Some (map (pad_deep e e2) vs)).
    { induction vs as [|x vs IHl]; [reflexivity|]. cbn [all_wf_val] in Hv. destruct Hv as [Hx Hv].
      cbn [tr_list map]. rewrite (IH e2 x He Hx), (IHl Hv). reflexivity. }
    rewrite E. reflexivity.
  - destruct v as [b| |z|cs|bytes|bytes n|vs|vals|i x|i]; try contradiction Hv.
    change (all_wf_vals fs vals) in Hv. cbn [conv_deep pad_deep].
    match goal with F : Forall2 (field_ext extends_deep) _ _ |- _ => rename F into F2 end.
    assert (E : tr_vals conv_deep fs (fs2 ++ adds) vals = Some (pad_vals pad_deep fs (fs2 ++ adds) vals)).
    { pose proof (Forall_Forall2_l _ _ _ _ IH F2) as F. clear H IH F2. revert vals Hv.
      induction F as [|[k1 t1] [k2 t2] fs1 fs2' [Hi (Q1 & Q2 & Q3)] F IHl]; intros vals Hv.
      - destruct vals; [reflexivity|contradiction Hv].
      - destruct vals as [|ov vals]; [contradiction Hv|]. cbn [all_wf_vals] in Hv. destruct Hv as [Hv1 Hv].
        cbn [app]. rewrite tr_vals_cons. cbn [pad_vals]. fold (pad_vals pad_deep). cbn [snd] in Hi, Q2.
        rewrite (IHl vals Hv).
        destruct ov as [x|]; cbn [tr_ov option_map]; [rewrite (Hi t2 x Q2 Hv1)|]; reflexivity. }
    rewrite E. reflexivity.
  - destruct v as [b| |z|cs|bytes|bytes n|vs|vals|i x|i]; try contradiction Hv.
    change (pick_wf x alts (N.to_nat i)) in Hv. cbn [conv_deep pad_deep].
    match goal with F : Forall2 extends_deep _ _ |- _ => rename F into F2 end.
    assert (E : tr_pick conv_deep x alts (a2 ++ more) (N.to_nat i) = Some (pad_pick pad_deep x alts (a2 ++ more) (N.to_nat i))).
    { pose proof (Forall_Forall2_l _ _ _ _ IH F2) as F. clear H IH F2. revert Hv. generalize (N.to_nat i) as n.
      induction F as [|t1 t2 a1 a2' [Hi Q] F IHl]; intros [|n] Hv; cbn [pick_wf] in Hv; try contradiction Hv;
        cbn [app tr_pick pad_pick].
      - apply Hi; assumption.
      - apply IHl. exact Hv. }
    rewrite E. reflexivity.
  - destruct v as [b| |z|cs|bytes|bytes n|vs|vals|i x|i]; try contradiction Hv.
    cbn [wf_val] in Hv. cbn [conv_deep pad_deep]. destruct (N.ltb_spec i (vc + k)); [reflexivity|lia].
Qed.

(** * backward: [forget_deep] fails only on an alternative / item the older version does not have *)
(* the value, read positionally against the older type [R], contains a CHOICE index / ENUMERATED item
   beyond the ones [R] has *)
Fixpoint has_unknown (R : ty) (v : val) {struct R} : Prop :=
  match R, v with
  | TListOf e _ _ _, VList vs =>
      (fix any (vs : list val) : Prop :=
         match vs with [] => False | x :: r => has_unknown e x \/ any r end) vs
  | TSeq fs _ _ _, VSeq vals =>
      (fix any (fs : list (fkind * ty)) (vals : list (option val)) : Prop :=
         match fs, vals with
         | (_, t) :: fs', ov :: vals' =>
             match ov with Some x => has_unknown t x | None => False end \/ any fs' vals'
         | _, _ => False
         end) fs vals
  | TChoice alts _ _, VChoice i x =>
      N.of_nat (length alts) <= i \/
      (fix pick (alts : list ty) (n : nat) : Prop :=
         match alts, n with
         | a :: _, O => has_unknown a x
         | _ :: r, S n' => pick r n'
         | [], _ => False
         end) alts (N.to_nat i)
  | TEnum vc _ _, VEnum i => vc <= i
  | _, _ => False
  end.

Definition unk_list (e : ty) :=
  fix any (vs : list val) : Prop := match vs with [] => False | x :: r => has_unknown e x \/ any r end.
Definition unk_vals :=
  fix any (fs : list (fkind * ty)) (vals : list (option val)) : Prop :=
    match fs, vals with
    | (_, t) :: fs', ov :: vals' =>
        match ov with Some x => has_unknown t x | None => False end \/ any fs' vals'
    | _, _ => False
    end.
Definition unk_pick (x : val) :=
  fix pick (alts : list ty) (n : nat) : Prop :=
    match alts, n with
    | a :: _, O => has_unknown a x
    | _ :: r, S n' => pick r n'
    | [], _ => False
    end.

Lemma option_map_none {A B} (f : A -> B) o : option_map f o = None -> o = None.
Proof. destruct o; [discriminate|reflexivity]. Qed.

Lemma conv_none_unknown : forall W R v, wf_val W v -> conv_deep W R v = None -> has_unknown R v.
Proof.
  induction W as [| |k lo hi ext|c lo hi ext|lo hi ext|lo hi ext|e lo hi ext IH|fs so fc ea IH|alts std ext IH|vc std ext]
    using ty_ind'; intros R v Hv Hn.
  1-6: destruct R; destruct v; discriminate Hn.
  - destruct R as [| | | | | |eR lo' hi' ext'| | |]; try (destruct v; discriminate Hn).
    destruct v as [b| |z|cs|bytes|bytes n|vs|vals|i x|i]; try discriminate Hn.
    cbn [wf_val] in Hv. destruct Hv as [_ Hv]. change (all_wf_val e vs) in Hv.
    cbn [conv_deep] in Hn. apply option_map_none in Hn. change (unk_list eR vs).
    induction vs as [|x vs IHl]; [discriminate Hn|]. cbn [all_wf_val] in Hv. destruct Hv as [Hx Hv].
    cbn [tr_list] in Hn. cbn [unk_list].
    destruct (conv_deep e eR x) eqn:Ex; [|left; apply (IH eR x Hx Ex)].
    right. apply IHl; [exact Hv|]. apply option_map_none in Hn. exact Hn.
  - destruct R as [| | | | | | |fsR so' fc' ea'| |]; try (destruct v; discriminate Hn).
    destruct v as [b| |z|cs|bytes|bytes n|vs|vals|i x|i]; try discriminate Hn.
    change (all_wf_vals fs vals) in Hv. cbn [conv_deep] in Hn. apply option_map_none in Hn.
    change (unk_vals fsR vals). clear so fc ea so' fc' ea'.
    revert fsR vals Hv Hn. induction IH as [|[kW tW] fsW Hf _ IHl]; intros fsR vals Hv Hn; [discriminate Hn|].
    destruct fsR as [|[kR tR] fsR]; [discriminate Hn|]. destruct vals as [|ov vals]; [discriminate Hn|].
    cbn [all_wf_vals] in Hv. destruct Hv as [Hv1 Hv]. rewrite tr_vals_cons in Hn. cbn [unk_vals snd] in *.
    destruct ov as [x|]; cbn [tr_ov] in Hn.
    + destruct (conv_deep tW tR x) eqn:Ex; [|left; apply (Hf tR x Hv1 Ex)]. cbn [option_map] in Hn.
      right. apply IHl; [exact Hv|]. apply option_map_none in Hn. exact Hn.
    + right. apply IHl; [exact Hv|]. apply option_map_none in Hn. exact Hn.
  - destruct R as [| | | | | | | |aR std' ext'|]; try (destruct v; discriminate Hn).
    destruct v as [b| |z|cs|bytes|bytes n|vs|vals|i x|i]; try discriminate Hn.
    change (pick_wf x alts (N.to_nat i)) in Hv. cbn [conv_deep] in Hn. apply option_map_none in Hn.
    change (N.of_nat (length aR) <= i \/ unk_pick x aR (N.to_nat i)).
    assert (Q : (length aR <= N.to_nat i)%nat \/ unk_pick x aR (N.to_nat i)).
    { revert Hv Hn. generalize (N.to_nat i) as n. revert aR.
      induction IH as [|tW aW Ha _ IHl]; intros aR n Hv Hn; [destruct n; contradiction Hv|].
      destruct aR as [|tR aR]; [left; cbn [length]; lia|].
      destruct n as [|n]; cbn [pick_wf tr_pick unk_pick length] in *.
      - right. apply (Ha tR x Hv Hn).
      - destruct (IHl aR n Hv Hn) as [L|U]; [left; lia|right; exact U]. }
    destruct Q as [L|U]; [left; lia|right; exact U].
  - destruct R as [| | | | | | | | |vcR std' ext']; try (destruct v; discriminate Hn).
    destruct v as [b| |z|cs|bytes|bytes n|vs|vals|i x|i]; try discriminate Hn.
    cbn [conv_deep] in Hn. cbn [has_unknown]. destruct (N.ltb_spec i vcR); [discriminate Hn|assumption].
Qed.

(** * the end-to-end statements at any depth *)
Theorem C05_forward_deep_thm m V1 V2 v bs s tail :
  extends_deep V1 V2 -> wf_ty V1 -> wf_ty V2 -> wf_val V1 v -> ~ Known_C01 m V1 v ->
  enc m V1 v = Ok bs -> rsrc s bs tail ->
  read_ty m V2 (r_of_src s) = Ok (pad_deep V1 V2 v, r_of_src (src_adv s (bl bs) tail)).
Proof.
  intros Hext H1 H2 Hv Hk He Hs.
  rewrite (compat_deep m V1 V2 true Hext H1 H2 v bs He Hv Hk s tail Hs), (conv_pad V1 V2 v Hext Hv). reflexivity.
Qed.

Theorem C05_backward_deep_thm m V1 V2 v bs s tail :
  extends_deep V1 V2 -> wf_ty V1 -> wf_ty V2 -> wf_val V2 v -> ~ Known_C01 m V2 v ->
  enc m V2 v = Ok bs -> rsrc s bs tail ->
  (forall v', forget_deep V1 V2 v = Some v' ->
     read_ty m V1 (r_of_src s) = Ok (v', r_of_src (src_adv s (bl bs) tail))) /\
  (forget_deep V1 V2 v = None ->
     read_ty m V1 (r_of_src s) = Err E_INVALID_CHOICE /\ has_unknown V1 v) /\
  (~ has_unknown V1 v -> exists v', forget_deep V1 V2 v = Some v').
Proof.
  intros Hext H1 H2 Hv Hk He Hs. unfold forget_deep.
  pose proof (compat_deep m V2 V1 false Hext H2 H1 v bs He Hv Hk s tail Hs) as Q.
  split; [|split].
  - intros v' E. rewrite E in Q. exact Q.
  - intros E. rewrite E in Q. split; [exact Q|]. apply (conv_none_unknown V2 V1 v Hv E).
  - intros Hu. destruct (conv_deep V2 V1 v) as [v'|] eqn:E; [exists v'; reflexivity|].
    exfalso. apply Hu. apply (conv_none_unknown V2 V1 v Hv E).
Qed.

(* the top-level pairs of CompatFullProofs are instances *)
Lemma Forall2_field_refl : forall fs, Forall2 (field_ext extends_deep) fs fs.
Proof.
  induction fs as [|[k t] fs IH]; constructor; [|exact IH].
  unfold field_ext. cbn [fst snd]. repeat split; [apply ed_refl|destruct k; reflexivity || exact I].
Qed.
Lemma Forall2_ed_refl : forall l, Forall2 extends_deep l l.
Proof. induction l; constructor; [apply ed_refl|assumption]. Qed.

Lemma extends_is_deep V1 V2 : extends V1 V2 -> extends_deep V1 V2 /\ wf_ty V1 /\ wf_ty V2.
Proof.
  intros [fs adds so fc ea Hty1 Hty2 Fo|alts more std Hty1 Hty2|vc k std Hty1 Hty2]; (split; [|split; assumption]).
  - apply ed_seq; [apply Forall2_field_refl|exact Fo|discriminate].
  - apply ed_choice; [apply Forall2_ed_refl|reflexivity].
  - apply ed_enum.
Qed.

(* the reader ends exactly at the end of the message: a value written after it decodes correctly *)
Theorem C05_sentinel_forward_deep_thm m V1 V2 v bs T x bs' s tail :
  extends_deep V1 V2 -> wf_ty V1 -> wf_ty V2 -> wf_val V1 v -> ~ Known_C01 m V1 v -> enc m V1 v = Ok bs ->
  wf_ty T -> wf_val T x -> ~ Known_C01 m T x -> enc m T x = Ok bs' ->
  rsrc s (bs ++ bs') tail ->
  exists r1, read_ty m V2 (r_of_src s) = Ok (pad_deep V1 V2 v, r1) /\
             read_ty m T r1 = Ok (x, r_of_src (src_adv s (bl (bs ++ bs')) tail)).
Proof.
  intros Hext H1 H2 Hv Hk He HtyT HvT HkT HeT Hs. apply rsrc_split in Hs. destruct Hs as [Hs1 Hs2].
  eexists. split; [apply (C05_forward_deep_thm m V1 V2 v bs s _ Hext H1 H2 Hv Hk He Hs1)|].
  rewrite (read_enc m T HtyT x bs' HeT HvT HkT _ _ Hs2), src_adv_adv, bl_app. reflexivity.
Qed.

Theorem C05_sentinel_backward_deep_thm m V1 V2 v v' bs T x bs' s tail :
  extends_deep V1 V2 -> wf_ty V1 -> wf_ty V2 -> wf_val V2 v -> ~ Known_C01 m V2 v -> enc m V2 v = Ok bs ->
  forget_deep V1 V2 v = Some v' ->
  wf_ty T -> wf_val T x -> ~ Known_C01 m T x -> enc m T x = Ok bs' ->
  rsrc s (bs ++ bs') tail ->
  exists r1, read_ty m V1 (r_of_src s) = Ok (v', r1) /\
             read_ty m T r1 = Ok (x, r_of_src (src_adv s (bl (bs ++ bs')) tail)).
Proof.
  intros Hext H1 H2 Hv Hk He Hf HtyT HvT HkT HeT Hs. apply rsrc_split in Hs. destruct Hs as [Hs1 Hs2].
  eexists. split; [apply (proj1 (C05_backward_deep_thm m V1 V2 v bs s _ Hext H1 H2 Hv Hk He Hs1) v' Hf)|].
  rewrite (read_enc m T HtyT x bs' HeT HvT HkT _ _ Hs2), src_adv_adv, bl_app. reflexivity.
Qed.

(** * [extends_deep] is transitive (V1 -> V2 -> V3: the additions accumulate at every node) *)
Lemma Forall2_trans_gen {A} (R : A -> A -> Prop) (P : A -> Prop) :
  (forall a b c, P a -> R a b -> R b c -> R a c) ->
  forall l1 l2 l3, Forall P l1 -> Forall2 R l1 l2 -> Forall2 R l2 l3 -> Forall2 R l1 l3.
Proof.
  intros HT l1 l2 l3 F F12. revert l3. induction F12 as [|a b l1 l2 Hab F12 IH]; intros l3 F23.
  - inversion F23. constructor.
  - inversion F23 as [|b' c l2' l3' Hbc F23']; subst. apply Forall_cons_iff in F. destruct F as [Pa F].
    constructor; [eapply HT; eassumption|apply IH; assumption].
Qed.

Lemma field_ext_optk : forall l l', Forall2 (field_ext extends_deep) l l' -> Forall optk l -> Forall optk l'.
Proof.
  induction 1 as [|a b l l' (Q1 & _) F IH]; intros Fo; [constructor|].
  apply Forall_cons_iff in Fo. destruct Fo as [Oa Fo]. constructor; [|apply IH; exact Fo].
  unfold optk in *. rewrite <- Q1. exact Oa.
Qed.

Theorem extends_deep_trans : forall A B C, extends_deep A B -> extends_deep B C -> extends_deep A C.
Proof.
  induction A as [| |k lo hi ext|c lo hi ext|lo hi ext|lo hi ext|e lo hi ext IH|fs so fc ea IH|alts std ext IH|vc std ext]
    using ty_ind'; intros B C H1 H2; inversion H1; subst; try exact H2.
  - (* SEQUENCE OF *)
    inversion H2; subst; [exact H1|]. apply ed_list. eapply IH; eassumption.
  - (* SEQUENCE / SET *)
    inversion H2 as [|?|fs1' fs2' adds' so' fc' ea' F23 Fo' Hne'| |]; subst; [exact H1|].
    match goal with F : Forall2 (field_ext extends_deep) fs _ |- _ => rename F into F12 end.
    apply Forall2_app_inv_l in F23. destruct F23 as (fa & fb & Fa & Fb & ->).
    pose proof (Forall2_length' _ _ _ Fb) as Lb.
    replace (TSeq ((fa ++ fb) ++ adds') so (fc + N.of_nat (length adds) + N.of_nat (length adds')) ea)
      with (TSeq (fa ++ (fb ++ adds')) so (fc + N.of_nat (length (fb ++ adds'))) ea)
      by (rewrite app_assoc, app_length; f_equal; lia).
    apply ed_seq.
    + refine (Forall2_trans_gen _ _ _ fs fs2 fa IH F12 Fa).
      intros a b c Pa (Q1 & Q2 & Q3) (S1 & S2 & S3). unfold field_ext. repeat split.
      * congruence.
      * eapply Pa; eassumption.
      * destruct (fst a) eqn:Ea; try exact I. rewrite <- Q1 in S3. rewrite Q3. exact S3.
    + apply Forall_app. split; [eapply field_ext_optk; eassumption|exact Fo'].
    + intros Hne. destruct adds as [|x adds]; [|match goal with Q : _ :: _ <> [] -> ea <> None |- _ => apply Q; discriminate end].
      inversion Fb; subst. cbn [app] in Hne. apply Hne'. exact Hne.
  - (* CHOICE *)
    inversion H2 as [| | |a1' a2' more' std' ext' F23 Hne'|]; subst; [exact H1|].
    match goal with F : Forall2 extends_deep alts _ |- _ => rename F into F12 end.
    apply Forall2_app_inv_l in F23. destruct F23 as (ca & cb & Fa & Fb & ->).
    rewrite <- app_assoc. apply ed_choice.
    + refine (Forall2_trans_gen _ _ _ alts a2 ca IH F12 Fa). intros a b c Pa Q S. eapply Pa; eassumption.
    + intros Hne. destruct more as [|x more]; [|match goal with Q : _ :: _ <> [] -> ext = true |- _ => apply Q; discriminate end].
      inversion Fb; subst. cbn [app] in Hne. apply Hne'. exact Hne.
  - (* ENUMERATED *)
    inversion H2; subst; [exact H1|]. rewrite <- N.add_assoc. apply ed_enum.
Qed.

(** * non-vacuity: the evolving type inside a SEQUENCE OF (root component) and inside an extension
      addition (open type) of an outer SEQUENCE at once.
      Outer ::= SEQUENCE { hdr INTEGER(0..255), body SEQUENCE OF Inner, ..., tail Inner OPTIONAL }
      Inner V1 ::= SEQUENCE { a BOOLEAN, ... }     Inner V2 ::= SEQUENCE { a BOOLEAN, ..., b OCTET STRING OPTIONAL } *)
Definition exn_inner1 : ty := TSeq [(FReq, TBool)] 0 1 (Some 0).
Definition exn_inner2 : ty := TSeq [(FReq, TBool); (FOpt, TOctets None None false)] 0 2 (Some 0).
Definition exn_outer (inner : ty) : ty :=
  TSeq [(FReq, TInt U8 (Some 0%Z) (Some 255%Z) false); (FReq, TListOf inner None None false); (FOpt, inner)]
       0 3 (Some 1).
Definition exn_V1 : ty := exn_outer exn_inner1.
Definition exn_V2 : ty := exn_outer exn_inner2.
(* V2 data: b present in the first element and in tail, absent in the second element *)
Definition exn_v2 : val :=
  VSeq [Some (VInt 7);
        Some (VList [VSeq [Some (VBool true); Some (VOctets [1; 2; 3])]; VSeq [Some (VBool false); None]]);
        Some (VSeq [Some (VBool true); Some (VOctets [9])])].
Definition exn_v2_seen_by_V1 : val :=
  VSeq [Some (VInt 7); Some (VList [VSeq [Some (VBool true)]; VSeq [Some (VBool false)]]); Some (VSeq [Some (VBool true)])].
Definition exn_v1 : val :=
  VSeq [Some (VInt 200); Some (VList [VSeq [Some (VBool false)]]); Some (VSeq [Some (VBool true)])].
Definition exn_v1_seen_by_V2 : val :=
  VSeq [Some (VInt 200); Some (VList [VSeq [Some (VBool false); None]]); Some (VSeq [Some (VBool true); None])].

(* an ENUMERATED that gained an item, inside a SEQUENCE inside a SEQUENCE OF: the new item makes the
   old reader fail with InvalidChoiceIndex, the old items decode *)
Definition exn_E1 : ty := TListOf (TSeq [(FReq, TEnum 2 2 true); (FReq, TBool)] 0 2 None) None None false.
Definition exn_E2 : ty := TListOf (TSeq [(FReq, TEnum 3 2 true); (FReq, TBool)] 0 2 None) None None false.
Definition exn_e_known : val := VList [VSeq [Some (VEnum 1); Some (VBool true)]; VSeq [Some (VEnum 0); Some (VBool false)]].
Definition exn_e_unknown : val := VList [VSeq [Some (VEnum 1); Some (VBool true)]; VSeq [Some (VEnum 2); Some (VBool false)]].

Lemma exn_inner_extends : extends_deep exn_inner1 exn_inner2.
Proof.
  apply (ed_seq [(FReq, TBool)] [(FReq, TBool)] [(FOpt, TOctets None None false)] 0 1 (Some 0)).
  - apply Forall2_field_refl.
  - repeat constructor.
  - discriminate.
Qed.

Lemma exn_extends : extends_deep exn_V1 exn_V2.
Proof.
  apply (ed_seq [(FReq, TInt U8 (Some 0%Z) (Some 255%Z) false); (FReq, TListOf exn_inner1 None None false); (FOpt, exn_inner1)]
                [(FReq, TInt U8 (Some 0%Z) (Some 255%Z) false); (FReq, TListOf exn_inner2 None None false); (FOpt, exn_inner2)]
                [] 0 3 (Some 1)).
  - repeat constructor; cbn [fst snd]; try reflexivity; try apply ed_refl; try apply ed_list; apply exn_inner_extends.
  - constructor.
  - intros C. contradiction C. reflexivity.
Qed.

Lemma exn_E_extends : extends_deep exn_E1 exn_E2.
Proof.
  apply ed_list.
  apply (ed_seq [(FReq, TEnum 2 2 true); (FReq, TBool)] [(FReq, TEnum 3 2 true); (FReq, TBool)] [] 0 2 None).
  - repeat constructor; cbn [fst snd]; try reflexivity; try apply ed_refl. apply (ed_enum 2 1 2).
  - constructor.
  - intros C. contradiction C. reflexivity.
Qed.

Ltac exn_unfold :=
  unfold exn_V1, exn_V2, exn_outer, exn_inner1, exn_inner2, exn_v1, exn_v2, exn_E1, exn_E2, exn_e_known, exn_e_unknown in *.
Ltac exn_not_known :=
  let C := fresh "C" in
  intros C; exn_unfold; cbn [Known_C01 app] in C;
  repeat match goal with
         | H : _ \/ _ |- _ => destruct H
         | H : _ /\ _ |- _ => destruct H
         | H : False |- _ => contradiction H
         | H : Known_C01_open_type_16k _ _ _ |- _ =>
             let b := fresh "b" in let E := fresh "E" in let L := fresh "L" in
             destruct H as (b & E & L); vm_compute in E; injection E as <-; vm_compute in L; apply L; reflexivity
         | H : Known_C10_sized_length _ _ _ |- _ => destruct H as [H _]; apply H; reflexivity
         | H : Known_C01_len _ _ _ _ |- _ => destruct H
         | H : Known_C01_size_F10_1 _ _ _ _ |- _ => destruct H as [_ H]; apply H; reflexivity
         | H : Known_C01_count_16k _ _ _ _ |- _ => destruct H as [H _]; vm_compute in H; apply H; reflexivity
         end.
Ltac exn_wf_value :=
  exn_unfold; cbn [wf_val app]; repeat split; try reflexivity; try (vm_compute; reflexivity);
  try (repeat constructor; reflexivity).

Lemma nonvacuous_c05_nested :
  extends_deep exn_V1 exn_V2 /\ wf_ty exn_V1 /\ wf_ty exn_V2 /\
  (wf_val exn_V2 exn_v2 /\ ~ Known_C01 dev_mode exn_V2 exn_v2) /\
  (wf_val exn_V1 exn_v1 /\ ~ Known_C01 dev_mode exn_V1 exn_v1) /\
  (* backward: V2 data (b present inside the SEQUENCE OF and inside the open type) under V1, sentinel after it *)
  forget_deep exn_V1 exn_V2 exn_v2 = Some exn_v2_seen_by_V1 /\
  compat_run dev_mode exn_V2 exn_V1 exn_v2 ex5_sentinel (VInt 165) = Some (exn_v2_seen_by_V1, VInt 165, true) /\
  compat_run release_mode exn_V2 exn_V1 exn_v2 ex5_sentinel (VInt 165) = Some (exn_v2_seen_by_V1, VInt 165, true) /\
  (* forward: V1 data under V2 *)
  pad_deep exn_V1 exn_V2 exn_v1 = exn_v1_seen_by_V2 /\
  compat_run dev_mode exn_V1 exn_V2 exn_v1 ex5_sentinel (VInt 165) = Some (exn_v1_seen_by_V2, VInt 165, true) /\
  (* a nested ENUMERATED item the old version does not have: an error, never a value *)
  extends_deep exn_E1 exn_E2 /\ wf_ty exn_E1 /\ wf_ty exn_E2 /\
  (wf_val exn_E2 exn_e_unknown /\ ~ Known_C01 dev_mode exn_E2 exn_e_unknown) /\
  forget_deep exn_E1 exn_E2 exn_e_unknown = None /\ has_unknown exn_E1 exn_e_unknown /\
  forget_deep exn_E1 exn_E2 exn_e_known = Some exn_e_known /\
  match enc dev_mode exn_E2 exn_e_unknown with
  | Ok bs => read_ty dev_mode exn_E1 (r_of_src (src_of_bits bs (bl bs))) = Err E_INVALID_CHOICE
  | _ => False
  end.
Proof.
  split; [exact exn_extends|].
  split; [vm_compute; repeat split; try discriminate; try reflexivity|].
  split; [vm_compute; repeat split; try discriminate; try reflexivity|].
  split; [split; [exn_wf_value|exn_not_known]|].
  split; [split; [exn_wf_value|exn_not_known]|].
  split; [vm_compute; reflexivity|].
  split; [vm_compute; reflexivity|].
  split; [vm_compute; reflexivity|].
  split; [vm_compute; reflexivity|].
  split; [vm_compute; reflexivity|].
  split; [exact exn_E_extends|].
  split; [vm_compute; repeat split; try discriminate; try reflexivity|].
  split; [vm_compute; repeat split; try discriminate; try reflexivity|].
  split; [split; [exn_wf_value|exn_not_known]|].
  split; [vm_compute; reflexivity|].
  split; [cbn; right; left; left; vm_compute; discriminate|].
  split; [vm_compute; reflexivity|].
  vm_compute. reflexivity.
Qed.
