(* Step lemmas about the reader's handling of the transmitted extension presence range (C05). *)
From A1 Require Import Uper.Reader.
Require Import ZifyBool ZifyNat ZifyN.
Local Open Scope N_scope.

Lemma beyond_transmitted_is_absent r a b is_opt :
  b <= a -> read_from_field_simple r (AllBitField a b) is_opt = Ok (f_ok (Some false), r).
Proof.
  intros H. unfold read_from_field_simple.
  destruct (N.ltb_spec a b); [lia|reflexivity].
Qed.

Lemma skip_loop_done f m r p stop : stop <= p -> skip_unknown_loop f m r p stop = Ok r.
Proof. intros H. destruct f; cbn [skip_unknown_loop]; [reflexivity|]. destruct (N.leb_spec stop p); [reflexivity|lia]. Qed.

Lemma skip_nothing m r b :
  r_scope r = Some (AllBitField b b) -> skip_unknown_extension_additions m r = Ok r.
Proof.
  intros H. unfold skip_unknown_extension_additions. rewrite H.
  rewrite skip_loop_done by lia. destruct r as [s sc]. cbn in *. subst sc. reflexivity.
Qed.

Lemma skip_absent_step f m r p stop :
  p < stop -> r_bit_at (r_src r) p = Ok false ->
  skip_unknown_loop (S f) m r p stop = skip_unknown_loop f m r (p + 1) stop.
Proof.
  intros Hp Hb. cbn [skip_unknown_loop]. destruct (N.leb_spec stop p); [lia|].
  rewrite Hb. reflexivity.
Qed.

Lemma skip_present_step f m r p stop len r1 :
  p < stop -> r_bit_at (r_src r) p = Ok true ->
  r_get r (r_length_determinant m None None) = Ok (len, r1) ->
  len * 8 < two64 -> s_pos (r_src r1) + len * 8 < two64 ->
  s_pos (r_src r1) + len * 8 <= s_len (r_src r1) ->
  skip_unknown_loop (S f) m r p stop =
    skip_unknown_loop f m (r_set_src r1 (src_set_pos (r_src r1) (s_pos (r_src r1) + len * 8))) (p + 1) stop.
Proof.
  intros Hp Hb Hl H1 H2 H3. cbn [skip_unknown_loop]. destruct (N.leb_spec stop p); [lia|].
  rewrite Hb. cbn [bind]. rewrite Hl. cbn [bind].
  unfold umul. change BYTE_LEN with 8. destruct (N.ltb_spec (len * 8) two64); [|lia]. cbn [bind].
  unfold uadd. destruct (N.ltb_spec (s_pos (r_src r1) + len * 8) two64); [|lia]. cbn [bind].
  assert (E : s_pos (src_set_pos (r_src r1) (s_pos (r_src r1) + len * 8)) = s_pos (r_src r1) + len * 8).
  { unfold src_set_pos. cbn [s_pos]. apply N.min_l. lia. }
  change (r_src (r_set_src r1 ?x)) with x. cbn [r_set_src r_src].
  rewrite E. rewrite N.eqb_refl. reflexivity.
Qed.
