(* L2 rejection lemmas (C06): at top level a value outside a non-extensible constraint makes
   write_ty answer the constraint error. *)
From A1 Require Import Per.Prim Per.X691 Per.Proofs Uper.Reader.
Require Import ZifyBool ZifyNat ZifyN.
Local Open Scope N_scope.

Lemma entry_none m w : w_scope w = None -> write_bit_field_entry m w false true = Ok w.
Proof. intros H. unfold write_bit_field_entry. rewrite H. reflexivity. Qed.

Lemma with_buffer_none m w f : w_scope w = None -> with_buffer m w f = f w.
Proof. intros H. unfold with_buffer. rewrite H. reflexivity. Qed.

Lemma to_i64_id v : is_i64 v -> to_i64 v = v.
Proof. intros H. unfold to_i64. apply u64_i64_roundtrip. exact H. Qed.

Lemma int_reject m k lo hi v w :
  w_scope w = None -> is_i64 v -> (v < lo \/ hi < v)%Z ->
  write_ty m (TInt k (Some lo) (Some hi) false) (VInt v) w = Err E_VALUE_RANGE.
Proof.
  intros Hs Hv Hr. cbn [write_ty]. rewrite entry_none by exact Hs. cbn [bind].
  rewrite with_buffer_none by exact Hs. rewrite to_i64_id by exact Hv.
  cbn [is_some negb andb opt_or]. unfold w_put.
  rewrite constrained_reject by exact Hr. reflexivity.
Qed.

Lemma octets_reject m lo hi bs w :
  w_scope w = None -> blen bs < opt_or lo 0 \/ opt_or hi I64_MAX < blen bs ->
  write_ty m (TOctets lo hi false) (VOctets bs) w = Err E_SIZE_RANGE.
Proof.
  intros Hs Hr. cbn [write_ty]. rewrite entry_none by exact Hs. cbn [bind].
  rewrite with_buffer_none by exact Hs. unfold w_put.
  rewrite octetstring_reject by exact Hr. reflexivity.
Qed.

Lemma bits_reject m lo hi bs bl w :
  w_scope w = None -> bl < opt_or lo 0 \/ opt_or hi I64_MAX < bl ->
  write_ty m (TBitStr lo hi false) (VBits bs bl) w = Err E_SIZE_RANGE.
Proof.
  intros Hs Hr. cbn [write_ty]. rewrite entry_none by exact Hs. cbn [bind].
  rewrite with_buffer_none by exact Hs. unfold w_put.
  rewrite bitstring_reject by exact Hr. reflexivity.
Qed.

Lemma index_rej m std i : std <= i -> w_enumeration_index m std false i = Err E_INVALID_CHOICE.
Proof. intros H. apply index_reject. apply x_index_none. auto. Qed.

Lemma enum_reject m vc std i w :
  w_scope w = None -> std <= i ->
  write_ty m (TEnum vc std false) (VEnum i) w = Err E_INVALID_CHOICE.
Proof.
  intros Hs Hr. cbn [write_ty]. rewrite entry_none by exact Hs. cbn [bind].
  rewrite with_buffer_none by exact Hs. unfold w_put. rewrite index_rej by exact Hr. reflexivity.
Qed.

Lemma choice_reject m alts std i x w :
  w_scope w = None -> std <= i ->
  write_ty m (TChoice alts std false) (VChoice i x) w = Err E_INVALID_CHOICE.
Proof.
  intros Hs Hr. cbn [write_ty]. rewrite entry_none by exact Hs. cbn [bind].
  unfold scope_stashed, w_put. rewrite index_rej by exact Hr. reflexivity.
Qed.

Lemma alphabet_reject m c lo hi ext chars w :
  w_scope w = None -> c <> Utf8 -> find_invalid c chars = true ->
  write_ty m (TStr c lo hi ext) (VStr chars) w = Err E_INVALID_STRING.
Proof.
  intros Hs Hc Hf. destruct c; try congruence; cbn [write_ty];
    rewrite entry_none by exact Hs; cbn [bind];
    rewrite with_buffer_none by exact Hs; rewrite Hf; reflexivity.
Qed.

Lemma ext_len_reject m w min max upper len :
  len < opt_or min 0 \/ opt_or max upper < len ->
  write_ext_bit_and_length m w false min max upper len = Err E_SIZE_RANGE.
Proof.
  intros H. unfold write_ext_bit_and_length.
  assert ((len <? opt_or min 0) || (opt_or max upper <? len) = true) as ->.
  { destruct H as [H|H]; [apply N.ltb_lt in H; rewrite H; reflexivity|].
    apply N.ltb_lt in H. rewrite H. apply orb_true_r. }
  reflexivity.
Qed.

Lemma string_size_reject m c lo hi chars w :
  w_scope w = None -> c <> Utf8 -> find_invalid c chars = false ->
  N.of_nat (length chars) < opt_or lo 0 \/ opt_or hi U64_MAX < N.of_nat (length chars) ->
  write_ty m (TStr c lo hi false) (VStr chars) w = Err E_SIZE_RANGE.
Proof.
  intros Hs Hc Hf Hr. destruct c; try congruence; cbn [write_ty];
    rewrite entry_none by exact Hs; cbn [bind];
    rewrite with_buffer_none by exact Hs; rewrite Hf;
    rewrite ext_len_reject by exact Hr; reflexivity.
Qed.

Lemma list_size_reject m e lo hi vs w :
  w_scope w = None ->
  N.of_nat (length vs) < opt_or lo 0 \/ opt_or hi I64_MAX < N.of_nat (length vs) ->
  write_ty m (TListOf e lo hi false) (VList vs) w = Err E_SIZE_RANGE.
Proof.
  intros Hs Hr. cbn [write_ty]. rewrite entry_none by exact Hs. cbn [bind].
  rewrite with_buffer_none by exact Hs. unfold scope_stashed at 1.
  rewrite ext_len_reject by exact Hr. reflexivity.
Qed.
