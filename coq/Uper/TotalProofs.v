(* C04, UPER part: the reader model [read_ty] is total on every source.
   For every well-formed type outside the listed finding classes ([Known_C04]) and every source
   (byte string, declared bit length) the outcome is Ok or Err -- never one of the explicit Panic
   outcomes of the model (arithmetic, allocation / loop bound, unwrap, debug assertion, "unreachable") --
   and every state reached keeps the cursor inside the declared length, so that the accessors
   (remaining-bit count) cannot underflow afterwards. *)
From A1 Require Import Uper.Proofs.
From A1 Require Import Per.Proofs.
Require Import ZifyBool ZifyNat ZifyN.
Local Open Scope N_scope.

(** * the source invariant *)
(* the unread bits are the suffix of the slice at the cursor; the cursor never passes the
   declared bit length; the declared length is a bit count of a Rust slice (< 2^63) *)
Definition src_inv (s : src) : Prop :=
  s_rest s = skipn (N.to_nat (s_pos s)) (s_all s) /\ s_pos s <= s_len s /\ s_len s < two63.
(* same slice, same declared length *)
Definition same_src (s s' : src) : Prop :=
  s_all s' = s_all s /\ s_total s' = s_total s /\ s_len s' = s_len s.

Lemma same_src_refl s : same_src s s.
Proof. repeat split. Qed.
Lemma same_src_trans a b c : same_src a b -> same_src b c -> same_src a c.
Proof. unfold same_src. intuition congruence. Qed.

Lemma src_of_bits_inv all len : len < two63 -> src_inv (src_of_bits all len).
Proof. intros H. unfold src_inv, src_of_bits. cbn. repeat split; [lia|exact H]. Qed.

(* an L1 reader keeps the invariant on success *)
Definition keeps {A} (f : src -> res (A * src)) : Prop :=
  forall s a s', src_inv s -> f s = Ok (a, s') -> src_inv s' /\ same_src s s'.

Lemma keeps_ret {A} (a : A) : keeps (fun s => Ok (a, s)).
Proof. intros s a' s' H E. injection E as _ <-. split; [exact H|apply same_src_refl]. Qed.
Lemma keeps_err {A} e : keeps (fun s => @Err (A * src) e).
Proof. intros s a' s' H E. discriminate E. Qed.
Lemma keeps_bind {A B} (f : src -> res (A * src)) (g : A -> src -> res (B * src)) :
  keeps f -> (forall a, keeps (g a)) -> keeps (fun s => let! (a, s1) := f s in g a s1).
Proof.
  intros Hf Hg s b s' H E. destruct (f s) as [[a s1]| |] eqn:E1; cbn [bind] in E; try discriminate E.
  destruct (Hf _ _ _ H E1) as [H1 S1]. destruct (Hg a _ _ _ H1 E) as [H2 S2].
  split; [exact H2|eapply same_src_trans; eassumption].
Qed.
Lemma keeps_bind0 {A B} (c : res A) (g : A -> src -> res (B * src)) :
  (forall a, keeps (g a)) -> keeps (fun s => let! a := c in g a s).
Proof. intros Hg s b s' H E. destruct c as [a| |]; cbn [bind] in E; try discriminate E. eapply Hg; eassumption. Qed.
Lemma keeps_if {A} (c : bool) (f g : src -> res (A * src)) :
  keeps f -> keeps g -> keeps (fun s => if c then f s else g s).
Proof. destruct c; auto. Qed.
Lemma keeps_ext {A} (f g : src -> res (A * src)) : (forall s, f s = g s) -> keeps g -> keeps f.
Proof. intros E H s a s' Hs Ef. rewrite E in Ef. eapply H; eassumption. Qed.

Lemma skipn_skipn_N (l : bits) a b :
  skipn (N.to_nat b) (skipn (N.to_nat a) l) = skipn (N.to_nat (a + b)) l.
Proof. rewrite skipn_skipn'. f_equal. lia. Qed.

Lemma keeps_r_bit : keeps r_bit.
Proof.
  intros s b s' (R & P & L) E. unfold r_bit in E.
  destruct (N.ltb_spec (s_pos s) (s_len s)) as [Lt|Lt]; [|discriminate E].
  destruct (s_rest s) as [|b0 rest] eqn:Er; [discriminate E|]. injection E as _ <-.
  split; [|repeat split]. unfold src_inv, src_adv. cbn [s_rest s_pos s_all s_len].
  split; [|split; [lia|exact L]].
  rewrite <- (skipn_skipn_N (s_all s) (s_pos s) 1), <- R. reflexivity.
Qed.

Lemma keeps_r_bits_into d o n : keeps (fun s => r_bits_into s d o n).
Proof.
  intros s b s' (R & P & L) E. unfold r_bits_into in E.
  destruct (N.ltb_spec (s_len s - s_pos s) n) as [Lt|Lt]; [discriminate E|].
  repeat (destruct (_ <? _); [discriminate E|]). injection E as _ <-.
  split; [|repeat split]. unfold src_inv, src_adv. cbn [s_rest s_pos s_all s_len].
  split; [|split; [lia|exact L]].
  rewrite <- (skipn_skipn_N (s_all s) (s_pos s) n), <- R. reflexivity.
Qed.
Lemma keeps_r_bits n : keeps (fun s => r_bits s n).
Proof. apply keeps_r_bits_into. Qed.

Lemma src_set_pos_inv s p : src_inv s -> src_inv (src_set_pos s p) /\ same_src s (src_set_pos s p).
Proof.
  intros (R & P & L). split; [|repeat split]. unfold src_inv, src_set_pos. cbn [s_rest s_pos s_all s_len].
  split; [reflexivity|split; [lia|exact L]].
Qed.

Ltac keeps_tac :=
  repeat first
    [ apply keeps_r_bit | apply keeps_r_bits_into | apply keeps_r_bits | apply keeps_ret | apply keeps_err
    | apply keeps_if
    | apply keeps_bind0; intros ?
    | apply keeps_bind; [|intros ?] ].

Lemma keeps_len_unc : keeps r_length_determinant_unc.
Proof.
  unfold r_length_determinant_unc.
  apply keeps_bind; [apply keeps_r_bit|intros b1].
  apply keeps_if.
  - apply (keeps_bind (fun s => r_bits_into s 64 57 7)); [apply keeps_r_bits_into|intros bs; apply keeps_ret].
  - apply keeps_bind; [apply keeps_r_bit|intros b2]. apply keeps_if.
    + apply (keeps_bind (fun s => r_bits_into s 64 50 14)); [apply keeps_r_bits_into|intros bs; apply keeps_ret].
    + apply (keeps_bind (fun s => r_bits_into s 8 2 6)); [apply keeps_r_bits_into|intros bs; apply keeps_ret].
Qed.

Lemma keeps_nnbi m lb ub : keeps (r_nnbi m lb ub).
Proof.
  assert (B : keeps (fun s =>
      let lower := opt_or lb 0 in let upper := opt_or ub I64_MAX in
      let range := upper - lower in
      let offset_bits := lz64 range in
      let! (bs, s) := r_bits_into s 64 offset_bits (64 - offset_bits) in
      let! v := uadd m lower (val_of_bits bs) in
      Ok (v, s))).
  { cbv zeta.
    apply (keeps_bind (fun s => r_bits_into s 64 _ _)); [apply keeps_r_bits_into|intros bs].
    apply keeps_bind0. intros v. apply keeps_ret. }
  destruct lb, ub; try exact B.
  cbn [r_nnbi]. apply keeps_bind; [apply keeps_len_unc|intros l]. apply keeps_if; [|apply keeps_err].
  apply (keeps_bind (fun s => r_bits s _)); [apply keeps_r_bits|intros bs; apply keeps_ret].
Qed.

Lemma keeps_length m lb ub : keeps (r_length_determinant m lb ub).
Proof.
  unfold r_length_determinant. apply keeps_if; [apply keeps_if|apply keeps_if].
  - apply keeps_ret.
  - apply keeps_bind; [apply keeps_nnbi|intros v]. apply keeps_bind0. intros r. apply keeps_ret.
  - apply keeps_nnbi.
  - apply keeps_len_unc.
Qed.

Lemma keeps_twos k : keeps (r_2s_compliment k).
Proof.
  unfold r_2s_compliment. apply keeps_if; [apply keeps_err|].
  apply (keeps_bind (fun s => r_bits_into s 64 _ _)); [apply keeps_r_bits_into|intros bs; apply keeps_ret].
Qed.

Lemma keeps_constrained m lb ub : keeps (r_constrained m lb ub).
Proof.
  unfold r_constrained. apply keeps_if; [|apply keeps_ret].
  apply keeps_bind; [apply keeps_nnbi|intros n; apply keeps_ret].
Qed.

Lemma keeps_normally_small m : keeps (r_normally_small m).
Proof.
  unfold r_normally_small. apply keeps_bind; [apply keeps_r_bit|intros big].
  apply keeps_if; apply keeps_nnbi.
Qed.

Lemma keeps_unconstrained m : keeps (r_unconstrained m).
Proof.
  unfold r_unconstrained. apply keeps_bind; [apply keeps_length|intros l]. apply keeps_twos.
Qed.

Lemma keeps_index m std ext : keeps (r_enumeration_index m std ext).
Proof.
  unfold r_enumeration_index.
  assert (Small : keeps (fun s => if std =? 0 then Err E_INVALID_CHOICE else r_nnbi m None (Some (std - 1)) s)).
  { apply keeps_if; [apply keeps_err|apply keeps_nnbi]. }
  apply keeps_if; [|exact Small].
  apply keeps_bind; [apply keeps_r_bit|intros e]. apply keeps_if; [|exact Small].
  apply keeps_bind; [apply keeps_normally_small|intros n]. apply keeps_if; [apply keeps_ret|apply keeps_err].
Qed.

Lemma keeps_octet_loop m : forall fuel acc, keeps (fun s => r_octet_frag_loop fuel m s acc).
Proof.
  induction fuel as [|f IH]; intros acc; cbn [r_octet_frag_loop].
  - intros s a s' _ E. discriminate E.
  - apply keeps_bind; [apply keeps_length|intros ext]. apply keeps_bind0. intros u.
    apply (keeps_bind (fun s => r_bits s _)); [apply keeps_r_bits|intros bs].
    apply keeps_if; [apply keeps_ret|apply IH].
Qed.

Lemma keeps_octet_rbody m n frag : keeps (octet_rbody m n frag).
Proof.
  unfold octet_rbody. apply keeps_bind0. intros u.
  apply (keeps_bind (fun s => r_bits s _)); [apply keeps_r_bits|intros bs].
  destruct (frag && _); [|apply keeps_ret].
  intros s a s' H E. eapply keeps_octet_loop; eassumption.
Qed.

Lemma keeps_octetstring m lb ub ext : keeps (r_octetstring m lb ub ext).
Proof.
  apply (keeps_ext _ _ (r_octetstring_eq m lb ub ext)). cbv zeta.
  assert (Rest : keeps (fun s =>
    if opt_or ub I64_MAX =? 0 then Ok ([], s)
    else if is_some lb && opt_n_eqb lb ub && (opt_or ub I64_MAX <? LENGTH_64K)
         then octet_rbody m (opt_or ub I64_MAX) false s
         else let! (l, s2) := r_length_determinant m lb ub s in
              octet_rbody m l (negb (is_some lb) && negb (is_some ub)) s2)).
  { apply keeps_if; [apply keeps_ret|]. apply keeps_if; [apply keeps_octet_rbody|].
    apply keeps_bind; [apply keeps_length|intros l; apply keeps_octet_rbody]. }
  apply keeps_if; [|exact Rest].
  apply keeps_bind; [apply keeps_r_bit|intros e]. apply keeps_if; [|exact Rest].
  apply keeps_bind; [apply keeps_length|intros l; apply keeps_octet_rbody].
Qed.

(* BIT STRING: only the form without a fragment loop is total (F04-3) *)
Lemma keeps_bit_rbody m n : keeps (bit_rbody m n false).
Proof.
  unfold bit_rbody. cbv zeta. apply keeps_bind0. intros u.
  apply (keeps_bind (fun s => r_bits_into s _ 0 n)); [apply keeps_r_bits_into|intros bs].
  cbn [andb]. apply keeps_ret.
Qed.

Lemma keeps_bitstring m lb u : keeps (r_bitstring m lb (Some u) false).
Proof.
  apply (keeps_ext _ _ (r_bitstring_eq m lb (Some u) false)). cbv zeta.
  apply keeps_if; [apply keeps_bit_rbody|].
  apply keeps_bind; [apply keeps_length|intros l].
  replace (negb (is_some lb) && negb (is_some (Some u))) with false by (destruct lb; reflexivity).
  apply keeps_bit_rbody.
Qed.

(** * L2: outcomes that are Ok in a good state, or Err -- never Panic *)
Definition good {A} (s : src) (x : res (A * rst)) (sc : option scope) : Prop :=
  match x with
  | Ok (_, r') => src_inv (r_src r') /\ same_src s (r_src r') /\ r_scope r' = sc
  | Err _ => True
  | Panic _ => False
  end.

Lemma good_bind {A B} s (x : res (A * rst)) (k : A * rst -> res (B * rst)) sc sc' :
  good s x sc ->
  (forall a r', src_inv (r_src r') -> same_src s (r_src r') -> r_scope r' = sc -> good s (k (a, r')) sc') ->
  good s (bind x k) sc'.
Proof.
  destruct x as [[a r']| |]; cbn [good bind]; [|trivial|trivial].
  intros (H1 & H2 & H3) Hk. apply Hk; assumption.
Qed.

Lemma good_same {A} s s0 (x : res (A * rst)) sc : same_src s0 s -> good s x sc -> good s0 x sc.
Proof.
  intros S. destruct x as [[a r']| |]; cbn [good]; [|trivial|trivial].
  intros (H1 & H2 & H3). split; [exact H1|]. split; [eapply same_src_trans; eassumption|exact H3].
Qed.

Lemma good_get {A} (f : src -> res (A * src)) r s sc :
  keeps f -> (forall s1, np (f s1)) -> src_inv (r_src r) -> same_src s (r_src r) -> r_scope r = sc ->
  good s (r_get r f) sc.
Proof.
  intros Hk Hn Hi Hs <-. unfold r_get. pose proof (Hn (r_src r)) as N1.
  destruct (f (r_src r)) as [[a s1]| |] eqn:E; cbn [bind good]; [|trivial|discriminate N1].
  destruct (Hk _ _ _ Hi E) as [H1 S1]. cbn [r_src r_set_src r_scope].
  split; [exact H1|]. split; [eapply same_src_trans; eassumption|reflexivity].
Qed.

Lemma umul_ok m a b : a * b < two64 -> umul m a b = Ok (a * b).
Proof. intros H. unfold umul. destruct (N.ltb_spec (a * b) two64); [reflexivity|lia]. Qed.

Lemma r_len_unc_tot m s1 : np (r_length_determinant m None None s1).
Proof. rewrite r_len_unc_eq. apply r_len_unc_np. Qed.

(* read_whole_sub_slice with an open-type length: the end position cannot overflow *)
Lemma sub_slice_good {A} m r len (f : rst -> res (A * rst)) s sc :
  len <= 65536 -> src_inv (r_src r) -> good s (f r) sc ->
  good s (read_whole_sub_slice m r len f) sc.
Proof.
  intros Hl Hi Hf. unfold read_whole_sub_slice, BYTE_LEN.
  rewrite umul_ok by (unfold two64; lia). cbn [bind].
  destruct Hi as (_ & P & L). rewrite uadd_ok by (unfold two64, two63 in *; lia). cbn [bind].
  destruct (f r) as [[a r']| |]; cbn [bind good] in *; [|trivial|contradiction].
  destruct Hf as (H1 & H2 & H3). cbn [r_src r_set_src r_scope].
  destruct (src_set_pos_inv (r_src r') (s_pos (r_src r) + len * 8) H1) as [H4 H5].
  split; [exact H4|]. split; [eapply same_src_trans; eassumption|exact H3].
Qed.

(** the per-type statement for a reader without scope *)
Definition Tp (m : mode) (t : ty) : Prop :=
  forall s, src_inv s -> good s (read_ty m t (r_of_src s)) None.

(* the value of a component / open type read in the state [r1] reached by its entry call *)
Definition content (m : mode) (t : ty) (opn : bool) (r1 : rst) : res (val * rst) :=
  if opn then
    let! (len, r2) := r_get r1 (r_length_determinant m None None) in
    let! (x, r3) := read_whole_sub_slice m (r_set_scope r2 None) len (read_ty m t) in
    Ok (x, r_set_scope r3 (r_scope r1))
  else
    let! (x, r2) := read_ty m t (r_set_scope r1 None) in Ok (x, r_set_scope r2 (r_scope r1)).

Lemma content_good m t opn r1 : Tp m t -> src_inv (r_src r1) ->
  good (r_src r1) (content m t opn r1) (r_scope r1).
Proof.
  intros HT Hi. unfold content. destruct opn.
  - unfold r_get. rewrite r_len_unc_eq. pose proof (r_len_unc_np (r_src r1)) as N1.
    destruct (r_length_determinant_unc (r_src r1)) as [[len s2]| |] eqn:E; cbn [bind good]; [|trivial|discriminate N1].
    destruct (keeps_len_unc _ _ _ Hi E) as [H2 S2]. apply r_len_unc_bound in E. destruct E as [Hl _].
    pose proof (sub_slice_good m (r_set_scope (r_set_src r1 s2) None) len (read_ty m t) s2 None Hl H2 (HT s2 H2)) as G.
    destruct (read_whole_sub_slice m _ len (read_ty m t)) as [[x r3]| |]; cbn [bind good] in *; [|trivial|contradiction].
    destruct G as (G1 & G2 & G3). cbn [r_src r_set_scope r_scope].
    split; [exact G1|]. split; [eapply same_src_trans; eassumption|reflexivity].
  - pose proof (HT (r_src r1) Hi) as G. change (r_of_src (r_src r1)) with (r_set_scope r1 None) in G.
    destruct (read_ty m t (r_set_scope r1 None)) as [[x r2]| |]; cbn [bind good] in *; [|trivial|contradiction].
    destruct G as (G1 & G2 & G3). cbn [r_src r_set_scope r_scope].
    split; [exact G1|]. split; [exact G2|reflexivity].
Qed.

(* SEQUENCE drops the outcome of its own entry call: the factoring of [read_ty_factor] for any outcome *)
Lemma read_seq_factor m fs so fc ea r x r1 :
  read_bit_field_entry_st m r false = Ok (x, r1) ->
  read_ty m (TSeq fs so fc ea) r = content m (TSeq fs so fc ea) (ropen r1) r1.
Proof.
  intros He. unfold content.
  set (f := fun r : rst =>
    let bit_pos := s_pos (r_src r) in
    let! (ext, r) := (match ea with Some _ => r_get r r_bit | None => Ok (false, r) end) in
    let! rem := src_remaining m (r_src r) in
    if rem <? so then Err E_END_OF_STREAM else
    let start := s_pos (r_src r) in
    let! stop := uadd m start so in
    let r := r_set_src r (src_set_pos (r_src r) stop) in
    match ea, ext with
    | Some e, true =>
        let! nx := usub m fc (e + 1) in
        rscope_pushed m r (ExtSeq bit_pos (Some (start, stop)) (e + 1) nx)
          (fun r => let! (v, r) := rfields m fs r [] in
                    let! r := skip_unknown_extension_additions m r in Ok (v, r))
    | _, _ => rscope_pushed m r (OptBitField start stop) (fun r => rfields m fs r [])
    end).
  assert (Hrt : forall r' x' r1', read_bit_field_entry_st m r' false = Ok (x', r1') ->
            read_ty m (TSeq fs so fc ea) r' = rwith_buffer m r1' f).
  { intros r' x' r1' He'. rewrite read_ty_seq_eq, He'. reflexivity. }
  assert (Hf : rscope_nat f).
  { intros [s sc]. unfold f. cbn [r_set_scope r_src r_scope].
    destruct ea as [e|]; unfold r_get; cbn [r_src r_set_src r_set_scope bind].
    + destruct (r_bit s) as [[b s']| |]; cbn [bind r_src r_set_src r_set_scope r_scope]; try reflexivity.
      destruct (src_remaining m s') as [rem| |]; cbn [bind]; try reflexivity.
      destruct (rem <? so); try reflexivity.
      destruct (uadd m (s_pos s') so) as [stop| |]; cbn [bind]; try reflexivity.
      destruct b.
      * destruct (usub m fc (e + 1)) as [nx| |]; cbn [bind]; try reflexivity. apply rsn_pushed_at.
      * apply rsn_pushed_at.
    + destruct (src_remaining m s) as [rem| |]; cbn [bind]; try reflexivity.
      destruct (rem <? so); try reflexivity.
      destruct (uadd m (s_pos s) so) as [stop| |]; cbn [bind]; try reflexivity.
      apply rsn_pushed_at. }
  assert (Hn : forall r', r_scope r' = None -> read_ty m (TSeq fs so fc ea) r' = f r').
  { intros r' Hr'. rewrite (Hrt r' _ r') by (apply rentry_none; exact Hr').
    apply rwith_buffer_none. exact Hr'. }
  rewrite (Hrt _ _ _ He), (rwith_buffer_factor m r1 f Hf).
  destruct (ropen r1).
  - destruct (r_get r1 _) as [[len r2]| |]; cbn [bind]; try reflexivity;
      try (unfold read_whole_sub_slice; rewrite (Hn (r_set_scope r2 None)) by reflexivity; reflexivity).
  - rewrite (Hn (r_set_scope r1 None)) by reflexivity. reflexivity.
Qed.

(* any type read in a scope: after its entry call (whatever its outcome) the scope is the one left by that call *)
Lemma Tfull m t r x r1 : Tp m t ->
  read_bit_field_entry_st m r false = Ok (x, r1) -> src_inv (r_src r1) ->
  good (r_src r1) (read_ty m t r) (r_scope r1).
Proof.
  intros HT He Hi. destruct x as [ob|e].
  - rewrite (read_ty_factor m t r ob r1 He). apply (content_good m t _ r1 HT Hi).
  - destruct t as [| |k lo hi ext|c lo hi ext|lo hi ext|lo hi ext|el lo hi ext|fs so fc ea|alts std ext|vc std ext];
      try destruct c;
      try (cbn [read_ty]; unfold read_bit_field_entry; rewrite He; cbn [bind good]; exact I).
    rewrite (read_seq_factor m fs so fc ea r _ r1 He). apply (content_good m _ _ r1 HT Hi).
Qed.

Lemma good_ok {A} s (a : A) r' sc :
  src_inv (r_src r') -> same_src s (r_src r') -> r_scope r' = sc -> good s (Ok (a, r')) sc.
Proof. intros H1 H2 H3. cbn [good]. auto. Qed.

(** * scopes: the invariant of a field walk *)
(* [e]: the walk runs in the extension form (ExtSeq / AllBitField / ExtSeqEmpty) or in the root form
   (OptBitField); [n]: components still to come; [k]: OPTIONAL/DEFAULT components still to come *)
Definition winv (e : bool) (sc : scope) (n k : N) : Prop :=
  match sc with
  | OptBitField a b => e = false /\ a <= b /\ b <= a + k
  | AllBitField _ _ => e = true
  | ExtSeqEmpty => e = true
  | ExtSeq _ opt calls _ => e = true /\ opt <> None /\ calls <= n
  end.

Lemma r_bit_at_np s p : np (r_bit_at s p).
Proof. unfold r_bit_at. apply np_bind'; [apply r_bit_np|intros [b s1]; reflexivity]. Qed.

Lemma bit_at_ok r p : exists x, bit_at r p = Ok x.
Proof.
  unfold bit_at. pose proof (r_bit_at_np (r_src r) p) as N1.
  destruct (r_bit_at (r_src r) p); [eexists; reflexivity|eexists; reflexivity|discriminate N1].
Qed.

Lemma r_bit_keeps s b s1 : src_inv s -> r_bit s = Ok (b, s1) -> src_inv s1 /\ s_len s1 = s_len s.
Proof. intros H E. destruct (keeps_r_bit _ _ _ H E) as [H1 (_ & _ & L)]. split; assumption. Qed.

Lemma pos_failed_len_le s : src_inv s -> pos_after_failed_len_unc s <= s_len s.
Proof.
  intros H. unfold pos_after_failed_len_unc. pose proof H as (_ & P & _).
  destruct (r_bit s) as [[b1 s1]| |] eqn:E1; try exact P.
  destruct (r_bit_keeps _ _ _ H E1) as [H1 L1]. pose proof H1 as (_ & P1 & _).
  destruct (negb b1); [lia|].
  destruct (r_bit s1) as [[b2 s2]| |] eqn:E2; try lia.
  destruct (r_bit_keeps _ _ _ H1 E2) as [H2 L2]. pose proof H2 as (_ & P2 & _). lia.
Qed.

Lemma pos_failed_small_le m s : src_inv s -> pos_after_failed_normally_small m s <= s_len s.
Proof.
  intros H. unfold pos_after_failed_normally_small. pose proof H as (_ & P & _).
  destruct (r_bit s) as [[big s1]| |] eqn:E1; try exact P.
  destruct (r_bit_keeps _ _ _ H E1) as [H1 L1]. pose proof H1 as (_ & P1 & _).
  destruct big; [|lia].
  destruct (r_length_determinant_unc s1) as [[l s2]| |] eqn:E2.
  - destruct (keeps_len_unc _ _ _ H1 E2) as [H2 (_ & _ & L2)]. pose proof H2 as (_ & P2 & _). lia.
  - pose proof (pos_failed_len_le s1 H1). lia.
  - pose proof (pos_failed_len_le s1 H1). lia.
Qed.

Lemma src_adv_to_inv s p : src_inv s -> p <= s_len s ->
  let s' := src_adv s (p - s_pos s) (skipn (N.to_nat (p - s_pos s)) (s_rest s)) in
  src_inv s' /\ same_src s s'.
Proof.
  intros (R & P & L) Hp. cbv zeta. split; [|repeat split].
  unfold src_inv, src_adv. cbn [s_rest s_pos s_all s_len]. split; [|split; [lia|exact L]].
  rewrite R. apply skipn_skipn_N.
Qed.

(* outcome of an entry call: a state, never a panic; an OPTIONAL entry never answers None *)
Definition entry_post (e : bool) (n k : N) (o : bool) (s : src) (y : res (fres * rst)) : Prop :=
  match y with
  | Ok (x, r1) => src_inv (r_src r1) /\ same_src s (r_src r1) /\
                  (exists sc1, r_scope r1 = Some sc1 /\ winv e sc1 n k) /\ (o = true -> x <> inl None)
  | _ => False
  end.

Lemma fres_bit_not_none (x : bool + N) :
  match x with inl bit => f_ok (Some bit) | inr e => f_err e end <> f_ok None.
Proof. destruct x; discriminate. Qed.

Lemma simple_all_post r a b o s n k :
  src_inv (r_src r) -> same_src s (r_src r) -> r_scope r = Some (AllBitField a b) ->
  entry_post true n k o s (read_from_field_simple r (AllBitField a b) o).
Proof.
  intros Hi Hs Hsc. cbn [read_from_field_simple]. destruct (a <? b).
  - destruct (bit_at_ok r a) as [x ->]. cbn [bind entry_post r_src r_set_scope r_scope].
    split; [exact Hi|]. split; [exact Hs|]. split.
    + eexists. split; [reflexivity|reflexivity].
    + intros _. apply fres_bit_not_none.
  - cbn [entry_post]. split; [exact Hi|]. split; [exact Hs|]. split.
    + eexists. split; [exact Hsc|reflexivity].
    + intros _. discriminate.
Qed.

Lemma entry_good m r sc (o e : bool) n k :
  src_inv (r_src r) -> r_scope r = Some sc -> winv e sc (n + 1) (k + (if o then 1 else 0)) ->
  entry_post e n k o (r_src r) (read_bit_field_entry_st m r o).
Proof.
  intros Hi Hsc Hw. unfold read_bit_field_entry_st. rewrite Hsc.
  destruct sc as [a b|a b|bp opt calls nx|]; cbn [winv] in Hw.
  - (* OptBitField *)
    destruct Hw as (-> & L1 & L2). cbn [read_from_field read_from_field_simple].
    destruct (N.leb_spec b a) as [L|L].
    + cbn [entry_post]. split; [exact Hi|]. split; [apply same_src_refl|]. split.
      * exists (OptBitField a b). split; [exact Hsc|]. cbn [winv]. repeat split; lia.
      * intros _. discriminate.
    + destruct o.
      * destruct (bit_at_ok r a) as [x ->]. cbn [bind entry_post r_src r_set_scope r_scope].
        split; [exact Hi|]. split; [apply same_src_refl|]. split.
        -- eexists. split; [reflexivity|]. cbn [winv]. repeat split; lia.
        -- intros _. apply fres_bit_not_none.
      * cbn [entry_post]. split; [exact Hi|]. split; [apply same_src_refl|]. split.
        -- exists (OptBitField a b). split; [exact Hsc|]. cbn [winv]. repeat split; lia.
        -- discriminate.
  - (* AllBitField *)
    subst e. cbn [read_from_field]. apply simple_all_post; [exact Hi|apply same_src_refl|exact Hsc].
  - (* ExtSeq *)
    destruct Hw as (-> & Ho & Lc). cbn [read_from_field]. destruct (N.eqb_spec calls 0) as [->|Hc].
    + destruct (bit_at_ok r bp) as [x ->]. cbn [bind]. destruct x as [ext|er].
      * destruct ext.
        -- pose proof (r_normally_small_np m (r_src r)) as N1.
           destruct (r_normally_small m (r_src r)) as [[nn s1]| |] eqn:E; [| |discriminate N1].
           ++ destruct (keeps_normally_small m _ _ _ Hi E) as [H1 S1]. cbv zeta. cbn [r_src r_set_src].
              match goal with |- context [src_set_pos s1 ?st] =>
                destruct (src_set_pos_inv s1 st H1) as [H2 S2] end.
              apply simple_all_post; cbn [r_src r_set_src r_set_scope r_scope].
              ** exact H2.
              ** eapply same_src_trans; eassumption.
              ** reflexivity.
           ++ destruct (src_adv_to_inv (r_src r) (pos_after_failed_normally_small m (r_src r)) Hi
                          (pos_failed_small_le m _ Hi)) as [H1 S1].
              cbn [entry_post r_src r_set_src r_scope]. split; [exact H1|]. split; [exact S1|]. split.
              ** eexists. split; [exact Hsc|]. cbn [winv]. repeat split; [exact Ho|lia].
              ** intros _. discriminate.
        -- cbn [read_from_field_simple entry_post r_src r_set_scope r_scope].
           split; [exact Hi|]. split; [apply same_src_refl|]. split.
           ++ eexists. split; [reflexivity|reflexivity].
           ++ intros _. discriminate.
      * cbn [entry_post]. split; [exact Hi|]. split; [apply same_src_refl|]. split.
        -- eexists. split; [exact Hsc|]. cbn [winv]. repeat split; [exact Ho|lia].
        -- intros _. discriminate.
    + destruct opt as [[a b]|]; [|exfalso; apply Ho; reflexivity]. destruct o.
      * destruct (bit_at_ok r a) as [x ->]. cbn [bind entry_post r_src r_set_scope r_scope].
        split; [exact Hi|]. split; [apply same_src_refl|]. split.
        -- eexists. split; [reflexivity|]. cbn [winv]. repeat split; [discriminate|lia].
        -- intros _. apply fres_bit_not_none.
      * cbn [entry_post r_src r_set_scope r_scope]. split; [exact Hi|]. split; [apply same_src_refl|]. split.
        -- eexists. split; [reflexivity|]. cbn [winv]. repeat split; [discriminate|lia].
        -- discriminate.
  - (* ExtSeqEmpty *)
    subst e. cbn [read_from_field read_from_field_simple entry_post].
    split; [exact Hi|]. split; [apply same_src_refl|]. split.
    + eexists. split; [exact Hsc|reflexivity].
    + intros _. discriminate.
Qed.

(** * components *)
Definition walk_post {A} (e : bool) (n k : N) (s : src) (y : res (A * rst)) : Prop :=
  match y with
  | Ok (_, r') => src_inv (r_src r') /\ same_src s (r_src r') /\
                  exists sc', r_scope r' = Some sc' /\ winv e sc' n k
  | Err _ => True
  | Panic _ => False
  end.

(* read_opt / read_default *)
Definition ropt (m : mode) (ft : ty) (dflt : option val) (r : rst) : res (option val * rst) :=
  let! (ob, r) := read_bit_field_entry m r true in
  match ob with
  | None => Panic P_UNWRAP
  | Some true =>
      let! (x, r) := rwith_buffer m r (fun r => rscope_stashed r (fun r => read_ty m ft r)) in Ok (Some x, r)
  | Some false => Ok (dflt, r)
  end.

Lemma ropt_good m ft dflt r sc e n k : Tp m ft -> src_inv (r_src r) -> r_scope r = Some sc ->
  winv e sc (n + 1) (k + 1) -> walk_post e n k (r_src r) (ropt m ft dflt r).
Proof.
  intros HT Hi Hsc Hw.
  pose proof (entry_good m r sc true e n k Hi Hsc Hw) as He.
  unfold ropt, read_bit_field_entry.
  destruct (read_bit_field_entry_st m r true) as [[x r1]| |]; cbn [entry_post] in He; try contradiction.
  destruct He as (H1 & S1 & (sc1 & Hsc1 & Hw1) & Hx). cbn [bind].
  destruct x as [[[|]|]|er]; cbn [bind walk_post].
  - pose proof (content_good m ft (ropen r1) r1 HT H1) as G. unfold content in G. rewrite <- stashed_read in G.
    destruct (rwith_buffer m r1 _) as [[y r2]| |]; cbn [bind good walk_post] in *; [|trivial|contradiction].
    destruct G as (G1 & G2 & G3). split; [exact G1|]. split; [eapply same_src_trans; eassumption|].
    exists sc1. split; [congruence|exact Hw1].
  - split; [exact H1|]. split; [exact S1|]. exists sc1. split; assumption.
  - apply (Hx eq_refl). reflexivity.
  - exact I.
Qed.

Lemma rfield_good m f r sc e n k : Tp m (snd f) -> src_inv (r_src r) -> r_scope r = Some sc ->
  winv e sc (n + 1) (k + (if is_optk (fst f) then 1 else 0)) ->
  walk_post e n k (r_src r) (rfield m f r).
Proof.
  intros HT Hi Hsc Hw. destruct f as [[| |d] ft]; cbn [fst snd is_optk] in *.
  - pose proof (entry_good m r sc false e n k Hi Hsc Hw) as He. cbn [rfield].
    destruct (read_bit_field_entry_st m r false) as [[x r1]| |] eqn:Ee; cbn [entry_post] in He; try contradiction.
    destruct He as (H1 & S1 & (sc1 & Hsc1 & Hw1) & _).
    pose proof (Tfull m ft r x r1 HT Ee H1) as G.
    destruct (read_ty m ft r) as [[v r2]| |]; cbn [bind good walk_post] in *; [|trivial|contradiction].
    destruct G as (G1 & G2 & G3). split; [exact G1|]. split; [eapply same_src_trans; eassumption|].
    exists sc1. split; [congruence|exact Hw1].
  - apply (ropt_good m ft None r sc e n k HT Hi Hsc Hw).
  - apply (ropt_good m ft (Some d) r sc e n k HT Hi Hsc Hw).
Qed.

Lemma nopt_cons f fs :
  N.of_nat (nopt (f :: fs)) = N.of_nat (nopt fs) + (if is_optk (fst f) then 1 else 0).
Proof. unfold nopt. cbn [filter]. destruct (is_optk (fst f)); cbn [length]; lia. Qed.

Lemma rwalk_good m e : forall fs, Forall (fun f => Tp m (snd f)) fs -> forall r acc sc,
  src_inv (r_src r) -> r_scope r = Some sc -> winv e sc (N.of_nat (length fs)) (N.of_nat (nopt fs)) ->
  walk_post e 0 0 (r_src r) (rwalk m fs r acc).
Proof.
  induction fs as [|f fs IH]; intros F r acc sc Hi Hsc Hw; cbn [rwalk].
  - cbn [walk_post]. split; [exact Hi|]. split; [apply same_src_refl|]. exists sc. split; [exact Hsc|exact Hw].
  - apply Forall_cons_iff in F. destruct F as [Hf F].
    rewrite nopt_cons in Hw.
    replace (N.of_nat (length (f :: fs))) with (N.of_nat (length fs) + 1) in Hw by (cbn [length]; lia).
    pose proof (rfield_good m f r sc e _ _ Hf Hi Hsc Hw) as G.
    destruct (rfield m f r) as [[ov r1]| |]; cbn [bind walk_post] in *; [|trivial|contradiction].
    destruct G as (H1 & S1 & sc1 & Hsc1 & Hw1).
    pose proof (IH F r1 (ov :: acc) sc1 H1 Hsc1 Hw1) as G2.
    destruct (rwalk m fs r1 (ov :: acc)) as [[acc' r2]| |]; cbn [walk_post] in *; [|trivial|contradiction].
    destruct G2 as (H2 & S2 & R2). split; [exact H2|]. split; [eapply same_src_trans; eassumption|exact R2].
Qed.

(** * skipping unknown extension additions *)
Lemma skip_loop_good m : forall fuel r p stop, src_inv (r_src r) ->
  match skip_unknown_loop fuel m r p stop with
  | Ok r' => src_inv (r_src r') /\ same_src (r_src r) (r_src r') /\ r_scope r' = r_scope r
  | Err _ => True
  | Panic _ => False
  end.
Proof.
  induction fuel as [|f IH]; intros r p stop Hi; cbn [skip_unknown_loop].
  - split; [exact Hi|]. split; [apply same_src_refl|reflexivity].
  - destruct (stop <=? p); [split; [exact Hi|]; split; [apply same_src_refl|reflexivity]|].
    pose proof (r_bit_at_np (r_src r) p) as N1.
    destruct (r_bit_at (r_src r) p) as [bit| |]; cbn [bind]; [|exact I|discriminate N1].
    destruct bit; [|apply IH; exact Hi].
    unfold r_get. rewrite r_len_unc_eq. pose proof (r_len_unc_np (r_src r)) as N2.
    destruct (r_length_determinant_unc (r_src r)) as [[len s1]| |] eqn:E; cbn [bind]; [|exact I|discriminate N2].
    destruct (keeps_len_unc _ _ _ Hi E) as [H1 S1]. apply r_len_unc_bound in E. destruct E as [Hl _].
    unfold BYTE_LEN. rewrite umul_ok by (unfold two64; lia). cbn [bind r_src r_set_src].
    pose proof H1 as (_ & P1 & L1). rewrite uadd_ok by (unfold two64, two63 in *; lia). cbn [bind]. cbv zeta.
    destruct (src_set_pos_inv s1 (s_pos s1 + len * 8) H1) as [H2 S2].
    destruct (_ =? _); [|exact I].
    pose proof (IH (r_set_src (r_set_src r s1) (src_set_pos s1 (s_pos s1 + len * 8))) (p + 1) stop H2) as G.
    destruct (skip_unknown_loop f m _ (p + 1) stop) as [r'| |]; [|exact I|contradiction].
    destruct G as (G1 & G2 & G3). cbn [r_src r_set_src r_scope] in *. split; [exact G1|]. split; [|exact G3].
    exact (same_src_trans _ _ _ S1 (same_src_trans _ _ _ S2 G2)).
Qed.

Lemma skip_good m r sc : src_inv (r_src r) -> r_scope r = Some sc -> winv true sc 0 0 ->
  match skip_unknown_extension_additions m r with
  | Ok r' => src_inv (r_src r') /\ same_src (r_src r) (r_src r') /\
             exists sc', r_scope r' = Some sc' /\ scope_exhausted sc' = true
  | Err _ => True
  | Panic _ => False
  end.
Proof.
  intros Hi Hsc Hw. unfold skip_unknown_extension_additions. rewrite Hsc.
  destruct sc as [a b|a b|bp opt calls nx|]; cbn [winv] in Hw.
  - destruct Hw as [Hw _]. discriminate Hw.
  - cbv beta iota zeta.
    match goal with |- context [skip_unknown_loop ?f m ?r0 ?p ?st] =>
      pose proof (skip_loop_good m f r0 p st Hi) as G; destruct (skip_unknown_loop f m r0 p st) as [r'| |] end;
      [|exact I|contradiction].
    destruct G as (G1 & G2 & G3). cbn [r_src r_set_scope r_scope] in *. split; [exact G1|]. split; [exact G2|].
    eexists. split; [exact G3|]. cbn [scope_exhausted]. apply N.eqb_refl.
  - destruct Hw as (_ & _ & Lc). assert (calls = 0) by lia. subst calls. cbv beta iota.
    unfold r_get. pose proof (r_normally_small_np m (r_src r)) as N1.
    destruct (r_normally_small m (r_src r)) as [[n s1]| |] eqn:E; cbn [bind]; [|exact I|discriminate N1].
    destruct (keeps_normally_small m _ _ _ Hi E) as [H1 S1]. cbv zeta. cbn [r_src r_set_src].
    match goal with |- context [src_set_pos s1 ?st] => destruct (src_set_pos_inv s1 st H1) as [H2 S2] end.
    match goal with |- context [skip_unknown_loop ?f m ?r0 ?p ?st] =>
      pose proof (skip_loop_good m f r0 p st H2) as G; destruct (skip_unknown_loop f m r0 p st) as [r'| |] end;
      [|exact I|contradiction].
    destruct G as (G1 & G2 & G3). cbn [r_src r_set_src r_set_scope r_scope] in *. split; [exact G1|]. split.
    + exact (same_src_trans _ _ _ S1 (same_src_trans _ _ _ S2 G2)).
    + eexists. split; [exact G3|]. cbn [scope_exhausted]. apply N.eqb_refl.
  - split; [exact Hi|]. split; [apply same_src_refl|]. exists ExtSeqEmpty. split; [exact Hsc|reflexivity].
Qed.

(** * scope_pushed: the debug assertion holds *)
Lemma pushed_good {A} m r sc (f : rst -> res (A * rst)) s sc0 : r_scope r = sc0 ->
  match f (r_set_scope r (Some sc)) with
  | Ok (_, r') => src_inv (r_src r') /\ same_src s (r_src r') /\
                  exists sc', r_scope r' = Some sc' /\ scope_exhausted sc' = true
  | Err _ => True
  | Panic _ => False
  end ->
  good s (rscope_pushed m r sc f) sc0.
Proof.
  intros <-. unfold rscope_pushed. destruct (f _) as [[a r']| |]; cbn [bind good]; [|trivial|trivial].
  intros (H1 & H2 & sc' & Hs & Hx). rewrite Hs, Hx. cbn [negb]. rewrite andb_false_r.
  apply good_ok; [exact H1|exact H2|reflexivity].
Qed.

Lemma exhausted_of_winv e sc : winv e sc 0 0 -> e = false -> scope_exhausted sc = true.
Proof.
  destruct sc as [a b|a b|bp opt calls nx|]; cbn [winv scope_exhausted]; intros H E; rewrite E in H.
  - destruct H as (_ & L1 & L2). apply N.eqb_eq. lia.
  - discriminate H.
  - destruct H as [H _]. discriminate H.
  - discriminate H.
Qed.

Lemma seq_root_good m fs r start stop s sc0 : Forall (fun f => Tp m (snd f)) fs ->
  r_scope r = sc0 -> src_inv (r_src r) -> same_src s (r_src r) ->
  start <= stop -> stop <= start + N.of_nat (nopt fs) ->
  good s (rscope_pushed m r (OptBitField start stop) (fun r => rfields m fs r [])) sc0.
Proof.
  intros F Hsc Hi Hs L1 L2. apply pushed_good; [exact Hsc|]. rewrite rfields_rwalk.
  pose proof (rwalk_good m false fs F (r_set_scope r (Some (OptBitField start stop))) [] _ Hi eq_refl) as G.
  cbn [r_src r_set_scope] in G. specialize (G ltac:(cbn [winv]; auto)).
  destruct (rwalk m fs _ []) as [[acc' r']| |]; cbn [bind walk_post] in *; [|trivial|contradiction].
  destruct G as (G1 & G2 & sc' & G3 & G4). split; [exact G1|]. split; [eapply same_src_trans; eassumption|].
  exists sc'. split; [exact G3|]. apply (exhausted_of_winv false sc' G4 eq_refl).
Qed.

Lemma seq_ext_good m fs r bp start stop calls nx s sc0 : Forall (fun f => Tp m (snd f)) fs ->
  r_scope r = sc0 -> src_inv (r_src r) -> same_src s (r_src r) ->
  calls <= N.of_nat (length fs) ->
  good s (rscope_pushed m r (ExtSeq bp (Some (start, stop)) calls nx)
            (fun r => let! (v, r) := rfields m fs r [] in
                      let! r := skip_unknown_extension_additions m r in Ok (v, r))) sc0.
Proof.
  intros F Hsc Hi Hs Lc. apply pushed_good; [exact Hsc|]. rewrite rfields_rwalk.
  pose proof (rwalk_good m true fs F (r_set_scope r (Some (ExtSeq bp (Some (start, stop)) calls nx))) [] _ Hi eq_refl) as G.
  cbn [r_src r_set_scope] in G. specialize (G ltac:(cbn [winv]; repeat split; [discriminate|exact Lc])).
  destruct (rwalk m fs _ []) as [[acc' r']| |]; cbn [bind walk_post] in *; [|trivial|contradiction].
  destruct G as (G1 & G2 & sc' & G3 & G4).
  pose proof (skip_good m r' sc' G1 G3 G4) as K.
  destruct (skip_unknown_extension_additions m r') as [r''| |]; cbn [bind]; [|trivial|contradiction].
  destruct K as (K1 & K2 & K3). split; [exact K1|]. split; [|exact K3].
  eapply same_src_trans; [exact Hs|]. eapply same_src_trans; eassumption.
Qed.

Lemma nopt_firstn_le n : forall fs, (nopt (firstn n fs) <= nopt fs)%nat.
Proof.
  unfold nopt. induction n as [|n IH]; intros [|f fs]; cbn [firstn filter length]; try lia.
  specialize (IH fs). destruct (is_optk (fst f)); cbn [length]; lia.
Qed.

Lemma T_seq m fs so fc ea : seq_consts_ok fs so fc ea ->
  Forall (fun f => Tp m (snd f)) fs -> Tp m (TSeq fs so fc ea).
Proof.
  intros (Hfc & Hlim & Hea & Hso) F s Hi.
  rewrite read_ty_seq_eq, rentry_none by reflexivity. cbn [bind]. rewrite rwith_buffer_none by reflexivity. cbv zeta.
  pose proof (nopt_firstn_le (root_len fs ea) fs) as Hno.
  assert (Hdr : forall s1, src_inv s1 ->
            src_remaining m s1 = Ok (s_len s1 - s_pos s1) /\
            (so <= s_len s1 - s_pos s1 -> uadd m (s_pos s1) so = Ok (s_pos s1 + so))).
  { intros s1 (_ & P1 & L1). split; [apply usub_ok; exact P1|].
    intros Hle. apply uadd_ok. unfold two64, two63 in *. lia. }
  destruct ea as [e|].
  - unfold r_get. pose proof (r_bit_np s) as N1. cbn [r_src r_of_src].
    destruct (r_bit s) as [[ext s1]| |] eqn:E; cbn [bind]; [|exact I|discriminate N1].
    destruct (keeps_r_bit _ _ _ Hi E) as [H1 S1]. cbn [r_src r_set_src].
    destruct (Hdr s1 H1) as [Q1 Q2]. rewrite Q1. cbn [bind].
    destruct (N.ltb_spec (s_len s1 - s_pos s1) so) as [Lt|Ge]; [exact I|].
    rewrite (Q2 Ge). cbn [bind].
    destruct (src_set_pos_inv s1 (s_pos s1 + so) H1) as [H2 S2].
    destruct ext.
    + rewrite usub_ok by lia. cbn [bind].
      apply seq_ext_good; cbn [r_src r_set_src r_scope r_of_src];
        [exact F|reflexivity|exact H2|exact (same_src_trans _ _ _ S1 S2)|lia].
    + apply seq_root_good; cbn [r_src r_set_src r_scope r_of_src];
        [exact F|reflexivity|exact H2|exact (same_src_trans _ _ _ S1 S2)|lia|cbn [root_len] in *; lia].
  - cbn [bind r_src r_of_src].
    destruct (Hdr s Hi) as [Q1 Q2]. rewrite Q1. cbn [bind].
    destruct (N.ltb_spec (s_len s - s_pos s) so) as [Lt|Ge]; [exact I|].
    rewrite (Q2 Ge). cbn [bind].
    destruct (src_set_pos_inv s (s_pos s + so) Hi) as [H2 S2].
    apply seq_root_good; cbn [r_src r_set_src r_scope r_of_src];
      [exact F|reflexivity|exact H2|exact S2|lia|cbn [root_len] in *; lia].
Qed.

(** * the types without components *)
Ltac enter :=
  cbn [read_ty]; rewrite rentry_none' by reflexivity; cbn [bind]; rewrite ?rwith_buffer_none by reflexivity.

Lemma T_bool m : Tp m TBool.
Proof.
  intros s Hi. enter.
  eapply good_bind; [apply (good_get r_bit); [apply keeps_r_bit|apply r_bit_np|exact Hi|apply same_src_refl|reflexivity]|].
  intros b r' H1 S1 Hsc. cbv beta iota. apply good_ok; assumption.
Qed.

Lemma T_null m : Tp m TNull.
Proof. intros s Hi. enter. apply good_ok; [exact Hi|apply same_src_refl|reflexivity]. Qed.

Lemma T_int m k lo hi ext : Tp m (TInt k lo hi ext).
Proof.
  intros s Hi. enter.
  eapply (good_bind s _ _ None).
  - destruct ext.
    + apply (good_get r_bit); [apply keeps_r_bit|apply r_bit_np|exact Hi|apply same_src_refl|reflexivity].
    + apply good_ok; [exact Hi|apply same_src_refl|reflexivity].
  - intros u r1 H1 S1 Hsc1. cbv beta iota. eapply (good_bind s _ _ None).
    + destruct u.
      * apply good_get; [apply keeps_unconstrained|apply r_unconstrained_np|exact H1|exact S1|exact Hsc1].
      * apply good_get; [apply keeps_constrained|apply r_constrained_np|exact H1|exact S1|exact Hsc1].
    + intros z r2 H2 S2 Hsc2. cbv beta iota. apply good_ok; assumption.
Qed.

Lemma size_facts lo hi : ~ Known_C10_length_semi_or_large_bound lo hi -> size_bounds_ok lo hi ->
  opt_or lo 0 < two64 /\ opt_or lo 0 <= opt_or hi I64_MAX.
Proof.
  unfold Known_C10_length_semi_or_large_bound, size_bounds_ok, I64_MAX, two64, two63.
  destruct lo as [l|], hi as [u|]; cbn [opt_or]; intros Hk Hb; try lia.
  exfalso. apply Hk. discriminate.
Qed.

Lemma from_utf8_np bytes : np (from_utf8 bytes).
Proof. unfold from_utf8. destruct (utf8_decode bytes); reflexivity. Qed.

Lemma good_utf8 s bytes r' : src_inv (r_src r') -> same_src s (r_src r') -> r_scope r' = None ->
  good s (let! v := from_utf8 bytes in Ok (v, r')) None.
Proof.
  intros H1 S1 Hsc. pose proof (from_utf8_np bytes) as N1.
  destruct (from_utf8 bytes) as [v| |]; cbn [bind good]; [auto|exact I|discriminate N1].
Qed.

Lemma T_str_utf8 m lo hi ext : Tp m (TStr Utf8 lo hi ext).
Proof.
  intros s Hi. enter. eapply (good_bind s _ _ None).
  - apply good_get; [apply keeps_octetstring| |exact Hi|apply same_src_refl|reflexivity].
    intros s1. apply r_octetstring_np; [cbn; congruence|cbn [opt_or]; lia].
  - intros bs r1 H1 S1 Hsc1. cbv beta iota. apply good_utf8; assumption.
Qed.

(* a count from the input: small outside F04-1 *)
Lemma len_ext_good m r ext lo hi s :
  ~ Known_C10_length_semi_or_large_bound lo hi -> size_bounds_ok lo hi ->
  src_inv (r_src r) -> same_src s (r_src r) ->
  match read_len_ext m r ext lo hi with
  | Ok (len, r') => len <= 131072 /\ src_inv (r_src r') /\ same_src s (r_src r') /\ r_scope r' = r_scope r
  | Err _ => True
  | Panic _ => False
  end.
Proof.
  intros Hk Hb Hi Hs. destruct (size_facts lo hi Hk Hb) as [F1 F2].
  assert (Unc : forall r0, src_inv (r_src r0) -> same_src s (r_src r0) ->
    match r_get r0 (r_length_determinant m None None) with
    | Ok (len, r') => len <= 131072 /\ src_inv (r_src r') /\ same_src s (r_src r') /\ r_scope r' = r_scope r0
    | Err _ => True | Panic _ => False end).
  { intros r0 H0 S0. unfold r_get. rewrite r_len_unc_eq. pose proof (r_len_unc_np (r_src r0)) as N1.
    destruct (r_length_determinant_unc (r_src r0)) as [[len s1]| |] eqn:E; cbn [bind]; [|exact I|discriminate N1].
    destruct (keeps_len_unc _ _ _ H0 E) as [H1 S1]. apply r_len_unc_bound in E.
    cbn [r_src r_set_src r_scope]. split; [lia|]. split; [exact H1|]. split; [|reflexivity].
    eapply same_src_trans; eassumption. }
  assert (Con : forall r0, src_inv (r_src r0) -> same_src s (r_src r0) ->
    match r_get r0 (r_length_determinant m lo hi) with
    | Ok (len, r') => len <= 131072 /\ src_inv (r_src r') /\ same_src s (r_src r') /\ r_scope r' = r_scope r0
    | Err _ => True | Panic _ => False end).
  { intros r0 H0 S0. unfold r_get. pose proof (r_length_np m lo hi (r_src r0) F1 Hk) as N1.
    destruct (r_length_determinant m lo hi (r_src r0)) as [[len s1]| |] eqn:E; cbn [bind]; [|exact I|discriminate N1].
    destruct (keeps_length m lo hi _ _ _ H0 E) as [H1 S1]. apply (r_length_bound m lo hi _ _ _ Hk F2) in E.
    cbn [r_src r_set_src r_scope]. split; [exact E|]. split; [exact H1|]. split; [|reflexivity].
    eapply same_src_trans; eassumption. }
  unfold read_len_ext. destruct ext; [|apply Con; assumption].
  unfold r_get at 1. pose proof (r_bit_np (r_src r)) as N1.
  destruct (r_bit (r_src r)) as [[e s1]| |] eqn:E; cbn [bind]; [|exact I|discriminate N1].
  destruct (keeps_r_bit _ _ _ Hi E) as [H1 S1].
  assert (S1' : same_src s (r_src (r_set_src r s1))) by (cbn [r_src r_set_src]; eapply same_src_trans; eassumption).
  destruct e; [apply (Unc (r_set_src r s1) H1 S1')|apply (Con (r_set_src r s1) H1 S1')].
Qed.

Lemma read_chars_good w : forall n r acc s, src_inv (r_src r) -> same_src s (r_src r) ->
  match read_chars n w r acc with
  | Ok (_, r') => src_inv (r_src r') /\ same_src s (r_src r') /\ r_scope r' = r_scope r /\
                  rem (r_src r') + N.of_nat n * w = rem (r_src r)
  | Err _ => True
  | Panic _ => False
  end.
Proof.
  induction n as [|n IH]; intros r acc s Hi Hs; cbn [read_chars].
  - split; [exact Hi|]. split; [exact Hs|]. split; [reflexivity|lia].
  - unfold r_get. pose proof (r_bits_into_np (r_src r) 8 (8 - w) w) as N1.
    destruct (r_bits_into (r_src r) 8 (8 - w) w) as [[bs s1]| |] eqn:E; cbn [bind]; [|exact I|discriminate N1].
    destruct (keeps_r_bits_into _ _ _ _ _ _ Hi E) as [H1 S1]. apply r_bits_into_rem in E.
    pose proof (IH (r_set_src r s1) (val_of_bits bs :: acc) s H1 (same_src_trans _ _ _ Hs S1)) as G.
    destruct (read_chars n w (r_set_src r s1) _) as [[cs r']| |]; [|exact I|contradiction].
    destruct G as (G1 & G2 & G3 & G4). cbn [r_src r_set_src r_scope] in *.
    split; [exact G1|]. split; [exact G2|]. split; [exact G3|]. lia.
Qed.

Lemma str_body_good m ext lo hi (w : N) (dcd : list N -> list N) s :
  0 < w -> ~ Known_C10_length_semi_or_large_bound lo hi -> size_bounds_ok lo hi -> src_inv s ->
  good s (let! (len, r) := read_len_ext m (r_of_src s) ext lo hi in
          let! _ := alloc len in
          let rem := s_len (r_src r) - s_pos (r_src r) in
          let iters := N.min len (rem / w + 1) in
          let! (codes, r) := read_chars (N.to_nat iters) w r [] in
          if iters <? len then Panic P_OTHER else
          let! v := from_utf8 (dcd codes) in Ok (v, r)) None.
Proof.
  intros Hw Hk Hb Hi.
  pose proof (len_ext_good m (r_of_src s) ext lo hi s Hk Hb Hi (same_src_refl s)) as G.
  destruct (read_len_ext m (r_of_src s) ext lo hi) as [[len r1]| |]; cbn [bind]; [|exact I|contradiction].
  destruct G as (Hl & H1 & S1 & Hsc1). cbn [r_scope r_of_src] in Hsc1.
  rewrite alloc_ok by (unfold ALLOC_LIMIT; lia). cbn [bind]. cbv zeta.
  set (rm := s_len (r_src r1) - s_pos (r_src r1)).
  pose proof (read_chars_good w (N.to_nat (N.min len (rm / w + 1))) r1 [] s H1 S1) as G.
  destruct (read_chars _ w r1 []) as [[codes r2]| |]; cbn [bind]; [|exact I|contradiction].
  destruct G as (G1 & G2 & G3 & G4). fold rm in G4. unfold rem in G4. fold rm in G4.
  destruct (N.ltb_spec (N.min len (rm / w + 1)) len) as [Lt|Ge].
  - exfalso. rewrite N2Nat.id in G4. replace (N.min len (rm / w + 1)) with (rm / w + 1) in G4 by lia.
    pose proof (N.div_mod rm w ltac:(lia)) as D. pose proof (N.mod_lt rm w ltac:(lia)) as M. nia.
  - apply good_utf8; [exact G1|exact G2|congruence].
Qed.

Lemma T_str m c lo hi ext : ~ Known_C10_length_semi_or_large_bound lo hi -> size_bounds_ok lo hi ->
  c <> Utf8 -> Tp m (TStr c lo hi ext).
Proof.
  intros Hk Hb Hc s Hi. destruct c; [contradiction Hc; reflexivity| | | |]; enter.
  - apply (str_body_good m ext lo hi 7 (fun c => c) s); [lia|assumption..].
  - apply (str_body_good m ext lo hi 4 (map (fun x => if x =? 0 then 32 else 32 + 15 + x)) s); [lia|assumption..].
  - apply (str_body_good m ext lo hi 7 (fun c => c) s); [lia|assumption..].
  - apply (str_body_good m ext lo hi 7 (fun c => c) s); [lia|assumption..].
Qed.

Lemma T_octets m lo hi ext : ~ Known_C10_length_semi_or_large_bound lo hi -> size_bounds_ok lo hi ->
  Tp m (TOctets lo hi ext).
Proof.
  intros Hk Hb s Hi. destruct (size_facts lo hi Hk Hb) as [F1 F2]. enter. eapply (good_bind s _ _ None).
  - apply good_get; [apply keeps_octetstring| |exact Hi|apply same_src_refl|reflexivity].
    intros s1. apply r_octetstring_np; assumption.
  - intros bs r1 H1 S1 Hsc1. cbv beta iota. apply good_ok; assumption.
Qed.

Lemma T_bits m lo u : u < 65536 -> size_bounds_ok lo (Some u) -> Tp m (TBitStr lo (Some u) false).
Proof.
  intros Hu Hb s Hi. enter. eapply (good_bind s _ _ None).
  - apply good_get; [apply keeps_bitstring| |exact Hi|apply same_src_refl|reflexivity].
    intros s1. apply r_bitstring_np; [exact Hu|]. destruct lo; cbn [opt_or size_bounds_ok] in *; lia.
  - intros [[bs bl] buflen] r1 H1 S1 Hsc1. cbv beta iota. apply good_ok; assumption.
Qed.

Lemma T_enum m vc std ext : std < two64 -> Tp m (TEnum vc std ext).
Proof.
  intros Hs s Hi. enter. eapply (good_bind s _ _ None).
  - apply good_get; [apply keeps_index|intros s1; apply r_index_np; exact Hs|exact Hi|apply same_src_refl|reflexivity].
  - intros index r1 H1 S1 Hsc1. cbv beta iota. destruct (index <? vc); [apply good_ok; assumption|exact I].
Qed.

(** * SEQUENCE OF *)
Lemma r_of_src_eta r : r_scope r = None -> r = r_of_src (r_src r).
Proof. destruct r as [s sc]. cbn [r_scope r_src]. intros ->. reflexivity. Qed.

Lemma relems_good m e : Tp m e -> forall n s acc, src_inv s ->
  good s (relems m e false n (r_of_src s) acc) None.
Proof.
  intros HT. induction n as [|n IH]; intros s acc Hi; cbn [relems].
  - apply good_ok; [exact Hi|apply same_src_refl|reflexivity].
  - eapply (good_bind s _ _ None); [apply HT; exact Hi|].
    intros x r' H1 S1 Hsc. cbv beta iota. cbn [andb].
    rewrite (r_of_src_eta r' Hsc). apply (good_same _ _ _ _ S1). apply IH. exact H1.
Qed.

Lemma stashed_good {A} r (f : rst -> res (A * rst)) s sc0 sc' : r_scope r = sc0 ->
  good s (f (r_set_scope r None)) sc' -> good s (rscope_stashed r f) sc0.
Proof.
  intros <-. unfold rscope_stashed. destruct (f _) as [[a r']| |]; cbn [bind good]; [|trivial|trivial].
  intros (H1 & H2 & _). cbn [r_src r_set_scope r_scope]. auto.
Qed.

Lemma T_list m e lo hi ext : ~ Known_C10_length_semi_or_large_bound lo hi -> size_bounds_ok lo hi ->
  Tp m e -> Tp m (TListOf e lo hi ext).
Proof.
  intros Hk Hb HT s Hi. enter.
  pose proof (len_ext_good m (r_of_src s) ext lo hi s Hk Hb Hi (same_src_refl s)) as G.
  destruct (read_len_ext m (r_of_src s) ext lo hi) as [[len r1]| |]; cbn [bind]; [|exact I|contradiction].
  destruct G as (Hl & H1 & S1 & Hsc1). cbn [r_scope r_of_src] in Hsc1.
  destruct (0 <? len); [|apply good_ok; assumption].
  apply (stashed_good r1 _ s None None Hsc1).
  rewrite alloc_ok by (unfold ALLOC_LIMIT; lia). cbn [bind]. cbv zeta.
  destruct (N.ltb_spec LOOP_LIMIT len) as [L2|L2]; [unfold LOOP_LIMIT in L2; lia|].
  fold (relems m e false). change (r_set_scope r1 None) with (r_of_src (r_src r1)).
  apply (good_same _ _ _ _ S1). apply relems_good; assumption.
Qed.

(** * CHOICE *)
Lemma rpick_good m index : forall alts, Forall (Tp m) alts -> forall i s, src_inv s ->
  good s (rpick m index (r_of_src s) alts i) None.
Proof.
  induction alts as [|a alts IH]; intros F i s Hi.
  - destruct i; cbn [rpick]; apply good_ok; [exact Hi|apply same_src_refl|reflexivity|exact Hi|apply same_src_refl|reflexivity].
  - apply Forall_cons_iff in F. destruct F as [Ha F]. destruct i as [|i]; cbn [rpick].
    + eapply (good_bind s _ _ None); [apply Ha; exact Hi|].
      intros x r' H1 S1 Hsc. cbv beta iota. apply good_ok; assumption.
    + apply IH; assumption.
Qed.

Lemma T_choice m alts std ext : std < two64 -> Forall (Tp m) alts -> Tp m (TChoice alts std ext).
Proof.
  intros Hstd F s Hi. enter. apply (stashed_good (r_of_src s) _ s None None eq_refl).
  change (r_set_scope (r_of_src s) None) with (r_of_src s).
  eapply (good_bind s _ _ None).
  - apply good_get; [apply keeps_index|intros s1; apply r_index_np; exact Hstd|exact Hi|apply same_src_refl|reflexivity].
  - intros index r1 H1 S1 Hsc1. cbv beta iota zeta.
    set (gpick := fun r0 : rst => if N.of_nat (length alts) <=? index then Ok (None, r0)
                                  else rpick m index r0 alts (N.to_nat index)).
    assert (Hg : forall r0, src_inv (r_src r0) -> same_src s (r_src r0) -> r_scope r0 = None ->
              good s (gpick r0) None).
    { intros r0 H0 S0 Hsc0. unfold gpick. destruct (_ <=? _); [apply good_ok; assumption|].
      rewrite (r_of_src_eta r0 Hsc0). apply (good_same _ _ _ _ S0). apply rpick_good; assumption. }
    eapply (good_bind s _ _ None).
    + destruct (std <=? index).
      * unfold r_get at 1. rewrite r_len_unc_eq. pose proof (r_len_unc_np (r_src r1)) as N1.
        destruct (r_length_determinant_unc (r_src r1)) as [[len s2]| |] eqn:E; cbn [bind]; [|exact I|discriminate N1].
        destruct (keeps_len_unc _ _ _ H1 E) as [H2 S2]. apply r_len_unc_bound in E. destruct E as [Hl _].
        apply (sub_slice_good m (r_set_src r1 s2) len gpick s None Hl H2).
        apply Hg; [exact H2|exact (same_src_trans _ _ _ S1 S2)|exact Hsc1].
      * apply (Hg r1 H1 S1 Hsc1).
    + intros ov r2 H2 S2 Hsc2. cbv beta iota. destruct ov; [apply good_ok; assumption|exact I].
Qed.

(** * the excluded classes *)
(* F04-1: the length determinant of the size constraint is read in a 63/17-bit constrained form and
   the count is allocated as it comes (a lower bound without an upper bound, or an upper bound >= 64K) *)
Definition Known_C04_size (lo hi : option N) : Prop :=
  match hi with Some u => 65536 <= u | None => lo <> None end.
(* F04-3: a BIT STRING whose length can arrive in the unconstrained form: the fragment loop of
   read_bitstring underflows for 16384 bits or more *)
Definition Known_C04_bits_unconstrained (lo hi : option N) (ext : bool) : Prop :=
  (lo = None /\ hi = None) \/ ext = true.

Fixpoint Known_C04 (t : ty) : Prop :=
  match t with
  | TBool | TNull | TInt _ _ _ _ | TEnum _ _ _ => False
  | TStr Utf8 _ _ _ => False                      (* the size constraint is not used by the UTF8String reader *)
  | TStr _ lo hi _ => Known_C04_size lo hi
  | TOctets lo hi _ => Known_C04_size lo hi
  | TBitStr lo hi ext => Known_C04_size lo hi \/ Known_C04_bits_unconstrained lo hi ext
  | TListOf e lo hi _ => Known_C04_size lo hi \/ Known_C04 e
  | TSeq fs _ _ _ =>
      (fix any (fs : list (fkind * ty)) : Prop :=
         match fs with [] => False | (_, ft) :: r => Known_C04 ft \/ any r end) fs
  | TChoice alts _ _ =>
      (fix any (alts : list ty) : Prop :=
         match alts with [] => False | a :: r => Known_C04 a \/ any r end) alts
  end.

Definition known4_fields :=
  fix any (fs : list (fkind * ty)) : Prop :=
    match fs with [] => False | (_, ft) :: r => Known_C04 ft \/ any r end.
Definition known4_alts :=
  fix any (alts : list ty) : Prop :=
    match alts with [] => False | a :: r => Known_C04 a \/ any r end.

Definition Tprop (m : mode) (t : ty) : Prop := wf_ty t -> ~ Known_C04 t -> Tp m t.

Lemma fields_Tp m : forall fs, Forall (fun f => Tprop m (snd f)) fs -> all_wf_fields fs ->
  ~ known4_fields fs -> Forall (fun f => Tp m (snd f)) fs.
Proof.
  induction fs as [|[k ft] fs IH]; intros F Hw Hk; [constructor|].
  apply Forall_cons_iff in F. destruct F as [Hf F]. cbn [all_wf_fields] in Hw. destruct Hw as (W1 & _ & W2).
  cbn [known4_fields] in Hk. constructor.
  - cbn [snd] in *. apply Hf; [exact W1|tauto].
  - apply IH; [exact F|exact W2|tauto].
Qed.

Lemma alts_Tp m : forall alts, Forall (Tprop m) alts -> all_wf_ty alts ->
  ~ known4_alts alts -> Forall (Tp m) alts.
Proof.
  induction alts as [|a alts IH]; intros F Hw Hk; [constructor|].
  apply Forall_cons_iff in F. destruct F as [Hf F]. cbn [all_wf_ty] in Hw. destruct Hw as (W1 & W2).
  cbn [known4_alts] in Hk. constructor.
  - apply Hf; [exact W1|tauto].
  - apply IH; [exact F|exact W2|tauto].
Qed.

Theorem read_total m t : Tprop m t.
Proof.
  induction t as [| |k lo hi ext|c lo hi ext|lo hi ext|lo hi ext|e lo hi ext IH|fs so fc ea IH|alts std ext IH|vc std ext]
    using ty_ind'; intros Hty Hk.
  - apply T_bool.
  - apply T_null.
  - apply T_int.
  - destruct c.
    + apply T_str_utf8.
    + apply T_str; [exact Hk|exact Hty|discriminate].
    + apply T_str; [exact Hk|exact Hty|discriminate].
    + apply T_str; [exact Hk|exact Hty|discriminate].
    + apply T_str; [exact Hk|exact Hty|discriminate].
  - apply T_octets; [exact Hk|exact Hty].
  - cbn [Known_C04] in Hk. unfold Known_C04_size, Known_C04_bits_unconstrained in Hk.
    destruct hi as [u|].
    + destruct ext; [exfalso; apply Hk; right; right; reflexivity|].
      apply T_bits; [lia|exact Hty].
    + exfalso. apply Hk. destruct lo; [left; discriminate|right; left; split; reflexivity].
  - cbn [Known_C04] in Hk. cbn [wf_ty] in Hty. destruct Hty as [Hb Hte].
    apply T_list; [tauto|exact Hb|apply IH; [exact Hte|tauto]].
  - apply wf_ty_seq in Hty. destruct Hty as [Hc Hf]. change (~ known4_fields fs) in Hk.
    apply T_seq; [exact Hc|]. apply fields_Tp; assumption.
  - cbn [wf_ty] in Hty. destruct Hty as (H1 & H2 & H3 & H4 & Ha). change (~ known4_alts alts) in Hk.
    apply T_choice; [unfold SIZE_LIMIT in H3; unfold two64; lia|]. apply alts_Tp; assumption.
  - cbn [wf_ty] in Hty. destruct Hty as (H1 & H2 & H3 & H4).
    apply T_enum. unfold SIZE_LIMIT in H3; unfold two64; lia.
Qed.

(** * C04, UPER part *)
Theorem uper_total m t s : wf_ty t -> ~ Known_C04 t -> src_inv s ->
  match read_ty m t (r_of_src s) with
  | Ok (_, r') => s_pos (r_src r') <= s_len s /\ src_inv (r_src r') /\ s_len (r_src r') = s_len s
  | Err _ => True
  | Panic _ => False
  end.
Proof.
  intros Hty Hk Hi. pose proof (read_total m t Hty Hk s Hi) as G.
  destruct (read_ty m t (r_of_src s)) as [[v r']| |]; cbn [good] in G; [|exact I|exact G].
  destruct G as (G1 & (_ & _ & G2) & _). pose proof G1 as (_ & P & _).
  split; [lia|]. split; [exact G1|exact G2].
Qed.

(* every byte string with every declared bit length (of a Rust slice) is a source in the invariant *)
Lemma src_of_bytes_inv bytes len : len < two63 -> src_inv (src_of_bytes bytes len).
Proof. apply src_of_bits_inv. Qed.

Corollary uper_total_bytes m t bytes len : wf_ty t -> ~ Known_C04 t -> len < two63 ->
  is_panic (read_ty m t (r_of_src (src_of_bytes bytes len))) = false.
Proof.
  intros Hty Hk Hl. pose proof (uper_total m t _ Hty Hk (src_of_bytes_inv bytes len Hl)) as G.
  destruct (read_ty m t _) as [[v r']| |]; [reflexivity|reflexivity|contradiction].
Qed.

(* the remaining-bit count is computable (no underflow) in every state within the invariant,
   in particular after every successful read; a failed read returns no state: the caller keeps
   the state it passed in *)
Lemma remaining_ok m s : src_inv s -> src_remaining m s = Ok (s_len s - s_pos s).
Proof. intros (_ & P & _). apply usub_ok. exact P. Qed.

Corollary remaining_callable m t s : wf_ty t -> ~ Known_C04 t -> src_inv s ->
  src_remaining m s = Ok (s_len s - s_pos s) /\
  forall v r', read_ty m t (r_of_src s) = Ok (v, r') ->
    src_remaining m (r_src r') = Ok (s_len s - s_pos (r_src r')).
Proof.
  intros Hty Hk Hi. split; [apply remaining_ok; exact Hi|].
  intros v r' E. pose proof (uper_total m t s Hty Hk Hi) as G. rewrite E in G.
  destruct G as (_ & G1 & G2). rewrite <- G2. apply remaining_ok. exact G1.
Qed.

(* the cursor stays within the declared length in the output state of every reader primitive *)
Definition pos_le_len {A} (f : src -> res (A * src)) : Prop :=
  forall s a s', src_inv s -> f s = Ok (a, s') ->
    s_pos s' <= s_len s' /\ s_len s' = s_len s /\ src_inv s'.
Lemma keeps_pos_le_len {A} (f : src -> res (A * src)) : keeps f -> pos_le_len f.
Proof.
  intros H s a s' Hi E. destruct (H s a s' Hi E) as [H1 (_ & _ & L)]. pose proof H1 as (_ & P & _).
  split; [exact P|]. split; [exact L|exact H1].
Qed.

Theorem pos_le_len_preserved m :
  pos_le_len r_bit /\
  (forall d o n, pos_le_len (fun s => r_bits_into s d o n)) /\
  (forall p, pos_le_len (fun s => Ok (tt, src_set_pos s p))) /\
  (forall lb ub, pos_le_len (r_nnbi m lb ub)) /\
  (forall lb ub, pos_le_len (r_length_determinant m lb ub)) /\
  (forall k, pos_le_len (r_2s_compliment k)) /\
  (forall lb ub, pos_le_len (r_constrained m lb ub)) /\
  pos_le_len (r_normally_small m) /\
  pos_le_len (r_unconstrained m) /\
  (forall std ext, pos_le_len (r_enumeration_index m std ext)) /\
  (forall lb ub ext, pos_le_len (r_octetstring m lb ub ext)) /\
  (forall lb u, pos_le_len (r_bitstring m lb (Some u) false)).
Proof.
  repeat match goal with |- _ /\ _ => split end; intros; apply keeps_pos_le_len.
  - apply keeps_r_bit.
  - apply keeps_r_bits_into.
  - intros s a s' Hi E. injection E as _ <-. apply src_set_pos_inv. exact Hi.
  - apply keeps_nnbi.
  - apply keeps_length.
  - apply keeps_twos.
  - apply keeps_constrained.
  - apply keeps_normally_small.
  - apply keeps_unconstrained.
  - apply keeps_index.
  - apply keeps_octetstring.
  - apply keeps_bitstring.
Qed.

(** * the excluded classes are inhabited by panics (the model reproduces the crate) *)
Definition run_bytes (m : mode) (t : ty) (bytes : list N) : res (val * rst) :=
  read_ty m t (r_of_src (src_of_bytes bytes (8 * blen bytes))).

(* F04-1: a 63-bit count from the input is allocated / used as a vector capacity *)
Lemma refuted_size_octets :
  let t := TOctets (Some 1) None false in
  wf_ty t /\ Known_C04 t /\ run_bytes release_mode t [255; 255; 255; 255; 255; 255; 255; 255] = Panic P_CAPACITY.
Proof. cbv zeta. split; [exact I|]. split; [discriminate|]. vm_compute. reflexivity. Qed.
Lemma refuted_size_string :
  let t := TStr Ia5 (Some 1) None false in
  wf_ty t /\ Known_C04 t /\ run_bytes release_mode t [255; 255; 255; 255; 255; 255; 255; 255] = Panic P_CAPACITY.
Proof. cbv zeta. split; [exact I|]. split; [discriminate|]. vm_compute. reflexivity. Qed.
Lemma refuted_size_bitstring :
  let t := TBitStr (Some 1) None false in
  wf_ty t /\ Known_C04 t /\ run_bytes release_mode t [255; 255; 255; 255; 255; 255; 255; 255] = Panic P_UNBOUNDED.
Proof. cbv zeta. split; [exact I|]. split; [left; discriminate|]. vm_compute. reflexivity. Qed.
Lemma refuted_size_sequence_of :
  let t := TListOf TBool (Some 1) None false in
  wf_ty t /\ Known_C04 t /\ run_bytes release_mode t [255; 255; 255; 255; 255; 255; 255; 255] = Panic P_CAPACITY.
Proof. cbv zeta. split; [split; exact I|]. split; [left; discriminate|]. vm_compute. reflexivity. Qed.
(* ... and with an upper bound of 64K or more (here 2^40): a 41-bit count *)
Lemma refuted_size_large_upper :
  let t := TOctets None (Some 1099511627776) false in
  wf_ty t /\ Known_C04 t /\ run_bytes release_mode t [255; 255; 255; 255; 255; 255; 255; 255] = Panic P_UNBOUNDED.
Proof. cbv zeta. split; [exact I|]. split; [cbn; lia|]. vm_compute. reflexivity. Qed.

(* F04-3: BIT STRING with an unconstrained length: a second fragment after 16K bits underflows *)
Lemma refuted_bitstring_unconstrained :
  let t := TBitStr None None false in
  let bytes := [193] ++ repeat 0 2048 ++ [1; 128] in
  wf_ty t /\ Known_C04 t /\ run_bytes dev_mode t bytes = Panic P_ARITH /\ is_panic (run_bytes release_mode t bytes) = true.
Proof.
  cbv zeta. split; [exact I|]. split; [right; left; split; reflexivity|]. split; vm_compute; reflexivity.
Qed.
Lemma refuted_bitstring_extensible :
  let t := TBitStr (Some 1) (Some 8) true in
  let bytes := [224; 128] ++ repeat 0 2048 ++ [192; 0] in
  wf_ty t /\ Known_C04 t /\ run_bytes dev_mode t bytes = Panic P_ARITH.
Proof.
  cbv zeta. split; [cbn; lia|]. split; [right; right; reflexivity|]. vm_compute. reflexivity.
Qed.

(* repaired (fix: saturating_add in Scope::read_from_field): an addition count of 2^64 -- extension bit,
   "big" normally small number of 8 octets FF..FF -- is an error in both profiles, not an overflow *)
Lemma ext_count_overflow_is_error : forall m,
  is_panic (run_bytes m (TSeq [(FReq, TBool); (FReq, TBool)] 0 2 (Some 0))
              [225; 31; 255; 255; 255; 255; 255; 255; 255; 224; 0]) = false.
Proof. intros [[|] [|]]; vm_compute; reflexivity. Qed.

(** * non-vacuity: an extensible SEQUENCE with additions, read from an encoding that carries one more
    (unknown) addition; the declared length is honoured to the bit *)
Definition ex4_ty : ty :=
  TSeq [(FReq, TBool); (FOpt, TInt U8 (Some 0%Z) (Some 255%Z) false); (FReq, TOctets None None false);
        (FOpt, TListOf (TChoice [TBool; TNull] 1 true) None (Some 3) false)] 1 4 (Some 1).
Definition ex4_bytes : list N := [224; 160; 184; 16; 13; 80; 10; 128; 15; 248].

Lemma nonvacuous_c04 :
  wf_ty ex4_ty /\ ~ Known_C04 ex4_ty /\
  (forall m, exists r',
     read_ty m ex4_ty (r_of_src (src_of_bytes ex4_bytes 77)) =
       Ok (VSeq [Some (VBool true); Some (VInt 5); Some (VOctets [170]); Some (VList [VChoice 0 (VBool true)])], r')
     /\ s_pos (r_src r') = 77) /\
  (forall m, read_ty m ex4_ty (r_of_src (src_of_bytes ex4_bytes 76)) = Err E_END_OF_STREAM).
Proof.
  split; [|split; [|split]].
  - cbn. repeat split; try lia; try discriminate.
  - cbn. unfold Known_C04_size. intros H. decompose [or] H; try contradiction; try lia; try congruence.
  - intros [[|] [|]]; eexists; vm_compute; split; reflexivity.
  - intros [[|] [|]]; vm_compute; reflexivity.
Qed.
