(* L2 reader as built WITH the cargo feature `descriptive-deserialize-errors`: model of
   `impl Reader for UperReader<Bits>` in src/rw/uper.rs with every
   `#[cfg(feature = "descriptive-deserialize-errors")]` statement included.

   The state [rstd] is the state [rst] of Uper/Reader.v plus the log `self.scope_description`
   ([r_log], newest entry first).  Every cfg-gated statement of uper.rs is a push of one code onto
   the log at the same program point; one code per ScopeDescription constructor (the two kinds of
   `Warning` get two codes), payloads dropped: every payload expression (`result.clone()`,
   `format!`, `.to_string()`, `C::TAG`, `saturating_sub`) is total and touches neither the bits nor
   the scope.  The pushes that sit AFTER a result was computed (`Result`, `End`,
   `ReadWholeSubSlice`, `ReadBitFieldEntry`, `Bits*`) are executed for Ok and for Err results
   alike ([d_after]); pushes behind a `?` are skipped by an early return exactly as in the source.

   Errors carry the log at the point of failure ([DErr e log]): that is what `Reader::read` moves
   into `Error.0.description` (`map_err` + `mem::take`).  [read_ty_d] forgets it again.

   Functions of uper.rs without any cfg-gated statement (the bit-level readers,
   read_from_field's simple scopes, skip_unknown_extension_additions, the character loop) are not
   copied: they run on the underlying [rst] with the log carried along ([d_get], [d_run], [st_run]). *)
From A1 Require Export Uper.Reader.
Local Open Scope N_scope.

(** log codes: one per ScopeDescription constructor *)
Definition L_SEQUENCE : N := 1.
Definition L_SEQUENCE_OF : N := 2.
Definition L_ENUMERATED : N := 3.
Definition L_CHOICE : N := 4.
Definition L_OPTIONAL : N := 5.
Definition L_DEFAULT : N := 6.
Definition L_NUMBER : N := 7.
Definition L_UTF8 : N := 8.
Definition L_IA5 : N := 9.
Definition L_NUMERIC : N := 10.
Definition L_PRINTABLE : N := 11.
Definition L_VISIBLE : N := 12.
Definition L_OCTET : N := 13.
Definition L_BITSTR : N := 14.
Definition L_BOOLEAN : N := 15.
Definition L_RESULT : N := 16.
Definition L_LEN_DET : N := 17.          (* BitsLengthDeterminant *)
Definition L_ENUM_INDEX : N := 18.       (* BitsEnumerationIndex *)
Definition L_CHOICE_INDEX : N := 19.     (* BitsChoiceIndex *)
Definition L_SUB_SLICE : N := 20.        (* ReadWholeSubSlice *)
Definition L_BIT_FIELD_ENTRY : N := 21.  (* ReadBitFieldEntry *)
Definition L_WARNING_EXT : N := 22.      (* Warning: more extension additions transmitted than known *)
Definition L_END : N := 23.
Definition L_WARNING_ENUM : N := 24.     (* Warning: enumerated index outside of the known variants *)

Record rstd := { rd_st : rst; r_log : list N }.
Definition erase (r : rstd) : rst := rd_st r.
Definition rd_of (r : rst) : rstd := {| rd_st := r; r_log := [] |}.
Definition rd_with (rd : rstd) (r : rst) : rstd := {| rd_st := r; r_log := r_log rd |}.
Definition push (rd : rstd) (c : N) : rstd := {| rd_st := rd_st rd; r_log := c :: r_log rd |}.
Definition rd_set_src (rd : rstd) (s : src) : rstd := rd_with rd (r_set_src (rd_st rd) s).
Definition rd_set_scope (rd : rstd) (sc : option scope) : rstd := rd_with rd (r_set_scope (rd_st rd) sc).

(** results whose error case keeps the log *)
Inductive dres (A : Type) : Type :=
| DOk (a : A) (r : rstd)
| DErr (e : N) (log : list N)
| DPanic (p : N).
Arguments DOk {A} a r.
Arguments DErr {A} e log.
Arguments DPanic {A} p.

Definition dbind {A B} (x : dres A) (k : A -> rstd -> dres B) : dres B :=
  match x with DOk a r => k a r | DErr e l => DErr e l | DPanic p => DPanic p end.
Notation "'let!d' ( a , r ) ':=' x 'in' k" := (dbind x (fun a r => k))
  (at level 200, a name, r name, x at level 100, k at level 200, right associativity).

(* a push that follows a computed Result: executed whatever the result is *)
Definition d_after {A} (c : N) (x : dres A) : dres A :=
  match x with DOk a r => DOk a (push r c) | DErr e l => DErr e (c :: l) | DPanic p => DPanic p end.

(* a computation that does not touch the reader (arithmetic, allocation, from_utf8) *)
Definition d_pure {A} (r : rstd) (x : res A) : dres A :=
  match x with Ok a => DOk a r | Err e => DErr e (r_log r) | Panic p => DPanic p end.
(* a function of uper.rs without cfg-gated statements *)
Definition d_run {A} (r : rstd) (f : rst -> res (A * rst)) : dres A :=
  match f (rd_st r) with Ok (a, r') => DOk a (rd_with r r') | Err e => DErr e (r_log r) | Panic p => DPanic p end.
(* lift an L1 reader *)
Definition d_get {A} (r : rstd) (f : src -> res (A * src)) : dres A := d_run r (fun r0 => r_get r0 f).
Definition st_run {X} (rd : rstd) (x : res (X * rst)) : res (X * rstd) :=
  let! (a, r') := x in Ok (a, rd_with rd r').
Definition d_of_st {X} (r0 : rstd) (x : res (X * rstd)) : dres X :=
  match x with Ok (a, r) => DOk a r | Err e => DErr e (r_log r0) | Panic p => DPanic p end.

(** Scope::read_from_field(descriptions, bits, is_opt) *)
Definition read_from_field_d (m : mode) (r : rstd) (sc : scope) (is_opt : bool) : res (fres * rstd) :=
  match sc with
  | ExtSeq bit_pos opt calls n_ext =>
      if calls =? 0 then
        let! x := bit_at (rd_st r) bit_pos in
        match x with
        | inr e => Ok (f_err e, r)
        | inl ext =>
          if ext then
            match r_normally_small m (r_src (rd_st r)) with
            | Panic q => Panic q
            | Err e =>
                let s := r_src (rd_st r) in
                let p := pos_after_failed_normally_small m s in
                Ok (f_err e, rd_set_src r (src_adv s (p - s_pos s) (skipn (N.to_nat (p - s_pos s)) (s_rest s))))
            | Ok (n, s) =>
                let r := rd_set_src r s in
                let read_n := N.min (n + 1) (two64 - 1) in      (* saturating_add(1) *)
                (* #[cfg] descriptions.push(ScopeDescription::warning(format!(..))) inside the (ungated) `if` *)
                let r := if n_ext <? read_n then push r L_WARNING_EXT else r in
                let start := s_pos (r_src (rd_st r)) in
                let stop := N.min (start + read_n) (two64 - 1) in
                let r := rd_set_src r (src_set_pos (r_src (rd_st r)) stop) in
                let sc' := AllBitField start stop in
                st_run r (read_from_field_simple (r_set_scope (rd_st r) (Some sc')) sc' is_opt)
            end
          else
            st_run r (read_from_field_simple (r_set_scope (rd_st r) (Some ExtSeqEmpty)) ExtSeqEmpty is_opt)
        end
      else
        let calls' := calls - 1 in
        match opt with
        | Some (a, b) =>
            if is_opt then
              let! x := bit_at (rd_st r) a in
              let r' := rd_set_scope r (Some (ExtSeq bit_pos (Some (a + 1, b)) calls' n_ext)) in
              Ok (match x with inl bit => f_ok (Some bit) | inr e => f_err e end, r')
            else Ok (f_ok None, rd_set_scope r (Some (ExtSeq bit_pos opt calls' n_ext)))
        | None => Ok (f_ok None, rd_set_scope r (Some (ExtSeq bit_pos opt calls' n_ext)))
        end
  | _ => st_run r (read_from_field_simple (rd_st r) sc is_opt)
  end.

(* state and outcome of read_bit_field_entry; the ReadBitFieldEntry push follows whatever the result is *)
Definition read_bit_field_entry_st_d (m : mode) (r : rstd) (is_opt : bool) : res (fres * rstd) :=
  let! (x, r') :=
    (match r_scope (rd_st r) with
     | Some sc => read_from_field_d m r sc is_opt
     | None =>
         if is_opt then
           match r_bit (r_src (rd_st r)) with
           | Ok (b, s) => Ok (f_ok (Some b), rd_set_src r s)
           | Err e => Ok (f_err e, r)
           | Panic q => Panic q
           end
         else Ok (f_ok None, r)
     end) in
  Ok (x, push r' L_BIT_FIELD_ENTRY).

(* read_bit_field_entry(is_opt)? *)
Definition read_bit_field_entry_d (m : mode) (r : rstd) (is_opt : bool) : dres (option bool) :=
  let!d (x, r') := d_of_st r (read_bit_field_entry_st_d m r is_opt) in
  match x with inl ob => DOk ob r' | inr e => DErr e (r_log r') end.

Definition rscope_pushed_d {A} (m : mode) (r : rstd) (sc : scope) (f : rstd -> dres A) : dres A :=
  let original := r_scope (rd_st r) in
  let!d (a, r') := f (rd_set_scope r (Some sc)) in
  if debug_asserts m && negb (match r_scope (rd_st r') with Some s => scope_exhausted s | None => false end)
  then DPanic P_ASSERT
  else DOk a (rd_set_scope r' original).

Definition rscope_stashed_d {A} (r : rstd) (f : rstd -> dres A) : dres A :=
  let original := r_scope (rd_st r) in
  let!d (a, r') := f (rd_set_scope r None) in
  DOk a (rd_set_scope r' original).

(* UperReader::read_length_determinant / read_enumeration_index / read_choice_index: the push follows the result *)
Definition read_length_determinant_d (m : mode) (r : rstd) (lo hi : option N) : dres N :=
  d_after L_LEN_DET (d_get r (r_length_determinant m lo hi)).
Definition read_enumeration_index_d (m : mode) (r : rstd) (std : N) (ext : bool) : dres N :=
  d_after L_ENUM_INDEX (d_get r (r_enumeration_index m std ext)).
Definition read_choice_index_d (m : mode) (r : rstd) (std : N) (ext : bool) : dres N :=
  d_after L_CHOICE_INDEX (d_get r (r_enumeration_index m std ext)).

(* read_whole_sub_slice(length_bytes, f): the ReadWholeSubSlice push follows f's result, Ok or Err *)
Definition read_whole_sub_slice_d {A} (m : mode) (r : rstd) (length_bytes : N) (f : rstd -> dres A) : dres A :=
  let!d (lb, r) := d_pure r (umul m length_bytes BYTE_LEN) in
  let!d (write_position, r) := d_pure r (uadd m (s_pos (r_src (rd_st r))) lb) in
  let!d (a, r') := d_after L_SUB_SLICE (f r) in
  DOk a (rd_set_src r' (src_set_pos (r_src (rd_st r')) write_position)).

Definition rwith_buffer_d {A} (m : mode) (r : rstd) (f : rstd -> dres A) : dres A :=
  if match r_scope (rd_st r) with Some s => encode_as_open_type_field s | None => false end then
    let!d (len, r) := read_length_determinant_d m r None None in
    read_whole_sub_slice_d m r len f
  else f r.

Definition read_len_ext_d (m : mode) (r : rstd) (ext : bool) (lo hi : option N) : dres N :=
  if ext then
    let!d (e, r) := d_get r r_bit in
    if e then read_length_determinant_d m r None None
    else read_length_determinant_d m r lo hi
  else read_length_determinant_d m r lo hi.

Definition str_code (c : cset) : N :=
  match c with Utf8 => L_UTF8 | Ia5 => L_IA5 | Numeric => L_NUMERIC | Printable => L_PRINTABLE | Visible => L_VISIBLE end.

Fixpoint read_ty_dl (m : mode) (t : ty) (r : rstd) {struct t} : dres val :=
  match t with
  | TBool =>
      let r := push r L_BOOLEAN in
      let!d (_, r) := read_bit_field_entry_d m r false in
      d_after L_RESULT
        (rwith_buffer_d m r (fun r => let!d (b, r) := d_get r r_bit in DOk (VBool b) r))
  | TNull =>
      (* read_null has no cfg-gated statement of its own *)
      let!d (_, r) := read_bit_field_entry_d m r false in
      rwith_buffer_d m r (fun r => DOk VNull r)
  | TInt k lo hi ext =>
      let r := push r L_NUMBER in
      let!d (_, r) := read_bit_field_entry_d m r false in
      rwith_buffer_d m r (fun r =>
        let!d (unconstrained, r) :=
          (if ext then d_get r r_bit else DOk (negb (is_some lo) && negb (is_some hi)) r) in
        (* the Result push sits between the bit-level read and `result.map(T::from_i64)` *)
        d_after L_RESULT
          (let!d (z, r) :=
             (if unconstrained then d_get r (r_unconstrained m)
              else d_get r (r_constrained m (opt_or lo 0%Z) (opt_or hi I64_MAXz))) in
           DOk (VInt (from_i64 k z)) r))
  | TStr Utf8 lo hi ext =>
      let r := push r L_UTF8 in
      let!d (_, r) := read_bit_field_entry_d m r false in
      d_after L_RESULT
        (rwith_buffer_d m r (fun r =>
          let!d (bs, r) := d_get r (r_octetstring m None None false) in
          let!d (v, r) := d_pure r (from_utf8 (bytes_of_bits bs)) in DOk v r))
  | TStr c lo hi ext =>
      let r := push r (str_code c) in
      let!d (_, r) := read_bit_field_entry_d m r false in
      d_after L_RESULT
        (rwith_buffer_d m r (fun r =>
          let!d (len, r) := read_len_ext_d m r ext lo hi in
          let!d (_, r) := d_pure r (alloc len) in
          let width := match c with Numeric => 4 | _ => 7 end in
          let rem := s_len (r_src (rd_st r)) - s_pos (r_src (rd_st r)) in
          let iters := N.min len (rem / width + 1) in
          let!d (codes, r) := d_run r (fun r0 => read_chars (N.to_nat iters) width r0 []) in
          if iters <? len then DPanic P_OTHER else
          let codes := match c with
                       | Numeric => map (fun x => if x =? 0 then 32 else 32 + 15 + x) codes
                       | _ => codes end in
          let!d (v, r) := d_pure r (from_utf8 codes) in DOk v r))
  | TOctets lo hi ext =>
      let r := push r L_OCTET in
      let!d (_, r) := read_bit_field_entry_d m r false in
      d_after L_RESULT
        (rwith_buffer_d m r (fun r =>
          let!d (bs, r) := d_get r (r_octetstring m lo hi ext) in DOk (VOctets (bytes_of_bits bs)) r))
  | TBitStr lo hi ext =>
      let r := push r L_BITSTR in
      let!d (_, r) := read_bit_field_entry_d m r false in
      d_after L_RESULT
        (rwith_buffer_d m r (fun r =>
          let!d (x, r) := d_get r (r_bitstring m lo hi ext) in
          let '(bs, bl, buflen) := x in
          let bytes := bytes_of_bits bs in
          DOk (VBits (bytes ++ repeat 0 (N.to_nat buflen - length bytes)) bl) r))
  | TListOf e lo hi ext =>
      (* read_sequence_of pushes SequenceOf and never an End *)
      let r := push r L_SEQUENCE_OF in
      let!d (_, r) := read_bit_field_entry_d m r false in
      rwith_buffer_d m r (fun r =>
        let!d (len, r) := read_len_ext_d m r ext lo hi in
        if 0 <? len then
          rscope_stashed_d r (fun r =>
            let!d (_, r) := d_pure r (alloc (len * 64)) in
            let rem := s_len (r_src (rd_st r)) - s_pos (r_src (rd_st r)) in
            let big := LOOP_LIMIT <? len in
            let iters := if big then N.min len (rem + 2) else len in
            (fix elems (n : nat) (r : rstd) (acc : list val) : dres val :=
               match n with
               | O => if big then DPanic P_UNBOUNDED else DOk (VList (frev acc)) r
               | S n' =>
                   let!d (x, r') := read_ty_dl m e r in
                   if big && (s_pos (r_src (rd_st r')) =? s_pos (r_src (rd_st r))) then DPanic P_UNBOUNDED
                   else elems n' r' (x :: acc)
               end) (N.to_nat iters) r [])
        else DOk (VList []) r)
  | TSeq fs std_opt field_count ext_after =>
      let r := push r L_SEQUENCE in
      (* `let _ = self.read_bit_field_entry(false);` *)
      let!d (_, r) := d_of_st r (read_bit_field_entry_st_d m r false) in
      (* End(C::NAME) is pushed after with_buffer returned, Ok or Err *)
      d_after L_END
        (rwith_buffer_d m r (fun r =>
          let bit_pos := s_pos (r_src (rd_st r)) in
          let!d (ext, r) :=
            (match ext_after with
             | Some _ => d_get r r_bit
             | None => DOk false r
             end) in
          let!d (rem, r) := d_pure r (src_remaining m (r_src (rd_st r))) in
          if rem <? std_opt then DErr E_END_OF_STREAM (r_log r) else
          let start := s_pos (r_src (rd_st r)) in
          let!d (stop, r) := d_pure r (uadd m start std_opt) in
          let r := rd_set_src r (src_set_pos (r_src (rd_st r)) stop) in
          let walk (r : rstd) : dres val :=
            (fix fields (fs : list (fkind * ty)) (r : rstd) (acc : list (option val)) : dres val :=
               match fs with
               | [] => DOk (VSeq (frev acc)) r
               | (FReq, ft) :: fs' =>
                   let!d (x, r) := read_ty_dl m ft r in fields fs' r (Some x :: acc)
               | (FOpt, ft) :: fs' =>
                   (* read_opt *)
                   let r := push r L_OPTIONAL in
                   let!d (ob, r) := read_bit_field_entry_d m r true in
                   match ob with
                   | None => DPanic P_UNWRAP
                   | Some true =>
                       let!d (x, r) := rwith_buffer_d m r (fun r => rscope_stashed_d r (fun r => read_ty_dl m ft r)) in
                       fields fs' r (Some x :: acc)
                   | Some false => fields fs' r (None :: acc)
                   end
               | (FDef d, ft) :: fs' =>
                   (* read_default *)
                   let r := push r L_DEFAULT in
                   let!d (ob, r) := read_bit_field_entry_d m r true in
                   match ob with
                   | None => DPanic P_UNWRAP
                   | Some true =>
                       let!d (x, r) := rwith_buffer_d m r (fun r => rscope_stashed_d r (fun r => read_ty_dl m ft r)) in
                       fields fs' r (Some x :: acc)
                   | Some false => fields fs' r (Some d :: acc)
                   end
               end) fs r [] in
          match ext_after, ext with
          | Some ea, true =>
              let!d (nx, r) := d_pure r (usub m field_count (ea + 1)) in
              rscope_pushed_d m r (ExtSeq bit_pos (Some (start, stop)) (ea + 1) nx)
                (fun r => let!d (v, r) := walk r in
                          (* skip_unknown_extension_additions reads through self.bits only: no push *)
                          let!d (_, r) := d_run r (fun r0 => let! r1 := skip_unknown_extension_additions m r0 in Ok (tt, r1)) in
                          DOk v r)
          | _, _ => rscope_pushed_d m r (OptBitField start stop) walk
          end))
  | TChoice alts std ext =>
      let r := push r L_CHOICE in
      let!d (_, r) := read_bit_field_entry_d m r false in
      (* End(C::NAME) is pushed after scope_stashed returned, Ok or Err *)
      d_after L_END
        (rscope_stashed_d r (fun r =>
          let!d (index, r) := read_choice_index_d m r std ext in
          let content (r : rstd) : dres (option val) :=
            if N.of_nat (length alts) <=? index then DOk None r else
            (fix pick (alts : list ty) (i : nat) : dres (option val) :=
               match alts, i with
               | a :: _, O => let!d (x, r) := read_ty_dl m a r in DOk (Some (VChoice index x)) r
               | _ :: rest, S i' => pick rest i'
               | [], _ => DOk None r
               end) alts (N.to_nat index) in
          let finish (x : dres (option val)) : dres val :=
            (* .and_then(|(index, content)| content.ok_or_else(InvalidChoiceIndex)), then the Result push *)
            d_after L_RESULT
              (let!d (ov, r) := x in
               match ov with
               | Some v => DOk v r
               | None => DErr E_INVALID_CHOICE (r_log r)
               end) in
          if std <=? index then
            let!d (length, r) := read_length_determinant_d m r None None in
            finish (read_whole_sub_slice_d m r length content)
          else
            (* `Ok((index, C::read_content(index, r)?))`: an error of the content leaves the closure before the push *)
            let!d (ov, r) := content r in
            finish (DOk ov r)))
  | TEnum variant_count std ext =>
      let r := push r L_ENUMERATED in
      let!d (_, r) := read_bit_field_entry_d m r false in
      d_after L_END
        (let!d (index, r) := rwith_buffer_d m r (fun r => read_enumeration_index_d m r std ext) in
         (* #[cfg] if index >= C::VARIANT_COUNT { push(warning(..)) } *)
         let r := if variant_count <=? index then push r L_WARNING_ENUM else r in
         d_after L_RESULT
           (if index <? variant_count then DOk (VEnum index) r else DErr E_INVALID_CHOICE (r_log r)))
  end.

(** the reader of the feature build: diagnostics attached to an error are not part of the result *)
Definition read_ty_d (m : mode) (t : ty) (r : rstd) : res (val * rstd) :=
  match read_ty_dl m t r with
  | DOk v r' => Ok (v, r')
  | DErr e _ => Err e
  | DPanic p => Panic p
  end.

(* `Error::scope_description()` after `Reader::read` failed: the log, oldest entry first *)
Definition log_on_error (m : mode) (t : ty) (r : rstd) : option (list N) :=
  match read_ty_dl m t r with
  | DErr _ l => Some (rev l)
  | _ => None
  end.
