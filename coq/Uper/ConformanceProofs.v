(* L2 conformance proofs (C02): the implementation-shaped reference encoder [enc] of Uper/Spec.v
   (= the writer model, by C01_writer_is_reference) against the clause-by-clause type-level
   transcription of X.691 in Uper/X691Type.v, for descriptors inside the conformance profile
   (DESIGN.md section 4) and outside the deviation classes [Known_C02]. *)
From A1 Require Export Uper.Spec Uper.X691Type.
From A1 Require Import Bits.Proofs Per.Proofs Uper.Proofs.
Require Import ZifyBool ZifyNat ZifyN.
Local Open Scope N_scope.

(** * the conformance profile at descriptor level *)
(* DESIGN.md section 4: INTEGER unconstrained / (A..B) / (A..B, ...): both bounds or none, an
   extension marker only after a constraint; SIZE(N) / SIZE(A..B) or none: both bounds or none *)
Fixpoint in_profile (t : ty) : Prop :=
  match t with
  | TBool | TNull | TEnum _ _ _ => True
  | TInt _ lo hi ext => is_some lo = is_some hi /\ (ext = true -> is_some lo = true)
  | TStr _ lo hi _ | TOctets lo hi _ | TBitStr lo hi _ => is_some lo = is_some hi
  | TListOf e lo hi _ => is_some lo = is_some hi /\ in_profile e
  | TSeq fs _ _ _ =>
      (fix all (fs : list (fkind * ty)) : Prop :=
         match fs with [] => True | (_, ft) :: r => in_profile ft /\ all r end) fs
  | TChoice alts _ _ =>
      (fix all (alts : list ty) : Prop :=
         match alts with [] => True | a :: r => in_profile a /\ all r end) alts
  end.

(** * the deviation classes *)
Definition in_root (lo hi : option N) (n : N) : Prop :=
  opt_or lo 0 <= n /\ match hi with Some u => n <= u | None => True end.
(* (1) F10-1 / F02-1: an in-root size under an upper bound of 64K or more *)
Definition size_upper_bound_64k (lo hi : option N) (n : N) : Prop :=
  exists u, hi = Some u /\ 65536 <= u /\ opt_or lo 0 <= n <= u.
(* (2) F02-2: 16K or more items under the unconstrained length form (no upper bound, or outside
   the root of an extensible size constraint) *)
Definition fragmentation_16k (lo hi : option N) (ext : bool) (n : N) : Prop :=
  16384 <= n /\ ((hi = None /\ opt_or lo 0 <= n) \/ (ext = true /\ ~ in_root lo hi n)).
Definition Known_C02_size (lo hi : option N) (ext : bool) (n : N) : Prop :=
  size_upper_bound_64k lo hi n \/ fragmentation_16k lo hi ext n.
(* (3) F02-3: the content of an open type encodes to zero bits *)
Definition empty_open_type (t : ty) (x : val) : Prop := x691 t x = Some [].
(* (2') F01-3 (reader side only): an open type with 16K octets of content or more *)
Definition open_type_16k (t : ty) (x : val) : Prop :=
  exists b, x691 t x = Some b /\ 16384 <= (bl b + 7) / 8.
(* (4) F02-4: a mandatory CHOICE component after the extension marker *)
Definition mandatory_choice_addition_inline (k : fkind) (ft : ty) : Prop := wraps k ft = false.

Definition present (k : fkind) (ov : option val) : bool :=
  match ov with
  | Some x => match k with FDef d => negb (val_eqb d x) | _ => true end
  | None => false
  end.
Fixpoint presents (fs : list (fkind * ty)) (vals : list (option val)) : list bool :=
  match fs, vals with
  | (k, _) :: fs', ov :: vals' => present k ov :: presents fs' vals'
  | _, _ => []
  end.
(* (5) more than 64 extension additions, one of them present; (6) the first addition absent and
   a later one present (the refusal sanctioned by C03) *)
Definition more_than_64_additions (ps : list bool) : Prop := existsb (fun p => p) ps = true /\ (64 < length ps)%nat.
Definition first_addition_absent (ps : list bool) : Prop :=
  match ps with p1 :: rest => p1 = false /\ existsb (fun p => p) rest = true | [] => False end.

Fixpoint Known_C02 (t : ty) (v : val) {struct t} : Prop :=
  match t, v with
  | TInt _ _ _ _, VInt z => ~ is_i64 z                      (* (7) INTEGER value outside i64 *)
  | TStr Utf8 _ _ _, VStr _ => False
  | TStr _ lo hi ext, VStr cs => Known_C02_size lo hi ext (N.of_nat (length cs))
  | TOctets lo hi _, VOctets bs => size_upper_bound_64k lo hi (blen bs)
  | TBitStr lo hi ext, VBits _ n => Known_C02_size lo hi ext n
  | TListOf e lo hi ext, VList vs =>
      Known_C02_size lo hi ext (N.of_nat (length vs)) \/
      (fix any (vs : list val) : Prop :=
         match vs with [] => False | x :: r => Known_C02 e x \/ any r end) vs
  | TSeq fs _ _ ea, VSeq vals =>
      (let ps := skipn (root_len fs ea) (presents fs vals) in
       more_than_64_additions ps \/ first_addition_absent ps) \/
      (fix any (fs : list (fkind * ty)) (vals : list (option val)) (i : nat) : Prop :=
         match fs, vals with
         | (k, ft) :: fs', ov :: vals' =>
             match ov with
             | Some x => encoded k x /\
                         (Known_C02 ft x \/
                          (is_addition ea i /\
                           (mandatory_choice_addition_inline k ft \/ empty_open_type ft x \/ open_type_16k ft x)))
             | None => False
             end \/ any fs' vals' (S i)
         | _, _ => False
         end) fs vals O
  | TChoice alts std _, VChoice i x =>
      (fix pick (alts : list ty) (n : nat) : Prop :=
         match alts, n with
         | a :: _, O => Known_C02 a x \/ (std <= i /\ (empty_open_type a x \/ open_type_16k a x))
         | _ :: r, S n' => pick r n'
         | [], _ => False
         end) alts (N.to_nat i)
  | _, _ => False
  end.

(** * the statement proved by induction on the type *)
Definition Cprop (m : mode) (t : ty) : Prop :=
  wf_ty t -> in_profile t -> forall v bs, wf_val t v -> ~ Known_C02 t v ->
  x691 t v = Some bs -> enc m t v = Ok bs.

(** * stage A: leaf types *)
Lemma to_i64_id z : is_i64 z -> to_i64 z = z.
Proof. apply u64_i64_roundtrip. Qed.

Lemma is_i64_dec z : is_i64 z \/ ~ is_i64 z.
Proof. unfold is_i64. lia. Qed.

Lemma C_int m k lo hi ext : Cprop m (TInt k lo hi ext).
Proof.
  intros (Hlo & Hhi & Hle) (Hp & Hpe) v bs Hv Hk Hx. destruct v; try discriminate Hx.
  cbn [Known_C02] in Hk. cbn [x691] in Hx. cbn [enc]. unfold int_enc.
  assert (Hz : is_i64 z) by (destruct (is_i64_dec z); tauto).
  rewrite (to_i64_id z Hz). unfold x_integer, in_range in Hx.
  destruct lo as [l|], hi as [h|]; cbn [is_some] in Hp; try discriminate Hp.
  - cbn [opt_or is_some negb andb].
    destruct ((l <=? z)%Z && (z <=? h)%Z) eqn:Er.
    + destruct (constrained_write m l h z Hlo Hhi ltac:(lia)) as (b & Ew & Ex).
      rewrite Ex in Hx. injection Hx as <-.
      destruct ext.
      * replace ((z <? l)%Z || (h <? z)%Z) with false by lia. rewrite Ew. reflexivity.
      * rewrite Ew. reflexivity.
    + destruct ext; [|discriminate Hx]. injection Hx as <-.
      replace ((z <? l)%Z || (h <? z)%Z) with true by lia.
      rewrite (unconstrained_write m z Hz). reflexivity.
  - destruct ext; [specialize (Hpe eq_refl); discriminate Hpe|].
    cbn [andb is_some negb] in *. injection Hx as <-.
    rewrite (unconstrained_write m z Hz). reflexivity.
Qed.

Lemma C_enum m vc std ext : Cprop m (TEnum vc std ext).
Proof.
  intros (H1 & H2 & H3 & H4) _ v bs Hv _ Hx. destruct v; try discriminate Hx.
  cbn [x691] in Hx. cbn [enc]. cbn [wf_val] in Hv.
  destruct (N.ltb_spec index vc); [|discriminate Hx].
  apply index_write; [unfold SIZE_LIMIT, two64 in *; lia|unfold SIZE_LIMIT, two64 in *; lia|exact Hx].
Qed.

Lemma not_sized_known lo hi n : is_some lo = is_some hi -> ~ size_upper_bound_64k lo hi n ->
  ~ Known_C10_sized_length lo hi n.
Proof.
  intros Hp Hk [C R]. unfold Known_C10_length_semi_or_large_bound in C.
  destruct hi as [u|].
  - apply Hk. exists u. cbn [opt_or] in R. repeat split; try lia.
  - destruct lo; [discriminate Hp|]. apply C. reflexivity.
Qed.

Lemma C_octets m lo hi ext : Cprop m (TOctets lo hi ext).
Proof.
  intros Hty Hp v bs Hv Hk Hx. destruct v; try discriminate Hx.
  cbn [x691] in Hx. cbn [enc]. cbn [wf_val] in Hv. cbn [Known_C02] in Hk. cbn [in_profile] in Hp.
  destruct Hv as [_ Hn].
  rewrite octetstring_write; [rewrite Hx; reflexivity|unfold SIZE_LIMIT, two63 in *; lia|].
  apply not_sized_known; assumption.
Qed.

(* outside the two size classes a value that X.691 can encode does not use a length form the
   crate gets wrong *)
Lemma sized_some_not_16k unit lo hi ext n body bs : is_some lo = is_some hi ->
  ~ Known_C02_size lo hi ext n -> x_sized_run unit lo hi ext n body = Some bs ->
  ~ Known_C10_bitstring_16k lo hi n.
Proof.
  intros Hp Hk Hx [H16 Hn]. rewrite x_sized_run_eq in Hx. cbv zeta in Hx.
  destruct hi as [u|].
  - destruct ((opt_or lo 0 <=? n) && (n <=? u)) eqn:Er.
    + destruct (N.lt_ge_cases u 65536) as [L|L].
      * apply Hn. exists u. repeat split; lia.
      * apply Hk. left. exists u. repeat split; lia.
    + destruct ext; [|discriminate Hx]. apply Hk. right. split; [exact H16|]. right. split; [reflexivity|].
      unfold in_root. lia.
  - destruct lo; [discriminate Hp|]. apply Hk. right. split; [exact H16|]. left. cbn [opt_or]. split; [reflexivity|lia].
Qed.

Lemma C_bitstr m lo hi ext : Cprop m (TBitStr lo hi ext).
Proof.
  intros Hty Hp v bs Hv Hk Hx. destruct v; try discriminate Hx.
  cbn [x691] in Hx. cbn [enc]. cbn [wf_val] in Hv. cbn [Known_C02] in Hk. cbn [in_profile] in Hp.
  destruct Hv as [Hc Hn]. destruct (canonical_content _ _ Hc) as (Hl & _ & Hle). cbv zeta in Hl.
  unfold x_bitstring in Hx. fold (bl (firstn (N.to_nat bit_len) (bits_of_bytes bytes))) in Hx. rewrite Hl in Hx.
  rewrite bitstring_write.
  - cbn [N.to_nat skipn]. unfold x_bitstring.
    fold (bl (firstn (N.to_nat bit_len) (bits_of_bytes bytes))). rewrite Hl, Hx. reflexivity.
  - lia.
  - unfold SIZE_LIMIT, two63 in *; lia.
  - apply not_sized_known; [exact Hp|]. intros C. apply Hk. left. exact C.
  - eapply sized_some_not_16k; eassumption.
Qed.

(** ** count-prefixed runs: the header (extension bit and length determinant) *)
Definition x_hdr (lo hi : option N) (ext : bool) (n : N) : option bits :=
  let l := opt_or lo 0 in
  if (l <=? n) && (match hi with Some u => n <=? u | None => true end) then
    match hi with
    | Some u => option_map (app (if ext then [false] else []))
                  (x_constrained (Z.of_N l) (Z.of_N u) (Z.of_N n))
    | None => Some ((if ext then [false] else []) ++ x_len_short n)
    end
  else if ext then Some (true :: x_len_short n) else None.

Lemma len_hdr_x m lo hi ext up n : is_some lo = is_some hi -> n <= up ->
  ~ Known_C02_size lo hi ext n ->
  len_hdr m ext lo hi up n = match x_hdr lo hi ext n with Some h => Ok h | None => Err E_SIZE_RANGE end.
Proof.
  intros Hp Hup Hk. unfold len_hdr, x_hdr. cbv zeta.
  destruct hi as [u|]; cbn [opt_or].
  - destruct ((opt_or lo 0 <=? n) && (n <=? u)) eqn:Er.
    + replace ((n <? opt_or lo 0) || (u <? n)) with false by lia.
      assert (Hu : u < 65536).
      { destruct (N.lt_ge_cases u 65536) as [L|L]; [exact L|]. exfalso. apply Hk. left. exists u. repeat split; lia. }
      rewrite w_len_constrained by exact Hu.
      destruct (nnbi_write m lo (Some u) n) as (b & Ew & Ex);
        [right; discriminate|cbn [opt_or]; unfold two64; lia|cbn [opt_or]; lia|].
      cbn [opt_or] in Ex. rewrite Ew, Ex. reflexivity.
    + replace ((n <? opt_or lo 0) || (u <? n)) with true by lia.
      destruct ext; cbn [negb]; [|reflexivity].
      rewrite w_len_unc. cbn [bind]. rewrite x_len_first_short; [reflexivity|].
      destruct (N.lt_ge_cases n 16384) as [L|L]; [exact L|]. exfalso. apply Hk. right. split; [exact L|].
      right. split; [reflexivity|]. unfold in_root. lia.
  - destruct lo; [discriminate Hp|]. cbn [opt_or].
    replace ((n <? 0) || (up <? n)) with false by lia. cbn [andb].
    destruct (N.leb_spec 0 n); [|lia].
    rewrite w_len_unc. cbn [bind]. rewrite x_len_first_short; [reflexivity|].
    destruct (N.lt_ge_cases n 16384) as [L|L]; [exact L|]. exfalso. apply Hk. right. split; [exact L|].
    left. cbn [opt_or]. split; [reflexivity|lia].
Qed.

Lemma x_constrained_refl u : x_constrained u u u = Some [].
Proof. unfold x_constrained. rewrite Z.leb_refl. cbn [andb]. rewrite Z.sub_diag. reflexivity. Qed.

Lemma sized_run_hdr unit lo hi ext n body : is_some lo = is_some hi ->
  ~ Known_C02_size lo hi ext n -> (n = 0 -> body = []) ->
  x_sized_run unit lo hi ext n body = option_map (fun h => h ++ body) (x_hdr lo hi ext n).
Proof.
  intros Hp Hk Hb. rewrite x_sized_run_eq. unfold x_hdr. cbv zeta.
  destruct hi as [u|].
  - destruct ((opt_or lo 0 <=? n) && (n <=? u)) eqn:Er.
    + assert (Hu : u < 65536).
      { destruct (N.lt_ge_cases u 65536) as [L|L]; [exact L|]. exfalso. apply Hk. left. exists u. repeat split; lia. }
      destruct (N.eqb_spec u 0) as [E0|E0].
      * assert (n = 0) by lia. assert (opt_or lo 0 = 0) by lia. subst u. rewrite (Hb H), H, H0.
        change (Z.of_N 0) with 0%Z. rewrite x_constrained_refl. cbn [option_map]. rewrite !app_nil_r. reflexivity.
      * destruct (N.ltb_spec u 65536); [|lia]. destruct (N.eqb_spec (opt_or lo 0) u) as [E|E]; cbn [andb].
        -- assert (n = u) by lia. subst n. rewrite E, x_constrained_refl. cbn [option_map]. rewrite app_nil_r. reflexivity.
        -- destruct (x_constrained (Z.of_N (opt_or lo 0)) (Z.of_N u) (Z.of_N n)); cbn [option_map]; [|reflexivity].
           rewrite app_assoc. reflexivity.
    + destruct ext; [|reflexivity]. cbn [option_map app]. rewrite x_run_short; [reflexivity|].
      destruct (N.lt_ge_cases n 16384) as [L|L]; [exact L|]. exfalso. apply Hk. right. split; [exact L|].
      right. split; [reflexivity|]. unfold in_root. lia.
  - destruct lo; [discriminate Hp|]. cbn [opt_or]. destruct (N.leb_spec 0 n); [|lia]. cbn [andb option_map].
    rewrite x_run_short; [rewrite app_assoc; reflexivity|].
    destruct (N.lt_ge_cases n 16384) as [L|L]; [exact L|]. exfalso. apply Hk. right. split; [exact L|].
    left. cbn [opt_or]. split; [reflexivity|lia].
Qed.

(** ** restricted character strings *)
Lemma find_invalid_forallb c cs : find_invalid c cs = negb (forallb (cs_valid c) cs).
Proof.
  induction cs as [|ch cs IH]; [reflexivity|]. cbn [find_invalid forallb]. rewrite IH.
  destruct (cs_valid c ch), (forallb (cs_valid c) cs); reflexivity.
Qed.

Lemma char_bits_x c ch : c <> Utf8 -> cs_valid c ch = true -> char_bits c ch = x_char c ch.
Proof.
  intros Hc Hv. pose proof (cs_valid_ascii c ch Hc Hv) as Ha.
  assert (Em : ch mod 256 = ch) by (apply N.mod_small; lia).
  destruct c; try congruence; unfold char_bits, x_char; rewrite Em.
  1,3,4: rewrite byte_bits_bov; change 8%nat with (1 + 7)%nat; rewrite bov_skipn; reflexivity.
  cbn [cs_valid] in Hv. rewrite byte_bits_bov. change 8%nat with (4 + 4)%nat. rewrite bov_skipn.
  unfold field. change (N.to_nat 4) with 4%nat. f_equal.
  destruct (N.eqb_spec (ch - 32) 0), (N.eqb_spec ch 32); lia.
Qed.

Lemma char_bits_all c cs : c <> Utf8 -> forallb (cs_valid c) cs = true ->
  flat_map (char_bits c) cs = flat_map (x_char c) cs.
Proof.
  intros Hc. induction cs as [|ch cs IH]; [reflexivity|]. cbn [forallb flat_map]. intros H.
  apply andb_true_iff in H. destruct H as [H1 H2]. rewrite (char_bits_x c ch Hc H1), (IH H2). reflexivity.
Qed.

Lemma C_str m c lo hi ext : Cprop m (TStr c lo hi ext).
Proof.
  intros Hty Hp v bs Hv Hk Hx. destruct v; try (exfalso; exact Hv).
  cbn [wf_val] in Hv. cbn [in_profile] in Hp. destruct Hv as [Hs Hn].
  assert (Hlen : N.of_nat (length chars) < SIZE_LIMIT).
  { pose proof (utf8_encode_len chars). unfold blen in Hn. lia. }
  destruct (match c with Utf8 => true | _ => false end) eqn:Ec.
  - destruct c; try discriminate Ec. cbn [x691] in Hx. cbn [enc].
    assert (Eo : x_octetstring None None false (utf8_encode chars) = Some bs).
    { destruct (in_size lo hi (N.of_nat (length chars)) || ext); [exact Hx|discriminate Hx]. }
    assert (Ei : negb ext && ((N.of_nat (length chars) <? opt_or lo 0) || (opt_or hi U64_MAX <? N.of_nat (length chars))) = false).
    { destruct ext; [reflexivity|]. rewrite orb_false_r in Hx. cbn [negb andb].
      destruct (in_size lo hi (N.of_nat (length chars))) eqn:Es; [|discriminate Hx].
      unfold in_size in Es. unfold U64_MAX, two64, SIZE_LIMIT in *. destruct lo, hi; cbn [opt_or]; lia. }
    rewrite Ei. rewrite octetstring_write; [rewrite Eo; reflexivity|unfold SIZE_LIMIT, two63 in *; lia|].
    intros [C _]. apply C. reflexivity.
  - assert (Hc : c <> Utf8) by (intros ->; discriminate Ec).
    assert (Hx' : (if forallb (cs_valid c) chars
                   then x_run (char_unit c) lo hi ext (N.of_nat (length chars)) (flat_map (x_char c) chars)
                   else None) = Some bs) by (destruct c; try discriminate Ec; exact Hx).
    assert (He : enc m (TStr c lo hi ext) (VStr chars) =
                 if find_invalid c chars then Err E_INVALID_STRING else
                 let! h := len_hdr m ext lo hi U64_MAX (N.of_nat (length chars)) in
                 Ok (h ++ flat_map (char_bits c) chars)) by (destruct c; try discriminate Ec; reflexivity).
    assert (Hk' : ~ Known_C02_size lo hi ext (N.of_nat (length chars))) by (destruct c; try discriminate Ec; exact Hk).
    rewrite He, find_invalid_forallb.
    destruct (forallb (cs_valid c) chars) eqn:Ef; [|discriminate Hx']. cbn [negb].
    unfold x_run in Hx'. rewrite sized_run_hdr in Hx'; [|exact Hp|exact Hk'|].
    2:{ intros E0. destruct chars; [reflexivity|cbn [length] in E0; lia]. }
    rewrite len_hdr_x; [|exact Hp|unfold U64_MAX, two64, SIZE_LIMIT in *; lia|exact Hk'].
    destruct (x_hdr lo hi ext (N.of_nat (length chars))) as [h|]; [|discriminate Hx'].
    cbn [option_map] in Hx'. injection Hx' as <-. cbn [bind]. rewrite (char_bits_all c chars Hc Ef). reflexivity.
Qed.

(** * stage B: SEQUENCE OF and CHOICE *)
Definition x_list_form (lo hi : option N) (ext : bool) (n : N) (body : bits) : option bits :=
  let small := n <? 16384 in
  let l := match lo with Some l => l | None => 0 end in
  let in_root := in_size lo hi n in
  let unc := if small then Some (x_len_short n ++ body) else None in
  if in_root then
    let pre := if ext then [false] else [] in
    match hi with
    | Some u =>
        if u <? 65536 then
          if (l =? u) then Some (pre ++ body)
          else match x_constrained (Z.of_N l) (Z.of_N u) (Z.of_N n) with
               | Some lenb => Some (pre ++ lenb ++ body) | None => None end
        else option_map (app pre) unc
    | None => option_map (app pre) unc
    end
  else if ext then option_map (cons true) unc
  else None.

Lemma x691_list_eq e lo hi ext vs :
  x691 (TListOf e lo hi ext) (VList vs) =
  match x_all (x691 e) vs with
  | Some body => x_list_form lo hi ext (N.of_nat (length vs)) body
  | None => None
  end.
Proof. reflexivity. Qed.

Lemma list_form_hdr lo hi ext n body : is_some lo = is_some hi ->
  ~ Known_C02_size lo hi ext n ->
  x_list_form lo hi ext n body = option_map (fun h => h ++ body) (x_hdr lo hi ext n).
Proof.
  intros Hp Hk. unfold x_list_form, x_hdr, in_size. cbv zeta.
  destruct lo as [l|], hi as [u|]; try discriminate Hp; cbn [opt_or].
  - destruct ((l <=? n) && (n <=? u)) eqn:Er.
    + assert (Hu : u < 65536).
      { destruct (N.lt_ge_cases u 65536) as [L|L]; [exact L|]. exfalso. apply Hk. left. exists u. cbn [opt_or]. repeat split; lia. }
      destruct (N.ltb_spec u 65536); [|lia]. destruct (N.eqb_spec l u) as [E|E].
      * assert (n = u) by lia. subst n l. rewrite x_constrained_refl. cbn [option_map]. rewrite app_nil_r. reflexivity.
      * destruct (x_constrained (Z.of_N l) (Z.of_N u) (Z.of_N n)); cbn [option_map]; [|reflexivity].
        rewrite app_assoc. reflexivity.
    + destruct ext; [|reflexivity].
      assert (Hn : n < 16384).
      { destruct (N.lt_ge_cases n 16384) as [L|L]; [exact L|]. exfalso. apply Hk. right. split; [exact L|].
        right. split; [reflexivity|]. unfold in_root. cbn [opt_or]. lia. }
      destruct (N.ltb_spec n 16384); [|lia]. reflexivity.
  - assert (Hn : n < 16384).
    { destruct (N.lt_ge_cases n 16384) as [L|L]; [exact L|]. exfalso. apply Hk. right. split; [exact L|].
      left. cbn [opt_or]. split; [reflexivity|lia]. }
    destruct (N.ltb_spec n 16384); [|lia]. destruct (N.leb_spec 0 n); [|lia]. cbn [andb option_map].
    rewrite app_assoc. reflexivity.
Qed.

Definition any_known2 (e : ty) :=
  fix any (vs : list val) : Prop := match vs with [] => False | x :: r => Known_C02 e x \/ any r end.

Lemma elems_x m e : Cprop m e -> wf_ty e -> in_profile e -> forall vs body,
  all_wf_val e vs -> ~ any_known2 e vs -> x_all (x691 e) vs = Some body -> enc_elems m e vs = Ok body.
Proof.
  intros IH Hty Hp. induction vs as [|x vs IHl]; intros body Hv Hk Hx.
  - cbn in Hx. injection Hx as <-. reflexivity.
  - cbn [x_all] in Hx. cbn [all_wf_val] in Hv. destruct Hv as [Hv1 Hv2]. cbn [any_known2] in Hk.
    destruct (x691 e x) as [a|] eqn:Ea; [|discriminate Hx].
    destruct (x_all (x691 e) vs) as [b|] eqn:Eb; [|discriminate Hx]. injection Hx as <-.
    cbn [enc_elems]. rewrite (IH Hty Hp x a Hv1 ltac:(tauto) Ea). cbn [bind].
    change ((fix elems (vs0 : list val) : res bits :=
               match vs0 with
               | [] => Ok []
               | x0 :: r => let! a0 := enc m e x0 in let! b0 := elems r in Ok (a0 ++ b0)
               end) vs) with (enc_elems m e vs).
    rewrite (IHl b Hv2 ltac:(tauto) eq_refl). reflexivity.
Qed.

Lemma C_list m e lo hi ext : Cprop m e -> Cprop m (TListOf e lo hi ext).
Proof.
  intros IH (Hb & Hty) (Hp & Hpe) v bs Hv Hk Hx. destruct v; try discriminate Hx.
  rewrite x691_list_eq in Hx. cbn [wf_val] in Hv. destruct Hv as [Hn Hv]. cbn [Known_C02] in Hk.
  destruct (x_all (x691 e) vs) as [body|] eqn:Eb; [|discriminate Hx].
  rewrite list_form_hdr in Hx; [|exact Hp|tauto].
  change (enc m (TListOf e lo hi ext) (VList vs)) with
    (let! h := len_hdr m ext lo hi I64_MAX (N.of_nat (length vs)) in
     let! body := enc_elems m e vs in Ok (h ++ body)).
  rewrite len_hdr_x; [|exact Hp|unfold I64_MAX, two63, SIZE_LIMIT in *; lia|tauto].
  destruct (x_hdr lo hi ext (N.of_nat (length vs))) as [h|]; [|discriminate Hx].
  cbn [option_map] in Hx. injection Hx as <-. cbn [bind].
  rewrite (elems_x m e IH Hty Hpe vs body Hv ltac:(tauto) Eb). reflexivity.
Qed.

(** ** open types *)
Lemma x_open_type_eq b : b <> [] ->
  x_open_type b = x_unconstrained_length_run 8 ((bl b + 7) / 8) (b ++ repeat false (pad8 (length b))).
Proof.
  intros Hb. unfold x_open_type.
  destruct (bytes_of_bits b) as [|o os] eqn:E.
  - exfalso. pose proof (bytes_of_bits_len b) as L. rewrite E in L. cbn in L.
    destruct b as [|c b]; [congruence|]. unfold bl in L. cbn [length] in L.
    assert (1 <= (N.of_nat (S (length b)) + 7) / 8) by (apply N.div_le_lower_bound; lia). lia.
  - rewrite <- E. fold (blen (bytes_of_bits b)). rewrite bytes_of_bits_len, bits_of_bytes_of_bits. reflexivity.
Qed.

Lemma wrap_open_xo m b : b <> [] -> (bl b + 7) / 8 < 16384 -> wrap_open m b = Ok (x_open_type b).
Proof.
  intros Hb Hn. rewrite x_open_type_eq by exact Hb. apply wrap_open_x.
  pose proof (N.div_mod (bl b + 7) 8 ltac:(lia)). pose proof (N.mod_lt (bl b + 7) 8 ltac:(lia)).
  unfold two63. lia.
Qed.

(** ** CHOICE *)
Definition x_pick (x : val) :=
  fix pick (alts : list ty) (k : nat) : option bits :=
    match alts, k with
    | a :: _, O => x691 a x
    | _ :: r, S k' => pick r k'
    | [], _ => None
    end.
Definition known_pick (std i : N) (x : val) :=
  fix pick (alts : list ty) (n : nat) : Prop :=
    match alts, n with
    | a :: _, O => Known_C02 a x \/ (std <= i /\ (empty_open_type a x \/ open_type_16k a x))
    | _ :: r, S n' => pick r n'
    | [], _ => False
    end.
Definition all_in_profile :=
  fix all (alts : list ty) : Prop := match alts with [] => True | a :: r => in_profile a /\ all r end.

Lemma x_pick_nth x : forall alts k,
  x_pick x alts k = match nth_error alts k with Some a => x691 a x | None => None end.
Proof. induction alts as [|a alts IH]; intros [|k]; cbn [x_pick nth_error]; auto. Qed.
Lemma enc_pick_nth m x : forall alts k,
  enc_pick m x alts k = match nth_error alts k with Some a => enc m a x | None => Panic P_OTHER end.
Proof. induction alts as [|a alts IH]; intros [|k]; cbn [enc_pick nth_error]; auto. Qed.
Lemma pick_wf_nth x : forall alts k,
  pick_wf x alts k = match nth_error alts k with Some a => wf_val a x | None => False end.
Proof. induction alts as [|a alts IH]; intros [|k]; cbn [pick_wf nth_error]; auto. Qed.
Lemma known_pick_nth std i x : forall alts k,
  known_pick std i x alts k =
  match nth_error alts k with
  | Some a => Known_C02 a x \/ (std <= i /\ (empty_open_type a x \/ open_type_16k a x))
  | None => False end.
Proof. induction alts as [|a alts IH]; intros [|k]; cbn [known_pick nth_error]; auto. Qed.
Lemma all_in_profile_Forall alts : all_in_profile alts -> Forall in_profile alts.
Proof. induction alts as [|a alts IH]; intros H; constructor; cbn in H; tauto. Qed.

Lemma x691_choice_eq alts std ext i x :
  x691 (TChoice alts std ext) (VChoice i x) =
  if N.of_nat (length alts) <=? i then None else
  match x_pick x alts (N.to_nat i) with
  | Some b =>
      if i <? std then
        match x_constrained 0 (Z.of_N std - 1) (Z.of_N i) with
        | Some ib => Some ((if ext then [false] else []) ++ ib ++ b)
        | None => None
        end
      else if ext then Some (true :: x_normally_small (i - std) ++ x_open_type b)
      else None
  | None => None
  end.
Proof. reflexivity. Qed.

Lemma C_choice m alts std ext : Forall (Cprop m) alts -> Cprop m (TChoice alts std ext).
Proof.
  intros IH (H1 & H2 & H3 & H4 & Hty) Hp v bs Hv Hk Hx. destruct v; try discriminate Hx.
  rename index into i, v into x.
  rewrite x691_choice_eq in Hx.
  change (wf_val (TChoice alts std ext) (VChoice i x)) with (pick_wf x alts (N.to_nat i)) in Hv.
  change (Known_C02 (TChoice alts std ext) (VChoice i x)) with (known_pick std i x alts (N.to_nat i)) in Hk.
  change (enc m (TChoice alts std ext) (VChoice i x)) with
    (let! ib := w_enumeration_index m std ext i in
     let! cb := enc_pick m x alts (N.to_nat i) in
     if std <=? i then let! wb := wrap_open m cb in Ok (ib ++ wb) else Ok (ib ++ cb)).
  rewrite pick_wf_nth in Hv. rewrite known_pick_nth in Hk. rewrite x_pick_nth in Hx. rewrite enc_pick_nth.
  destruct (N.leb_spec (N.of_nat (length alts)) i) as [Li|Li]; [discriminate Hx|].
  destruct (nth_error alts (N.to_nat i)) as [a|] eqn:En; [|contradiction Hv].
  pose proof (nth_error_In _ _ En) as Hin.
  assert (Ca : Cprop m a) by (rewrite Forall_forall in IH; apply IH; exact Hin).
  assert (Wa : wf_ty a) by (pose proof (all_wf_ty_Forall alts Hty) as F; rewrite Forall_forall in F; apply F; exact Hin).
  assert (Pa : in_profile a) by (pose proof (all_in_profile_Forall alts Hp) as F; rewrite Forall_forall in F; apply F; exact Hin).
  destruct (x691 a x) as [b|] eqn:Eb; [|discriminate Hx].
  rewrite (Ca Wa Pa x b Hv ltac:(tauto) Eb).
  assert (Hs : std < two64 /\ i < two64) by (unfold SIZE_LIMIT, two64 in *; lia). destruct Hs as [Hs Hi].
  destruct (N.ltb_spec i std) as [L|L].
  - destruct (x_constrained 0 (Z.of_N std - 1) (Z.of_N i)) as [ib|] eqn:Ei; [|discriminate Hx].
    injection Hx as <-.
    rewrite (index_write m std ext i (if ext then false :: ib else ib) Hs Hi).
    2:{ unfold x_index. destruct (N.ltb_spec i std); [|lia]. rewrite Ei. reflexivity. }
    cbn [bind]. destruct (N.leb_spec std i); [lia|]. destruct ext; reflexivity.
  - destruct ext; [|discriminate Hx]. injection Hx as <-.
    rewrite (index_write m std true i (true :: x_normally_small (i - std)) Hs Hi).
    2:{ unfold x_index. destruct (N.ltb_spec i std); [lia|]. reflexivity. }
    cbn [bind]. destruct (N.leb_spec std i); [|lia].
    rewrite wrap_open_xo.
    + cbn [bind app]. reflexivity.
    + intros ->. apply Hk. right. split; [exact L|]. left. exact Eb.
    + destruct (N.lt_ge_cases ((bl b + 7) / 8) 16384) as [G|G]; [exact G|]. exfalso. apply Hk. right.
      split; [exact L|]. right. exists b. split; [exact Eb|exact G].
Qed.

(** * stages C and D: SEQUENCE / SET, without and with extension marker *)
Definition comp := (bool * bool * bits)%type.
Definition x_comps :=
  fix go (fs : list (fkind * ty)) (vals : list (option val)) : option (list comp) :=
    match fs, vals with
    | [], [] => Some []
    | (FReq, ft) :: fs', Some x :: vals' =>
        match x691 ft x, go fs' vals' with
        | Some b, Some r => Some ((false, true, b) :: r) | _, _ => None end
    | (FOpt, ft) :: fs', None :: vals' => option_map (cons (true, false, [])) (go fs' vals')
    | (FOpt, ft) :: fs', Some x :: vals' =>
        match x691 ft x, go fs' vals' with
        | Some b, Some r => Some ((true, true, b) :: r) | _, _ => None end
    | (FDef d, ft) :: fs', Some x :: vals' =>
        if val_eqb d x then option_map (cons (true, false, [])) (go fs' vals')
        else match x691 ft x, go fs' vals' with
             | Some b, Some r => Some ((true, true, b) :: r) | _, _ => None end
    | _, _ => None
    end.

Definition c_opt (c : comp) : bool := fst (fst c).
Definition c_present (c : comp) : bool := snd (fst c).
Definition c_bits (c : comp) : bits := snd c.

Definition x_seq_assemble (nroot : nat) (ea : option N) (cs : list comp) : bits :=
  let root := firstn nroot cs in
  let adds := skipn nroot cs in
  let any_add := existsb c_present adds in
  let ext_bit := match ea with Some _ => [any_add] | None => [] end in
  let preamble := flat_map (fun c : comp => if c_opt c then [c_present c] else []) root in
  let root_body := flat_map (fun c : comp => if c_present c then c_bits c else []) root in
  let add_part :=
    if any_add then
      x_normally_small_length (N.of_nat (length adds))
        ++ map c_present adds
        ++ flat_map (fun c : comp => if c_present c then x_open_type (c_bits c) else []) adds
    else [] in
  ext_bit ++ preamble ++ root_body ++ add_part.

Lemma x691_seq_eq fs so fc ea vals :
  x691 (TSeq fs so fc ea) (VSeq vals) =
  match x_comps fs vals with
  | None => None
  | Some cs => Some (x_seq_assemble (root_len fs ea) ea cs)
  end.
Proof. reflexivity. Qed.

Definition x_comp (f : fkind * ty) (ov : option val) : option comp :=
  match f, ov with
  | (FReq, ft), Some x => option_map (fun b => (false, true, b)) (x691 ft x)
  | (FOpt, ft), None => Some (true, false, [])
  | (FOpt, ft), Some x => option_map (fun b => (true, true, b)) (x691 ft x)
  | (FDef d, ft), Some x =>
      if val_eqb d x then Some (true, false, [])
      else option_map (fun b => (true, true, b)) (x691 ft x)
  | _, _ => None
  end.

Lemma x_comps_cons f fs ov vals :
  x_comps (f :: fs) (ov :: vals) =
  match x_comp f ov, x_comps fs vals with Some c, Some r => Some (c :: r) | _, _ => None end.
Proof.
  destruct f as [[| |d] ft], ov as [x|]; cbn [x_comps x_comp]; try reflexivity;
    try destruct (val_eqb d x); try destruct (x691 ft x); cbn [option_map]; try reflexivity;
    destruct (x_comps fs vals); reflexivity.
Qed.

Fixpoint comps_of (fs : list (fkind * ty)) (fes : list fenc) : list comp :=
  match fs, fes with
  | (k, _) :: fs', (p, b) :: fes' => (is_optk k, p, b) :: comps_of fs' fes'
  | _, _ => []
  end.

Definition fe_inv (fe : fenc) : Prop := fst fe = false -> snd fe = [].
Definition open_cond (k : fkind) (ft : ty) (b : bits) : Prop :=
  wraps k ft = true /\ b <> [] /\ (bl b + 7) / 8 < 16384.
Fixpoint adds_ok (ea : option N) (i : nat) (fs : list (fkind * ty)) (fes : list fenc) : Prop :=
  match fs, fes with
  | (k, ft) :: fs', (p, b) :: fes' =>
      (p = true -> is_addition ea i -> open_cond k ft b) /\ adds_ok ea (S i) fs' fes'
  | _, _ => True
  end.
Fixpoint open_ok (fs : list (fkind * ty)) (fes : list fenc) : Prop :=
  match fs, fes with
  | (k, ft) :: fs', (p, b) :: fes' => (p = true -> open_cond k ft b) /\ open_ok fs' fes'
  | _, _ => True
  end.

Definition known_field (ea : option N) (i : nat) (k : fkind) (ft : ty) (ov : option val) : Prop :=
  match ov with
  | Some x => encoded k x /\
              (Known_C02 ft x \/
               (is_addition ea i /\
                (mandatory_choice_addition_inline k ft \/ empty_open_type ft x \/ open_type_16k ft x)))
  | None => False
  end.
Definition any_known_f2 (ea : option N) :=
  fix any (fs : list (fkind * ty)) (vals : list (option val)) (i : nat) : Prop :=
    match fs, vals with
    | (k, ft) :: fs', ov :: vals' => known_field ea i k ft ov \/ any fs' vals' (S i)
    | _, _ => False
    end.
Definition all_prof_fields :=
  fix all (fs : list (fkind * ty)) : Prop :=
    match fs with [] => True | (_, ft) :: r => in_profile ft /\ all r end.

Lemma comp_field m ea i k ft ov c : Cprop m ft -> wf_ty ft -> in_profile ft ->
  match ov with Some x => wf_val ft x | None => k = FOpt end ->
  ~ known_field ea i k ft ov -> x_comp (k, ft) ov = Some c ->
  exists p b, enc_field m (k, ft) ov = Ok (p, b) /\ c = (is_optk k, p, b) /\ p = present k ov /\
    (p = false -> b = []) /\ (p = true -> is_addition ea i -> open_cond k ft b).
Proof.
  intros IH Hty Hp Hv Hk Hx. unfold known_field in Hk.
  assert (Hopen : forall x b, ov = Some x -> encoded k x -> x691 ft x = Some b -> is_addition ea i -> open_cond k ft b).
  { intros x b -> He Eb Ha. unfold open_cond. repeat split.
    - destruct (wraps k ft) eqn:Ew; [reflexivity|]. exfalso. apply Hk. split; [exact He|]. right. split; [exact Ha|].
      left. exact Ew.
    - intros ->. apply Hk. split; [exact He|]. right. split; [exact Ha|]. right. left. exact Eb.
    - destruct (N.lt_ge_cases ((bl b + 7) / 8) 16384) as [G|G]; [exact G|]. exfalso. apply Hk.
      split; [exact He|]. right. split; [exact Ha|]. right. right. exists b. split; [exact Eb|exact G]. }
  destruct k as [| |d], ov as [x|]; cbn [x_comp] in Hx; try discriminate Hv.
  - destruct (x691 ft x) as [b|] eqn:Eb; [|discriminate Hx]. cbn [option_map] in Hx. injection Hx as <-.
    exists true, b. cbn [enc_field]. rewrite (IH Hty Hp x b Hv ltac:(cbn [encoded] in Hk; tauto) Eb).
    split; [reflexivity|]. split; [reflexivity|]. split; [reflexivity|]. split; [discriminate|].
    intros _ Ha. apply (Hopen x b eq_refl I Eb Ha).
  - destruct (x691 ft x) as [b|] eqn:Eb; [|discriminate Hx]. cbn [option_map] in Hx. injection Hx as <-.
    exists true, b. cbn [enc_field]. rewrite (IH Hty Hp x b Hv ltac:(cbn [encoded] in Hk; tauto) Eb).
    split; [reflexivity|]. split; [reflexivity|]. split; [reflexivity|]. split; [discriminate|].
    intros _ Ha. apply (Hopen x b eq_refl I Eb Ha).
  - injection Hx as <-. exists false, []. cbn [enc_field].
    split; [reflexivity|]. split; [reflexivity|]. split; [reflexivity|]. split; [reflexivity|discriminate].
  - cbn [enc_field present]. destruct (val_eqb d x) eqn:Ed.
    + injection Hx as <-. exists false, [].
      split; [reflexivity|]. split; [reflexivity|]. split; [reflexivity|]. split; [reflexivity|discriminate].
    + destruct (x691 ft x) as [b|] eqn:Eb; [|discriminate Hx]. cbn [option_map] in Hx. injection Hx as <-.
      exists true, b. rewrite (IH Hty Hp x b Hv ltac:(cbn [encoded] in Hk; tauto) Eb).
      split; [reflexivity|]. split; [reflexivity|]. split; [reflexivity|]. split; [discriminate|].
      intros _ Ha. apply (Hopen x b eq_refl Ed Eb Ha).
Qed.

Lemma comps_x m ea : forall fs, Forall (fun f => Cprop m (snd f)) fs -> all_wf_fields fs -> all_prof_fields fs ->
  forall vals cs i, all_wf_vals fs vals -> ~ any_known_f2 ea fs vals i -> x_comps fs vals = Some cs ->
  exists fes, enc_fields m fs vals = Ok fes /\ cs = comps_of fs fes /\ length fes = length fs /\
    map fst fes = presents fs vals /\ Forall fe_inv fes /\ adds_ok ea i fs fes.
Proof.
  induction fs as [|[k ft] fs IHl]; intros F Hty Hp [|ov vals] cs i Hv Hk Hx; try contradiction Hv.
  - cbn in Hx. injection Hx as <-. exists []. cbn. repeat split; constructor.
  - apply Forall_cons_iff in F. destruct F as [HC F]. cbn [snd] in HC.
    cbn [all_wf_fields] in Hty. destruct Hty as (Ht & Hd & Hty).
    cbn [all_prof_fields] in Hp. destruct Hp as (Hp1 & Hp).
    cbn [all_wf_vals] in Hv. destruct Hv as [Hv1 Hv].
    cbn [any_known_f2] in Hk.
    rewrite x_comps_cons in Hx.
    destruct (x_comp (k, ft) ov) as [c|] eqn:Ec; [|discriminate Hx].
    destruct (x_comps fs vals) as [r|] eqn:Er; [|discriminate Hx]. injection Hx as <-.
    destruct (comp_field m ea i k ft ov c HC Ht Hp1 Hv1 ltac:(tauto) Ec) as (p & b & E1 & E2 & E3 & E4 & E5).
    destruct (IHl F Hty Hp vals r (S i) Hv ltac:(tauto) Er) as (fes & I1 & I2 & I3 & I4 & I5 & I6).
    exists ((p, b) :: fes). rewrite enc_fields_cons, E1, I1. cbn [bind].
    split; [reflexivity|]. split; [cbn [comps_of]; rewrite E2, I2; reflexivity|].
    split; [cbn [length]; lia|]. split; [cbn [map presents fst]; rewrite I4, E3; reflexivity|].
    split; [constructor; [exact E4|exact I5]|]. cbn [adds_ok]. split; [exact E5|exact I6].
Qed.

(** ** list facts about [comps_of] *)
Lemma comps_firstn : forall n fs fes, firstn n (comps_of fs fes) = comps_of (firstn n fs) (firstn n fes).
Proof.
  induction n as [|n IH]; intros fs fes; [reflexivity|].
  destruct fs as [|[k ft] fs]; [reflexivity|]. destruct fes as [|[p b] fes]; [reflexivity|].
  cbn [comps_of firstn]. rewrite IH. reflexivity.
Qed.
Lemma comps_skipn : forall n fs fes, skipn n (comps_of fs fes) = comps_of (skipn n fs) (skipn n fes).
Proof.
  induction n as [|n IH]; intros fs fes; [reflexivity|].
  destruct fs as [|[k ft] fs]; [reflexivity|]. destruct fes as [|[p b] fes].
  - cbn [comps_of skipn]. destruct (skipn n fs) as [|[? ?] ?]; reflexivity.
  - cbn [comps_of skipn]. apply IH.
Qed.
Lemma flags_comps : forall fs fes,
  flags_of fs fes = flat_map (fun c : comp => if c_opt c then [c_present c] else []) (comps_of fs fes).
Proof.
  induction fs as [|[k ft] fs IH]; intros [|[p b] fes]; try reflexivity.
  cbn [flags_of comps_of flat_map]. rewrite IH. reflexivity.
Qed.
Lemma payload_comps : forall fs fes, length fes = length fs -> Forall fe_inv fes ->
  payload_of fes = flat_map (fun c : comp => if c_present c then c_bits c else []) (comps_of fs fes).
Proof.
  unfold payload_of.
  induction fs as [|[k ft] fs IH]; intros [|[p b] fes] Hl F; try discriminate Hl; [reflexivity|].
  apply Forall_cons_iff in F. destruct F as [F1 F]. cbn [map concat comps_of flat_map snd].
  rewrite IH by (cbn [length] in Hl; try lia; exact F). unfold c_present, c_bits. cbn [fst snd].
  destruct p; [reflexivity|]. rewrite (F1 eq_refl : b = []). reflexivity.
Qed.
Lemma comps_present : forall fs fes, length fes = length fs -> map c_present (comps_of fs fes) = map fst fes.
Proof.
  induction fs as [|[k ft] fs IH]; intros [|[p b] fes] Hl; try discriminate Hl; [reflexivity|].
  cbn [comps_of map]. rewrite IH by (cbn [length] in Hl; lia). reflexivity.
Qed.
Lemma existsb_map {A} (f : A -> bool) l : existsb f l = existsb (fun p => p) (map f l).
Proof. induction l as [|a l IH]; [reflexivity|]. cbn [existsb map]. rewrite IH. reflexivity. Qed.

Lemma adds_ok_skipn ea : forall n fs fes i, adds_ok ea i fs fes -> adds_ok ea (i + n) (skipn n fs) (skipn n fes).
Proof.
  induction n as [|n IH]; intros fs fes i H; [rewrite Nat.add_0_r; exact H|].
  destruct fs as [|[k ft] fs]; [exact I|]. destruct fes as [|[p b] fes].
  - cbn [skipn]. destruct (skipn n fs) as [|[? ?] ?]; exact I.
  - cbn [skipn]. replace (i + S n)%nat with (S i + n)%nat by lia. apply IH. cbn [adds_ok] in H. tauto.
Qed.
Lemma adds_open e : forall fs fes i, (N.to_nat e < i)%nat -> adds_ok (Some e) i fs fes -> open_ok fs fes.
Proof.
  induction fs as [|[k ft] fs IH]; intros [|[p b] fes] i Hi H; try exact I.
  cbn [adds_ok open_ok] in *. destruct H as [H1 H2]. split.
  - intros Hp. apply H1; [exact Hp|]. cbn [is_addition]. exact Hi.
  - apply (IH fes (S i)); [lia|exact H2].
Qed.

Lemma add_payloads_x m : forall afs afe, open_ok afs afe -> Forall fe_inv afe ->
  add_payloads m afs afe =
  Ok (flat_map (fun c : comp => if c_present c then x_open_type (c_bits c) else []) (comps_of afs afe)).
Proof.
  induction afs as [|[k ft] afs IH]; intros [|[p b] afe] Ho F; try reflexivity.
  cbn [open_ok] in Ho. destruct Ho as [Ho1 Ho]. apply Forall_cons_iff in F. destruct F as [F1 F].
  cbn [add_payloads comps_of flat_map]. rewrite (IH afe Ho F). unfold c_present, c_bits. cbn [fst snd].
  destruct p.
  - destruct (Ho1 eq_refl) as (Hw & Hb & Hn). rewrite Hw. cbn [andb].
    rewrite (wrap_open_xo m b Hb Hn). reflexivity.
  - cbn [andb]. rewrite (F1 eq_refl : b = []). reflexivity.
Qed.

Lemma skipn_map {A B} (f : A -> B) : forall n l, skipn n (map f l) = map f (skipn n l).
Proof. induction n as [|n IH]; intros [|a l]; cbn [skipn map]; auto. Qed.
