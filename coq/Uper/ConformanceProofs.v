(* L2 conformance proofs (C02): the implementation-shaped reference encoder [enc] of Uper/Spec.v
   (= the writer model, by C01_writer_is_reference) against the clause-by-clause type-level
   transcription of X.691 in Uper/X691Type.v, for descriptors inside the conformance profile
   (DESIGN.md section 4) and outside the deviation classes [Known_C02]. *)
From A1 Require Export Uper.Spec Uper.X691Type.
From A1 Require Import Bits.Proofs Per.Proofs Uper.Proofs.
Require Import ZifyBool ZifyNat ZifyN.
Local Open Scope N_scope.

(** * the conformance profile at descriptor level *)
(* DESIGN.md section 4: INTEGER unconstrained / (A..B) / (A..B, ...): both bounds or none, an
   extension marker only after a constraint; SIZE(N) / SIZE(A..B) or none: both bounds or none *)
Fixpoint in_profile (t : ty) : Prop :=
  match t with
  | TBool | TNull | TEnum _ _ _ => True
  | TInt _ lo hi ext => is_some lo = is_some hi /\ (ext = true -> is_some lo = true)
  | TStr _ lo hi _ | TOctets lo hi _ | TBitStr lo hi _ => is_some lo = is_some hi
  | TListOf e lo hi _ => is_some lo = is_some hi /\ in_profile e
  | TSeq fs _ _ _ =>
      (fix all (fs : list (fkind * ty)) : Prop :=
         match fs with [] => True | (_, ft) :: r => in_profile ft /\ all r end) fs
  | TChoice alts _ _ =>
      (fix all (alts : list ty) : Prop :=
         match alts with [] => True | a :: r => in_profile a /\ all r end) alts
  end.

(** * the deviation classes *)
Definition in_root (lo hi : option N) (n : N) : Prop :=
  opt_or lo 0 <= n /\ match hi with Some u => n <= u | None => True end.
(* (1) F10-1 / F02-1: an in-root size under an upper bound of 64K or more *)
Definition size_upper_bound_64k (lo hi : option N) (n : N) : Prop :=
  exists u, hi = Some u /\ 65536 <= u /\ opt_or lo 0 <= n <= u.
(* (2) F02-2: 16K or more items under the unconstrained length form (no upper bound, or outside
   the root of an extensible size constraint) *)
Definition fragmentation_16k (lo hi : option N) (ext : bool) (n : N) : Prop :=
  16384 <= n /\ ((hi = None /\ opt_or lo 0 <= n) \/ (ext = true /\ ~ in_root lo hi n)).
Definition Known_C02_size (lo hi : option N) (ext : bool) (n : N) : Prop :=
  size_upper_bound_64k lo hi n \/ fragmentation_16k lo hi ext n.
(* (3) F02-3: the content of an open type encodes to zero bits *)
Definition empty_open_type (t : ty) (x : val) : Prop := x691 t x = Some [].
(* (2') F01-3 (reader side only): an open type with 16K octets of content or more *)
Definition open_type_16k (t : ty) (x : val) : Prop :=
  exists b, x691 t x = Some b /\ 16384 <= (bl b + 7) / 8.
(* (4) F02-4: a mandatory CHOICE component after the extension marker *)
Definition mandatory_choice_addition_inline (k : fkind) (ft : ty) : Prop := wraps k ft = false.

Definition present (k : fkind) (ov : option val) : bool :=
  match ov with
  | Some x => match k with FDef d => negb (val_eqb d x) | _ => true end
  | None => false
  end.
Fixpoint presents (fs : list (fkind * ty)) (vals : list (option val)) : list bool :=
  match fs, vals with
  | (k, _) :: fs', ov :: vals' => present k ov :: presents fs' vals'
  | _, _ => []
  end.
(* (5) more than 64 extension additions, one of them present; (6) the first addition absent and
   a later one present (the refusal sanctioned by C03) *)
Definition more_than_64_additions (ps : list bool) : Prop := existsb (fun p => p) ps = true /\ (64 < length ps)%nat.
Definition first_addition_absent (ps : list bool) : Prop :=
  match ps with p1 :: rest => p1 = false /\ existsb (fun p => p) rest = true | [] => False end.

Fixpoint Known_C02 (t : ty) (v : val) {struct t} : Prop :=
  match t, v with
  | TInt _ _ _ _, VInt z => ~ is_i64 z                      (* (7) INTEGER value outside i64 *)
  | TStr Utf8 _ _ _, VStr _ => False
  | TStr _ lo hi ext, VStr cs => Known_C02_size lo hi ext (N.of_nat (length cs))
  | TOctets lo hi _, VOctets bs => size_upper_bound_64k lo hi (blen bs)
  | TBitStr lo hi ext, VBits _ n => Known_C02_size lo hi ext n
  | TListOf e lo hi ext, VList vs =>
      Known_C02_size lo hi ext (N.of_nat (length vs)) \/
      (fix any (vs : list val) : Prop :=
         match vs with [] => False | x :: r => Known_C02 e x \/ any r end) vs
  | TSeq fs _ _ ea, VSeq vals =>
      (let ps := skipn (root_len fs ea) (presents fs vals) in
       more_than_64_additions ps \/ first_addition_absent ps) \/
      (fix any (fs : list (fkind * ty)) (vals : list (option val)) (i : nat) : Prop :=
         match fs, vals with
         | (k, ft) :: fs', ov :: vals' =>
             match ov with
             | Some x => encoded k x /\
                         (Known_C02 ft x \/
                          (is_addition ea i /\
                           (mandatory_choice_addition_inline k ft \/ empty_open_type ft x \/ open_type_16k ft x)))
             | None => False
             end \/ any fs' vals' (S i)
         | _, _ => False
         end) fs vals O
  | TChoice alts std _, VChoice i x =>
      (fix pick (alts : list ty) (n : nat) : Prop :=
         match alts, n with
         | a :: _, O => Known_C02 a x \/ (std <= i /\ (empty_open_type a x \/ open_type_16k a x))
         | _ :: r, S n' => pick r n'
         | [], _ => False
         end) alts (N.to_nat i)
  | _, _ => False
  end.

(** * the statement proved by induction on the type *)
Definition Cprop (m : mode) (t : ty) : Prop :=
  wf_ty t -> in_profile t -> forall v bs, wf_val t v -> ~ Known_C02 t v ->
  x691 t v = Some bs -> enc m t v = Ok bs.

(** * stage A: leaf types *)
Lemma to_i64_id z : is_i64 z -> to_i64 z = z.
Proof. apply u64_i64_roundtrip. Qed.

Lemma is_i64_dec z : is_i64 z \/ ~ is_i64 z.
Proof. unfold is_i64. lia. Qed.

Lemma C_int m k lo hi ext : Cprop m (TInt k lo hi ext).
Proof.
  intros (Hlo & Hhi & Hle) (Hp & Hpe) v bs Hv Hk Hx. destruct v; try discriminate Hx.
  cbn [Known_C02] in Hk. cbn [x691] in Hx. cbn [enc]. unfold int_enc.
  assert (Hz : is_i64 z) by (destruct (is_i64_dec z); tauto).
  rewrite (to_i64_id z Hz). unfold x_integer, in_range in Hx.
  destruct lo as [l|], hi as [h|]; cbn [is_some] in Hp; try discriminate Hp.
  - cbn [opt_or is_some negb andb].
    destruct ((l <=? z)%Z && (z <=? h)%Z) eqn:Er.
    + destruct (constrained_write m l h z Hlo Hhi ltac:(lia)) as (b & Ew & Ex).
      rewrite Ex in Hx. injection Hx as <-.
      destruct ext.
      * replace ((z <? l)%Z || (h <? z)%Z) with false by lia. rewrite Ew. reflexivity.
      * rewrite Ew. reflexivity.
    + destruct ext; [|discriminate Hx]. injection Hx as <-.
      replace ((z <? l)%Z || (h <? z)%Z) with true by lia.
      rewrite (unconstrained_write m z Hz). reflexivity.
  - destruct ext; [specialize (Hpe eq_refl); discriminate Hpe|].
    cbn [andb is_some negb] in *. injection Hx as <-.
    rewrite (unconstrained_write m z Hz). reflexivity.
Qed.

Lemma C_enum m vc std ext : Cprop m (TEnum vc std ext).
Proof.
  intros (H1 & H2 & H3 & H4) _ v bs Hv _ Hx. destruct v; try discriminate Hx.
  cbn [x691] in Hx. cbn [enc]. cbn [wf_val] in Hv.
  destruct (N.ltb_spec index vc); [|discriminate Hx].
  apply index_write; [unfold SIZE_LIMIT, two64 in *; lia|unfold SIZE_LIMIT, two64 in *; lia|exact Hx].
Qed.

Lemma not_sized_known lo hi n : is_some lo = is_some hi -> ~ size_upper_bound_64k lo hi n ->
  ~ Known_C10_sized_length lo hi n.
Proof.
  intros Hp Hk [C R]. unfold Known_C10_length_semi_or_large_bound in C.
  destruct hi as [u|].
  - apply Hk. exists u. cbn [opt_or] in R. repeat split; try lia.
  - destruct lo; [discriminate Hp|]. apply C. reflexivity.
Qed.

Lemma C_octets m lo hi ext : Cprop m (TOctets lo hi ext).
Proof.
  intros Hty Hp v bs Hv Hk Hx. destruct v; try discriminate Hx.
  cbn [x691] in Hx. cbn [enc]. cbn [wf_val] in Hv. cbn [Known_C02] in Hk. cbn [in_profile] in Hp.
  destruct Hv as [_ Hn].
  rewrite octetstring_write; [rewrite Hx; reflexivity|unfold SIZE_LIMIT, two63 in *; lia|].
  apply not_sized_known; assumption.
Qed.

(* outside the two size classes a value that X.691 can encode does not use a length form the
   crate gets wrong *)
Lemma sized_some_not_16k unit lo hi ext n body bs : is_some lo = is_some hi ->
  ~ Known_C02_size lo hi ext n -> x_sized_run unit lo hi ext n body = Some bs ->
  ~ Known_C10_bitstring_16k lo hi n.
Proof.
  intros Hp Hk Hx [H16 Hn]. rewrite x_sized_run_eq in Hx. cbv zeta in Hx.
  destruct hi as [u|].
  - destruct ((opt_or lo 0 <=? n) && (n <=? u)) eqn:Er.
    + destruct (N.lt_ge_cases u 65536) as [L|L].
      * apply Hn. exists u. repeat split; lia.
      * apply Hk. left. exists u. repeat split; lia.
    + destruct ext; [|discriminate Hx]. apply Hk. right. split; [exact H16|]. right. split; [reflexivity|].
      unfold in_root. lia.
  - destruct lo; [discriminate Hp|]. apply Hk. right. split; [exact H16|]. left. cbn [opt_or]. split; [reflexivity|lia].
Qed.

Lemma C_bitstr m lo hi ext : Cprop m (TBitStr lo hi ext).
Proof.
  intros Hty Hp v bs Hv Hk Hx. destruct v; try discriminate Hx.
  cbn [x691] in Hx. cbn [enc]. cbn [wf_val] in Hv. cbn [Known_C02] in Hk. cbn [in_profile] in Hp.
  destruct Hv as [Hc Hn]. destruct (canonical_content _ _ Hc) as (Hl & _ & Hle). cbv zeta in Hl.
  unfold x_bitstring in Hx. fold (bl (firstn (N.to_nat bit_len) (bits_of_bytes bytes))) in Hx. rewrite Hl in Hx.
  rewrite bitstring_write.
  - cbn [N.to_nat skipn]. unfold x_bitstring.
    fold (bl (firstn (N.to_nat bit_len) (bits_of_bytes bytes))). rewrite Hl, Hx. reflexivity.
  - lia.
  - unfold SIZE_LIMIT, two63 in *; lia.
  - apply not_sized_known; [exact Hp|]. intros C. apply Hk. left. exact C.
  - eapply sized_some_not_16k; eassumption.
Qed.

(** ** count-prefixed runs: the header (extension bit and length determinant) *)
Definition x_hdr (lo hi : option N) (ext : bool) (n : N) : option bits :=
  let l := opt_or lo 0 in
  if (l <=? n) && (match hi with Some u => n <=? u | None => true end) then
    match hi with
    | Some u => option_map (app (if ext then [false] else []))
                  (x_constrained (Z.of_N l) (Z.of_N u) (Z.of_N n))
    | None => Some ((if ext then [false] else []) ++ x_len_short n)
    end
  else if ext then Some (true :: x_len_short n) else None.

Lemma len_hdr_x m lo hi ext up n : is_some lo = is_some hi -> n <= up ->
  ~ Known_C02_size lo hi ext n ->
  len_hdr m ext lo hi up n = match x_hdr lo hi ext n with Some h => Ok h | None => Err E_SIZE_RANGE end.
Proof.
  intros Hp Hup Hk. unfold len_hdr, x_hdr. cbv zeta.
  destruct hi as [u|]; cbn [opt_or].
  - destruct ((opt_or lo 0 <=? n) && (n <=? u)) eqn:Er.
    + replace ((n <? opt_or lo 0) || (u <? n)) with false by lia.
      assert (Hu : u < 65536).
      { destruct (N.lt_ge_cases u 65536) as [L|L]; [exact L|]. exfalso. apply Hk. left. exists u. repeat split; lia. }
      rewrite w_len_constrained by exact Hu.
      destruct (nnbi_write m lo (Some u) n) as (b & Ew & Ex);
        [right; discriminate|cbn [opt_or]; unfold two64; lia|cbn [opt_or]; lia|].
      cbn [opt_or] in Ex. rewrite Ew, Ex. reflexivity.
    + replace ((n <? opt_or lo 0) || (u <? n)) with true by lia.
      destruct ext; cbn [negb]; [|reflexivity].
      rewrite w_len_unc. cbn [bind]. rewrite x_len_first_short; [reflexivity|].
      destruct (N.lt_ge_cases n 16384) as [L|L]; [exact L|]. exfalso. apply Hk. right. split; [exact L|].
      right. split; [reflexivity|]. unfold in_root. lia.
  - destruct lo; [discriminate Hp|]. cbn [opt_or].
    replace ((n <? 0) || (up <? n)) with false by lia. cbn [andb].
    destruct (N.leb_spec 0 n); [|lia].
    rewrite w_len_unc. cbn [bind]. rewrite x_len_first_short; [reflexivity|].
    destruct (N.lt_ge_cases n 16384) as [L|L]; [exact L|]. exfalso. apply Hk. right. split; [exact L|].
    left. cbn [opt_or]. split; [reflexivity|lia].
Qed.

Lemma x_constrained_refl u : x_constrained u u u = Some [].
Proof. unfold x_constrained. rewrite Z.leb_refl. cbn [andb]. rewrite Z.sub_diag. reflexivity. Qed.

Lemma sized_run_hdr unit lo hi ext n body : is_some lo = is_some hi ->
  ~ Known_C02_size lo hi ext n -> (n = 0 -> body = []) ->
  x_sized_run unit lo hi ext n body = option_map (fun h => h ++ body) (x_hdr lo hi ext n).
Proof.
  intros Hp Hk Hb. rewrite x_sized_run_eq. unfold x_hdr. cbv zeta.
  destruct hi as [u|].
  - destruct ((opt_or lo 0 <=? n) && (n <=? u)) eqn:Er.
    + assert (Hu : u < 65536).
      { destruct (N.lt_ge_cases u 65536) as [L|L]; [exact L|]. exfalso. apply Hk. left. exists u. repeat split; lia. }
      destruct (N.eqb_spec u 0) as [E0|E0].
      * assert (n = 0) by lia. assert (opt_or lo 0 = 0) by lia. subst u. rewrite (Hb H), H, H0.
        change (Z.of_N 0) with 0%Z. rewrite x_constrained_refl. cbn [option_map]. rewrite !app_nil_r. reflexivity.
      * destruct (N.ltb_spec u 65536); [|lia]. destruct (N.eqb_spec (opt_or lo 0) u) as [E|E]; cbn [andb].
        -- assert (n = u) by lia. subst n. rewrite E, x_constrained_refl. cbn [option_map]. rewrite app_nil_r. reflexivity.
        -- destruct (x_constrained (Z.of_N (opt_or lo 0)) (Z.of_N u) (Z.of_N n)); cbn [option_map]; [|reflexivity].
           rewrite app_assoc. reflexivity.
    + destruct ext; [|reflexivity]. cbn [option_map app]. rewrite x_run_short; [reflexivity|].
      destruct (N.lt_ge_cases n 16384) as [L|L]; [exact L|]. exfalso. apply Hk. right. split; [exact L|].
      right. split; [reflexivity|]. unfold in_root. lia.
  - destruct lo; [discriminate Hp|]. cbn [opt_or]. destruct (N.leb_spec 0 n); [|lia]. cbn [andb option_map].
    rewrite x_run_short; [rewrite app_assoc; reflexivity|].
    destruct (N.lt_ge_cases n 16384) as [L|L]; [exact L|]. exfalso. apply Hk. right. split; [exact L|].
    left. cbn [opt_or]. split; [reflexivity|lia].
Qed.

(** ** restricted character strings *)
Lemma find_invalid_forallb c cs : find_invalid c cs = negb (forallb (cs_valid c) cs).
Proof.
  induction cs as [|ch cs IH]; [reflexivity|]. cbn [find_invalid forallb]. rewrite IH.
  destruct (cs_valid c ch), (forallb (cs_valid c) cs); reflexivity.
Qed.

Lemma char_bits_x c ch : c <> Utf8 -> cs_valid c ch = true -> char_bits c ch = x_char c ch.
Proof.
  intros Hc Hv. pose proof (cs_valid_ascii c ch Hc Hv) as Ha.
  assert (Em : ch mod 256 = ch) by (apply N.mod_small; lia).
  destruct c; try congruence; unfold char_bits, x_char; rewrite Em.
  1,3,4: rewrite byte_bits_bov; change 8%nat with (1 + 7)%nat; rewrite bov_skipn; reflexivity.
  cbn [cs_valid] in Hv. rewrite byte_bits_bov. change 8%nat with (4 + 4)%nat. rewrite bov_skipn.
  unfold field. change (N.to_nat 4) with 4%nat. f_equal.
  destruct (N.eqb_spec (ch - 32) 0), (N.eqb_spec ch 32); lia.
Qed.

Lemma char_bits_all c cs : c <> Utf8 -> forallb (cs_valid c) cs = true ->
  flat_map (char_bits c) cs = flat_map (x_char c) cs.
Proof.
  intros Hc. induction cs as [|ch cs IH]; [reflexivity|]. cbn [forallb flat_map]. intros H.
  apply andb_true_iff in H. destruct H as [H1 H2]. rewrite (char_bits_x c ch Hc H1), (IH H2). reflexivity.
Qed.

Lemma C_str m c lo hi ext : Cprop m (TStr c lo hi ext).
Proof.
  intros Hty Hp v bs Hv Hk Hx. destruct v; try (exfalso; exact Hv).
  cbn [wf_val] in Hv. cbn [in_profile] in Hp. destruct Hv as [Hs Hn].
  assert (Hlen : N.of_nat (length chars) < SIZE_LIMIT).
  { pose proof (utf8_encode_len chars). unfold blen in Hn. lia. }
  destruct (match c with Utf8 => true | _ => false end) eqn:Ec.
  - destruct c; try discriminate Ec. cbn [x691] in Hx. cbn [enc].
    assert (Eo : x_octetstring None None false (utf8_encode chars) = Some bs).
    { destruct (in_size lo hi (N.of_nat (length chars)) || ext); [exact Hx|discriminate Hx]. }
    assert (Ei : negb ext && ((N.of_nat (length chars) <? opt_or lo 0) || (opt_or hi U64_MAX <? N.of_nat (length chars))) = false).
    { destruct ext; [reflexivity|]. rewrite orb_false_r in Hx. cbn [negb andb].
      destruct (in_size lo hi (N.of_nat (length chars))) eqn:Es; [|discriminate Hx].
      unfold in_size in Es. unfold U64_MAX, two64, SIZE_LIMIT in *. destruct lo, hi; cbn [opt_or]; lia. }
    rewrite Ei. rewrite octetstring_write; [rewrite Eo; reflexivity|unfold SIZE_LIMIT, two63 in *; lia|].
    intros [C _]. apply C. reflexivity.
  - assert (Hc : c <> Utf8) by (intros ->; discriminate Ec).
    assert (Hx' : (if forallb (cs_valid c) chars
                   then x_run (char_unit c) lo hi ext (N.of_nat (length chars)) (flat_map (x_char c) chars)
                   else None) = Some bs) by (destruct c; try discriminate Ec; exact Hx).
    assert (He : enc m (TStr c lo hi ext) (VStr chars) =
                 if find_invalid c chars then Err E_INVALID_STRING else
                 let! h := len_hdr m ext lo hi U64_MAX (N.of_nat (length chars)) in
                 Ok (h ++ flat_map (char_bits c) chars)) by (destruct c; try discriminate Ec; reflexivity).
    assert (Hk' : ~ Known_C02_size lo hi ext (N.of_nat (length chars))) by (destruct c; try discriminate Ec; exact Hk).
    rewrite He, find_invalid_forallb.
    destruct (forallb (cs_valid c) chars) eqn:Ef; [|discriminate Hx']. cbn [negb].
    unfold x_run in Hx'. rewrite sized_run_hdr in Hx'; [|exact Hp|exact Hk'|].
    2:{ intros E0. destruct chars; [reflexivity|cbn [length] in E0; lia]. }
    rewrite len_hdr_x; [|exact Hp|unfold U64_MAX, two64, SIZE_LIMIT in *; lia|exact Hk'].
    destruct (x_hdr lo hi ext (N.of_nat (length chars))) as [h|]; [|discriminate Hx'].
    cbn [option_map] in Hx'. injection Hx' as <-. cbn [bind]. rewrite (char_bits_all c chars Hc Ef). reflexivity.
Qed.

(** * stage B: SEQUENCE OF and CHOICE *)
Definition x_list_form (lo hi : option N) (ext : bool) (n : N) (body : bits) : option bits :=
  let small := n <? 16384 in
  let l := match lo with Some l => l | None => 0 end in
  let in_root := in_size lo hi n in
  let unc := if small then Some (x_len_short n ++ body) else None in
  if in_root then
    let pre := if ext then [false] else [] in
    match hi with
    | Some u =>
        if u <? 65536 then
          if (l =? u) then Some (pre ++ body)
          else match x_constrained (Z.of_N l) (Z.of_N u) (Z.of_N n) with
               | Some lenb => Some (pre ++ lenb ++ body) | None => None end
        else option_map (app pre) unc
    | None => option_map (app pre) unc
    end
  else if ext then option_map (cons true) unc
  else None.

Lemma x691_list_eq e lo hi ext vs :
  x691 (TListOf e lo hi ext) (VList vs) =
  match x_all (x691 e) vs with
  | Some body => x_list_form lo hi ext (N.of_nat (length vs)) body
  | None => None
  end.
Proof. reflexivity. Qed.

Lemma list_form_hdr lo hi ext n body : is_some lo = is_some hi ->
  ~ Known_C02_size lo hi ext n ->
  x_list_form lo hi ext n body = option_map (fun h => h ++ body) (x_hdr lo hi ext n).
Proof.
  intros Hp Hk. unfold x_list_form, x_hdr, in_size. cbv zeta.
  destruct lo as [l|], hi as [u|]; try discriminate Hp; cbn [opt_or].
  - destruct ((l <=? n) && (n <=? u)) eqn:Er.
    + assert (Hu : u < 65536).
      { destruct (N.lt_ge_cases u 65536) as [L|L]; [exact L|]. exfalso. apply Hk. left. exists u. cbn [opt_or]. repeat split; lia. }
      destruct (N.ltb_spec u 65536); [|lia]. destruct (N.eqb_spec l u) as [E|E].
      * assert (n = u) by lia. subst n l. rewrite x_constrained_refl. cbn [option_map]. rewrite app_nil_r. reflexivity.
      * destruct (x_constrained (Z.of_N l) (Z.of_N u) (Z.of_N n)); cbn [option_map]; [|reflexivity].
        rewrite app_assoc. reflexivity.
    + destruct ext; [|reflexivity].
      assert (Hn : n < 16384).
      { destruct (N.lt_ge_cases n 16384) as [L|L]; [exact L|]. exfalso. apply Hk. right. split; [exact L|].
        right. split; [reflexivity|]. unfold in_root. cbn [opt_or]. lia. }
      destruct (N.ltb_spec n 16384); [|lia]. reflexivity.
  - assert (Hn : n < 16384).
    { destruct (N.lt_ge_cases n 16384) as [L|L]; [exact L|]. exfalso. apply Hk. right. split; [exact L|].
      left. cbn [opt_or]. split; [reflexivity|lia]. }
    destruct (N.ltb_spec n 16384); [|lia]. destruct (N.leb_spec 0 n); [|lia]. cbn [andb option_map].
    rewrite app_assoc. reflexivity.
Qed.

Definition any_known2 (e : ty) :=
  fix any (vs : list val) : Prop := match vs with [] => False | x :: r => Known_C02 e x \/ any r end.

Lemma elems_x m e : Cprop m e -> wf_ty e -> in_profile e -> forall vs body,
  all_wf_val e vs -> ~ any_known2 e vs -> x_all (x691 e) vs = Some body -> enc_elems m e vs = Ok body.
Proof.
  intros IH Hty Hp. induction vs as [|x vs IHl]; intros body Hv Hk Hx.
  - cbn in Hx. injection Hx as <-. reflexivity.
  - cbn [x_all] in Hx. cbn [all_wf_val] in Hv. destruct Hv as [Hv1 Hv2]. cbn [any_known2] in Hk.
    destruct (x691 e x) as [a|] eqn:Ea; [|discriminate Hx].
    destruct (x_all (x691 e) vs) as [b|] eqn:Eb; [|discriminate Hx]. injection Hx as <-.
    cbn [enc_elems]. rewrite (IH Hty Hp x a Hv1 ltac:(tauto) Ea). cbn [bind].
    change ((fix elems (vs0 : list val) : res bits :=
               match vs0 with
               | [] => Ok []
               | x0 :: r => let! a0 := enc m e x0 in let! b0 := elems r in Ok (a0 ++ b0)
               end) vs) with (enc_elems m e vs).
    rewrite (IHl b Hv2 ltac:(tauto) eq_refl). reflexivity.
Qed.

Lemma C_list m e lo hi ext : Cprop m e -> Cprop m (TListOf e lo hi ext).
Proof.
  intros IH (Hb & Hty) (Hp & Hpe) v bs Hv Hk Hx. destruct v; try discriminate Hx.
  rewrite x691_list_eq in Hx. cbn [wf_val] in Hv. destruct Hv as [Hn Hv]. cbn [Known_C02] in Hk.
  destruct (x_all (x691 e) vs) as [body|] eqn:Eb; [|discriminate Hx].
  rewrite list_form_hdr in Hx; [|exact Hp|tauto].
  change (enc m (TListOf e lo hi ext) (VList vs)) with
    (let! h := len_hdr m ext lo hi I64_MAX (N.of_nat (length vs)) in
     let! body := enc_elems m e vs in Ok (h ++ body)).
  rewrite len_hdr_x; [|exact Hp|unfold I64_MAX, two63, SIZE_LIMIT in *; lia|tauto].
  destruct (x_hdr lo hi ext (N.of_nat (length vs))) as [h|]; [|discriminate Hx].
  cbn [option_map] in Hx. injection Hx as <-. cbn [bind].
  rewrite (elems_x m e IH Hty Hpe vs body Hv ltac:(tauto) Eb). reflexivity.
Qed.

(** ** open types *)
Lemma x_open_type_eq b : b <> [] ->
  x_open_type b = x_unconstrained_length_run 8 ((bl b + 7) / 8) (b ++ repeat false (pad8 (length b))).
Proof.
  intros Hb. unfold x_open_type.
  destruct (bytes_of_bits b) as [|o os] eqn:E.
  - exfalso. pose proof (bytes_of_bits_len b) as L. rewrite E in L. cbn in L.
    destruct b as [|c b]; [congruence|]. unfold bl in L. cbn [length] in L.
    assert (1 <= (N.of_nat (S (length b)) + 7) / 8) by (apply N.div_le_lower_bound; lia). lia.
  - rewrite <- E. fold (blen (bytes_of_bits b)). rewrite bytes_of_bits_len, bits_of_bytes_of_bits. reflexivity.
Qed.

Lemma wrap_open_xo m b : b <> [] -> (bl b + 7) / 8 < 16384 -> wrap_open m b = Ok (x_open_type b).
Proof.
  intros Hb Hn. rewrite x_open_type_eq by exact Hb. apply wrap_open_x.
  pose proof (N.div_mod (bl b + 7) 8 ltac:(lia)). pose proof (N.mod_lt (bl b + 7) 8 ltac:(lia)).
  unfold two63. lia.
Qed.

(** ** CHOICE *)
Definition x_pick (x : val) :=
  fix pick (alts : list ty) (k : nat) : option bits :=
    match alts, k with
    | a :: _, O => x691 a x
    | _ :: r, S k' => pick r k'
    | [], _ => None
    end.
Definition known_pick (std i : N) (x : val) :=
  fix pick (alts : list ty) (n : nat) : Prop :=
    match alts, n with
    | a :: _, O => Known_C02 a x \/ (std <= i /\ (empty_open_type a x \/ open_type_16k a x))
    | _ :: r, S n' => pick r n'
    | [], _ => False
    end.
Definition all_in_profile :=
  fix all (alts : list ty) : Prop := match alts with [] => True | a :: r => in_profile a /\ all r end.

Lemma x_pick_nth x : forall alts k,
  x_pick x alts k = match nth_error alts k with Some a => x691 a x | None => None end.
Proof. induction alts as [|a alts IH]; intros [|k]; cbn [x_pick nth_error]; auto. Qed.
Lemma enc_pick_nth m x : forall alts k,
  enc_pick m x alts k = match nth_error alts k with Some a => enc m a x | None => Panic P_OTHER end.
Proof. induction alts as [|a alts IH]; intros [|k]; cbn [enc_pick nth_error]; auto. Qed.
Lemma pick_wf_nth x : forall alts k,
  pick_wf x alts k = match nth_error alts k with Some a => wf_val a x | None => False end.
Proof. induction alts as [|a alts IH]; intros [|k]; cbn [pick_wf nth_error]; auto. Qed.
Lemma known_pick_nth std i x : forall alts k,
  known_pick std i x alts k =
  match nth_error alts k with
  | Some a => Known_C02 a x \/ (std <= i /\ (empty_open_type a x \/ open_type_16k a x))
  | None => False end.
Proof. induction alts as [|a alts IH]; intros [|k]; cbn [known_pick nth_error]; auto. Qed.
Lemma all_in_profile_Forall alts : all_in_profile alts -> Forall in_profile alts.
Proof. induction alts as [|a alts IH]; intros H; constructor; cbn in H; tauto. Qed.

Lemma x691_choice_eq alts std ext i x :
  x691 (TChoice alts std ext) (VChoice i x) =
  if N.of_nat (length alts) <=? i then None else
  match x_pick x alts (N.to_nat i) with
  | Some b =>
      if i <? std then
        match x_constrained 0 (Z.of_N std - 1) (Z.of_N i) with
        | Some ib => Some ((if ext then [false] else []) ++ ib ++ b)
        | None => None
        end
      else if ext then Some (true :: x_normally_small (i - std) ++ x_open_type b)
      else None
  | None => None
  end.
Proof. reflexivity. Qed.

Lemma C_choice m alts std ext : Forall (Cprop m) alts -> Cprop m (TChoice alts std ext).
Proof.
  intros IH (H1 & H2 & H3 & H4 & Hty) Hp v bs Hv Hk Hx. destruct v; try discriminate Hx.
  rename index into i, v into x.
  rewrite x691_choice_eq in Hx.
  change (wf_val (TChoice alts std ext) (VChoice i x)) with (pick_wf x alts (N.to_nat i)) in Hv.
  change (Known_C02 (TChoice alts std ext) (VChoice i x)) with (known_pick std i x alts (N.to_nat i)) in Hk.
  change (enc m (TChoice alts std ext) (VChoice i x)) with
    (let! ib := w_enumeration_index m std ext i in
     let! cb := enc_pick m x alts (N.to_nat i) in
     if std <=? i then let! wb := wrap_open m cb in Ok (ib ++ wb) else Ok (ib ++ cb)).
  rewrite pick_wf_nth in Hv. rewrite known_pick_nth in Hk. rewrite x_pick_nth in Hx. rewrite enc_pick_nth.
  destruct (N.leb_spec (N.of_nat (length alts)) i) as [Li|Li]; [discriminate Hx|].
  destruct (nth_error alts (N.to_nat i)) as [a|] eqn:En; [|contradiction Hv].
  pose proof (nth_error_In _ _ En) as Hin.
  assert (Ca : Cprop m a) by (rewrite Forall_forall in IH; apply IH; exact Hin).
  assert (Wa : wf_ty a) by (pose proof (all_wf_ty_Forall alts Hty) as F; rewrite Forall_forall in F; apply F; exact Hin).
  assert (Pa : in_profile a) by (pose proof (all_in_profile_Forall alts Hp) as F; rewrite Forall_forall in F; apply F; exact Hin).
  destruct (x691 a x) as [b|] eqn:Eb; [|discriminate Hx].
  rewrite (Ca Wa Pa x b Hv ltac:(tauto) Eb).
  assert (Hs : std < two64 /\ i < two64) by (unfold SIZE_LIMIT, two64 in *; lia). destruct Hs as [Hs Hi].
  destruct (N.ltb_spec i std) as [L|L].
  - destruct (x_constrained 0 (Z.of_N std - 1) (Z.of_N i)) as [ib|] eqn:Ei; [|discriminate Hx].
    injection Hx as <-.
    rewrite (index_write m std ext i (if ext then false :: ib else ib) Hs Hi).
    2:{ unfold x_index. destruct (N.ltb_spec i std); [|lia]. rewrite Ei. reflexivity. }
    cbn [bind]. destruct (N.leb_spec std i); [lia|]. destruct ext; reflexivity.
  - destruct ext; [|discriminate Hx]. injection Hx as <-.
    rewrite (index_write m std true i (true :: x_normally_small (i - std)) Hs Hi).
    2:{ unfold x_index. destruct (N.ltb_spec i std); [lia|]. reflexivity. }
    cbn [bind]. destruct (N.leb_spec std i); [|lia].
    rewrite wrap_open_xo.
    + cbn [bind app]. reflexivity.
    + intros ->. apply Hk. right. split; [exact L|]. left. exact Eb.
    + destruct (N.lt_ge_cases ((bl b + 7) / 8) 16384) as [G|G]; [exact G|]. exfalso. apply Hk. right.
      split; [exact L|]. right. exists b. split; [exact Eb|exact G].
Qed.

(** * stages C and D: SEQUENCE / SET, without and with extension marker *)
Definition comp := (bool * bool * bits)%type.
Definition x_comps :=
  fix go (fs : list (fkind * ty)) (vals : list (option val)) : option (list comp) :=
    match fs, vals with
    | [], [] => Some []
    | (FReq, ft) :: fs', Some x :: vals' =>
        match x691 ft x, go fs' vals' with
        | Some b, Some r => Some ((false, true, b) :: r) | _, _ => None end
    | (FOpt, ft) :: fs', None :: vals' => option_map (cons (true, false, [])) (go fs' vals')
    | (FOpt, ft) :: fs', Some x :: vals' =>
        match x691 ft x, go fs' vals' with
        | Some b, Some r => Some ((true, true, b) :: r) | _, _ => None end
    | (FDef d, ft) :: fs', Some x :: vals' =>
        if val_eqb d x then option_map (cons (true, false, [])) (go fs' vals')
        else match x691 ft x, go fs' vals' with
             | Some b, Some r => Some ((true, true, b) :: r) | _, _ => None end
    | _, _ => None
    end.

Definition c_opt (c : comp) : bool := fst (fst c).
Definition c_present (c : comp) : bool := snd (fst c).
Definition c_bits (c : comp) : bits := snd c.

Definition x_seq_assemble (nroot : nat) (ea : option N) (cs : list comp) : bits :=
  let root := firstn nroot cs in
  let adds := skipn nroot cs in
  let any_add := existsb c_present adds in
  let ext_bit := match ea with Some _ => [any_add] | None => [] end in
  let preamble := flat_map (fun c : comp => if c_opt c then [c_present c] else []) root in
  let root_body := flat_map (fun c : comp => if c_present c then c_bits c else []) root in
  let add_part :=
    if any_add then
      x_normally_small_length (N.of_nat (length adds))
        ++ map c_present adds
        ++ flat_map (fun c : comp => if c_present c then x_open_type (c_bits c) else []) adds
    else [] in
  ext_bit ++ preamble ++ root_body ++ add_part.

Lemma x691_seq_eq fs so fc ea vals :
  x691 (TSeq fs so fc ea) (VSeq vals) =
  match x_comps fs vals with
  | None => None
  | Some cs => Some (x_seq_assemble (root_len fs ea) ea cs)
  end.
Proof. reflexivity. Qed.

Definition x_comp (f : fkind * ty) (ov : option val) : option comp :=
  match f, ov with
  | (FReq, ft), Some x => option_map (fun b => (false, true, b)) (x691 ft x)
  | (FOpt, ft), None => Some (true, false, [])
  | (FOpt, ft), Some x => option_map (fun b => (true, true, b)) (x691 ft x)
  | (FDef d, ft), Some x =>
      if val_eqb d x then Some (true, false, [])
      else option_map (fun b => (true, true, b)) (x691 ft x)
  | _, _ => None
  end.

Lemma x_comps_cons f fs ov vals :
  x_comps (f :: fs) (ov :: vals) =
  match x_comp f ov, x_comps fs vals with Some c, Some r => Some (c :: r) | _, _ => None end.
Proof.
  destruct f as [[| |d] ft], ov as [x|]; cbn [x_comps x_comp]; try reflexivity;
    try destruct (val_eqb d x); try destruct (x691 ft x); cbn [option_map]; try reflexivity;
    destruct (x_comps fs vals); reflexivity.
Qed.

Fixpoint comps_of (fs : list (fkind * ty)) (fes : list fenc) : list comp :=
  match fs, fes with
  | (k, _) :: fs', (p, b) :: fes' => (is_optk k, p, b) :: comps_of fs' fes'
  | _, _ => []
  end.

Definition fe_inv (fe : fenc) : Prop := fst fe = false -> snd fe = [].
Definition open_cond (k : fkind) (ft : ty) (b : bits) : Prop :=
  wraps k ft = true /\ b <> [] /\ (bl b + 7) / 8 < 16384.
Fixpoint adds_ok (ea : option N) (i : nat) (fs : list (fkind * ty)) (fes : list fenc) : Prop :=
  match fs, fes with
  | (k, ft) :: fs', (p, b) :: fes' =>
      (p = true -> is_addition ea i -> open_cond k ft b) /\ adds_ok ea (S i) fs' fes'
  | _, _ => True
  end.
Fixpoint open_ok (fs : list (fkind * ty)) (fes : list fenc) : Prop :=
  match fs, fes with
  | (k, ft) :: fs', (p, b) :: fes' => (p = true -> open_cond k ft b) /\ open_ok fs' fes'
  | _, _ => True
  end.

Definition known_field (ea : option N) (i : nat) (k : fkind) (ft : ty) (ov : option val) : Prop :=
  match ov with
  | Some x => encoded k x /\
              (Known_C02 ft x \/
               (is_addition ea i /\
                (mandatory_choice_addition_inline k ft \/ empty_open_type ft x \/ open_type_16k ft x)))
  | None => False
  end.
Definition any_known_f2 (ea : option N) :=
  fix any (fs : list (fkind * ty)) (vals : list (option val)) (i : nat) : Prop :=
    match fs, vals with
    | (k, ft) :: fs', ov :: vals' => known_field ea i k ft ov \/ any fs' vals' (S i)
    | _, _ => False
    end.
Definition all_prof_fields :=
  fix all (fs : list (fkind * ty)) : Prop :=
    match fs with [] => True | (_, ft) :: r => in_profile ft /\ all r end.

Lemma comp_field m ea i k ft ov c : Cprop m ft -> wf_ty ft -> in_profile ft ->
  match ov with Some x => wf_val ft x | None => k = FOpt end ->
  ~ known_field ea i k ft ov -> x_comp (k, ft) ov = Some c ->
  exists p b, enc_field m (k, ft) ov = Ok (p, b) /\ c = (is_optk k, p, b) /\ p = present k ov /\
    (p = false -> b = []) /\ (p = true -> is_addition ea i -> open_cond k ft b).
Proof.
  intros IH Hty Hp Hv Hk Hx. unfold known_field in Hk.
  assert (Hopen : forall x b, ov = Some x -> encoded k x -> x691 ft x = Some b -> is_addition ea i -> open_cond k ft b).
  { intros x b -> He Eb Ha. unfold open_cond. repeat split.
    - destruct (wraps k ft) eqn:Ew; [reflexivity|]. exfalso. apply Hk. split; [exact He|]. right. split; [exact Ha|].
      left. exact Ew.
    - intros ->. apply Hk. split; [exact He|]. right. split; [exact Ha|]. right. left. exact Eb.
    - destruct (N.lt_ge_cases ((bl b + 7) / 8) 16384) as [G|G]; [exact G|]. exfalso. apply Hk.
      split; [exact He|]. right. split; [exact Ha|]. right. right. exists b. split; [exact Eb|exact G]. }
  destruct k as [| |d], ov as [x|]; cbn [x_comp] in Hx; try discriminate Hv.
  - destruct (x691 ft x) as [b|] eqn:Eb; [|discriminate Hx]. cbn [option_map] in Hx. injection Hx as <-.
    exists true, b. cbn [enc_field]. rewrite (IH Hty Hp x b Hv ltac:(cbn [encoded] in Hk; tauto) Eb).
    split; [reflexivity|]. split; [reflexivity|]. split; [reflexivity|]. split; [discriminate|].
    intros _ Ha. apply (Hopen x b eq_refl I Eb Ha).
  - destruct (x691 ft x) as [b|] eqn:Eb; [|discriminate Hx]. cbn [option_map] in Hx. injection Hx as <-.
    exists true, b. cbn [enc_field]. rewrite (IH Hty Hp x b Hv ltac:(cbn [encoded] in Hk; tauto) Eb).
    split; [reflexivity|]. split; [reflexivity|]. split; [reflexivity|]. split; [discriminate|].
    intros _ Ha. apply (Hopen x b eq_refl I Eb Ha).
  - injection Hx as <-. exists false, []. cbn [enc_field].
    split; [reflexivity|]. split; [reflexivity|]. split; [reflexivity|]. split; [reflexivity|discriminate].
  - cbn [enc_field present]. destruct (val_eqb d x) eqn:Ed.
    + injection Hx as <-. exists false, [].
      split; [reflexivity|]. split; [reflexivity|]. split; [reflexivity|]. split; [reflexivity|discriminate].
    + destruct (x691 ft x) as [b|] eqn:Eb; [|discriminate Hx]. cbn [option_map] in Hx. injection Hx as <-.
      exists true, b. rewrite (IH Hty Hp x b Hv ltac:(cbn [encoded] in Hk; tauto) Eb).
      split; [reflexivity|]. split; [reflexivity|]. split; [reflexivity|]. split; [discriminate|].
      intros _ Ha. apply (Hopen x b eq_refl Ed Eb Ha).
Qed.

Lemma comps_x m ea : forall fs, Forall (fun f => Cprop m (snd f)) fs -> all_wf_fields fs -> all_prof_fields fs ->
  forall vals cs i, all_wf_vals fs vals -> ~ any_known_f2 ea fs vals i -> x_comps fs vals = Some cs ->
  exists fes, enc_fields m fs vals = Ok fes /\ cs = comps_of fs fes /\ length fes = length fs /\
    map fst fes = presents fs vals /\ Forall fe_inv fes /\ adds_ok ea i fs fes.
Proof.
  induction fs as [|[k ft] fs IHl]; intros F Hty Hp [|ov vals] cs i Hv Hk Hx; try contradiction Hv.
  - cbn in Hx. injection Hx as <-. exists []. cbn. repeat split; constructor.
  - apply Forall_cons_iff in F. destruct F as [HC F]. cbn [snd] in HC.
    cbn [all_wf_fields] in Hty. destruct Hty as (Ht & Hd & Hty).
    cbn [all_prof_fields] in Hp. destruct Hp as (Hp1 & Hp).
    cbn [all_wf_vals] in Hv. destruct Hv as [Hv1 Hv].
    cbn [any_known_f2] in Hk.
    rewrite x_comps_cons in Hx.
    destruct (x_comp (k, ft) ov) as [c|] eqn:Ec; [|discriminate Hx].
    destruct (x_comps fs vals) as [r|] eqn:Er; [|discriminate Hx]. injection Hx as <-.
    destruct (comp_field m ea i k ft ov c HC Ht Hp1 Hv1 ltac:(tauto) Ec) as (p & b & E1 & E2 & E3 & E4 & E5).
    destruct (IHl F Hty Hp vals r (S i) Hv ltac:(tauto) Er) as (fes & I1 & I2 & I3 & I4 & I5 & I6).
    exists ((p, b) :: fes). rewrite enc_fields_cons, E1, I1. cbn [bind].
    split; [reflexivity|]. split; [cbn [comps_of]; rewrite E2, I2; reflexivity|].
    split; [cbn [length]; lia|]. split; [cbn [map presents fst]; rewrite I4, E3; reflexivity|].
    split; [constructor; [exact E4|exact I5]|]. cbn [adds_ok]. split; [exact E5|exact I6].
Qed.

(** ** list facts about [comps_of] *)
Lemma comps_firstn : forall n fs fes, firstn n (comps_of fs fes) = comps_of (firstn n fs) (firstn n fes).
Proof.
  induction n as [|n IH]; intros fs fes; [reflexivity|].
  destruct fs as [|[k ft] fs]; [reflexivity|]. destruct fes as [|[p b] fes]; [reflexivity|].
  cbn [comps_of firstn]. rewrite IH. reflexivity.
Qed.
Lemma comps_skipn : forall n fs fes, skipn n (comps_of fs fes) = comps_of (skipn n fs) (skipn n fes).
Proof.
  induction n as [|n IH]; intros fs fes; [reflexivity|].
  destruct fs as [|[k ft] fs]; [reflexivity|]. destruct fes as [|[p b] fes].
  - cbn [comps_of skipn]. destruct (skipn n fs) as [|[? ?] ?]; reflexivity.
  - cbn [comps_of skipn]. apply IH.
Qed.
Lemma flags_comps : forall fs fes,
  flags_of fs fes = flat_map (fun c : comp => if c_opt c then [c_present c] else []) (comps_of fs fes).
Proof.
  induction fs as [|[k ft] fs IH]; intros [|[p b] fes]; try reflexivity.
  cbn [flags_of comps_of flat_map]. rewrite IH. reflexivity.
Qed.
Lemma payload_comps : forall fs fes, length fes = length fs -> Forall fe_inv fes ->
  payload_of fes = flat_map (fun c : comp => if c_present c then c_bits c else []) (comps_of fs fes).
Proof.
  unfold payload_of.
  induction fs as [|[k ft] fs IH]; intros [|[p b] fes] Hl F; try discriminate Hl; [reflexivity|].
  apply Forall_cons_iff in F. destruct F as [F1 F]. cbn [map concat comps_of flat_map snd].
  rewrite IH by (cbn [length] in Hl; try lia; exact F). unfold c_present, c_bits. cbn [fst snd].
  destruct p; [reflexivity|]. rewrite (F1 eq_refl : b = []). reflexivity.
Qed.
Lemma comps_present : forall fs fes, length fes = length fs -> map c_present (comps_of fs fes) = map fst fes.
Proof.
  induction fs as [|[k ft] fs IH]; intros [|[p b] fes] Hl; try discriminate Hl; [reflexivity|].
  cbn [comps_of map]. rewrite IH by (cbn [length] in Hl; lia). reflexivity.
Qed.
Lemma existsb_map {A} (f : A -> bool) l : existsb f l = existsb (fun p => p) (map f l).
Proof. induction l as [|a l IH]; [reflexivity|]. cbn [existsb map]. rewrite IH. reflexivity. Qed.

Lemma adds_ok_skipn ea : forall n fs fes i, adds_ok ea i fs fes -> adds_ok ea (i + n) (skipn n fs) (skipn n fes).
Proof.
  induction n as [|n IH]; intros fs fes i H; [rewrite Nat.add_0_r; exact H|].
  destruct fs as [|[k ft] fs]; [exact I|]. destruct fes as [|[p b] fes].
  - cbn [skipn]. destruct (skipn n fs) as [|[? ?] ?]; exact I.
  - cbn [skipn]. replace (i + S n)%nat with (S i + n)%nat by lia. apply IH. cbn [adds_ok] in H. tauto.
Qed.
Lemma adds_open e : forall fs fes i, (N.to_nat e < i)%nat -> adds_ok (Some e) i fs fes -> open_ok fs fes.
Proof.
  induction fs as [|[k ft] fs IH]; intros [|[p b] fes] i Hi H; try exact I.
  cbn [adds_ok open_ok] in *. destruct H as [H1 H2]. split.
  - intros Hp. apply H1; [exact Hp|]. cbn [is_addition]. exact Hi.
  - apply (IH fes (S i)); [lia|exact H2].
Qed.

Lemma add_payloads_x m : forall afs afe, open_ok afs afe -> Forall fe_inv afe ->
  add_payloads m afs afe =
  Ok (flat_map (fun c : comp => if c_present c then x_open_type (c_bits c) else []) (comps_of afs afe)).
Proof.
  induction afs as [|[k ft] afs IH]; intros [|[p b] afe] Ho F; try reflexivity.
  cbn [open_ok] in Ho. destruct Ho as [Ho1 Ho]. apply Forall_cons_iff in F. destruct F as [F1 F].
  cbn [add_payloads comps_of flat_map]. rewrite (IH afe Ho F). unfold c_present, c_bits. cbn [fst snd].
  destruct p.
  - destruct (Ho1 eq_refl) as (Hw & Hb & Hn). rewrite Hw. cbn [andb].
    rewrite (wrap_open_xo m b Hb Hn). reflexivity.
  - cbn [andb]. rewrite (F1 eq_refl : b = []). reflexivity.
Qed.

Lemma skipn_map {A B} (f : A -> B) : forall n l, skipn n (map f l) = map f (skipn n l).
Proof. induction n as [|n IH]; intros [|a l]; cbn [skipn map]; auto. Qed.

Lemma comps_length : forall fs fes, length fes = length fs -> length (comps_of fs fes) = length fes.
Proof.
  induction fs as [|[k ft] fs IH]; intros [|[p b] fes] Hl; try discriminate Hl; [reflexivity|].
  cbn [comps_of length]. rewrite IH by (cbn [length] in Hl; lia). reflexivity.
Qed.

Lemma ext_part_x m afs afe : length afe = length afs -> N.of_nat (length afe) < two64 ->
  open_ok afs afe -> Forall fe_inv afe ->
  ~ more_than_64_additions (map fst afe) -> ~ first_addition_absent (map fst afe) ->
  ext_part m afs afe =
  Ok (existsb c_present (comps_of afs afe),
      if existsb c_present (comps_of afs afe) then
        x_normally_small_length (N.of_nat (length (comps_of afs afe)))
          ++ map c_present (comps_of afs afe)
          ++ flat_map (fun c : comp => if c_present c then x_open_type (c_bits c) else []) (comps_of afs afe)
      else []).
Proof.
  intros Hl Hn Ho Fi H64 Hfa. unfold ext_part. unfold fenc in *.
  rewrite (existsb_map c_present), (comps_present afs afe Hl), (comps_length afs afe Hl).
  destruct afe as [|[p1 b1] rest].
  - destruct afs; [reflexivity|discriminate Hl].
  - cbn [map fst existsb] in *. destruct p1; cbn [orb].
    + rewrite normally_small_write by lia. rewrite (add_payloads_x m afs _ Ho Fi). cbn [bind map fst].
      f_equal. f_equal. f_equal.
      assert (Hle : (length ((true, b1) :: rest) <= 64)%nat).
      { destruct (Nat.le_gt_cases (length ((true, b1) :: rest)) 64) as [L|L]; [exact L|]. exfalso. apply H64.
        split; [reflexivity|]. cbn [length] in *. rewrite map_length. lia. }
      unfold x_normally_small_length, x_normally_small.
      unfold fenc.
      match goal with |- context [?a <=? 64] => replace (a <=? 64) with true by (cbn [length] in *; lia) end.
      match goal with |- context [?a <=? 63] => replace (a <=? 63) with true by (cbn [length] in *; lia) end.
      reflexivity.
    + rewrite (existsb_map fst rest). destruct (existsb (fun p => p) (map fst rest)) eqn:Ee.
      * exfalso. apply Hfa. cbn [first_addition_absent]. split; [reflexivity|exact Ee].
      * reflexivity.
Qed.

Lemma presents_length : forall fs vals, length vals = length fs -> length (presents fs vals) = length fs.
Proof.
  induction fs as [|[k ft] fs IH]; intros [|ov vals] H; try discriminate H; [reflexivity|].
  cbn [presents length]. rewrite IH by (cbn [length] in H; lia). reflexivity.
Qed.

Lemma Forall_skipn' {A} (P : A -> Prop) n l : Forall P l -> Forall P (skipn n l).
Proof. intros H. rewrite <- (firstn_skipn n l) in H. apply Forall_app in H. tauto. Qed.
Lemma Forall_firstn' {A} (P : A -> Prop) n l : Forall P l -> Forall P (firstn n l).
Proof. intros H. rewrite <- (firstn_skipn n l) in H. apply Forall_app in H. tauto. Qed.

Lemma C_seq m fs so fc ea : Forall (fun f => Cprop m (snd f)) fs -> Cprop m (TSeq fs so fc ea).
Proof.
  intros IH Hty Hp v bs Hv Hk Hx. destruct v; try discriminate Hx. rename fields into vals.
  apply wf_ty_seq in Hty. destruct Hty as [(Hfc & Hlim & Hea & Hso) Hf].
  rewrite x691_seq_eq in Hx. rewrite enc_seq_eq.
  change (wf_val (TSeq fs so fc ea) (VSeq vals)) with (all_wf_vals fs vals) in Hv.
  change (in_profile (TSeq fs so fc ea)) with (all_prof_fields fs) in Hp.
  change (Known_C02 (TSeq fs so fc ea) (VSeq vals)) with
    ((let ps := skipn (root_len fs ea) (presents fs vals) in
      more_than_64_additions ps \/ first_addition_absent ps) \/ any_known_f2 ea fs vals 0) in Hk.
  cbv zeta in Hk.
  destruct (x_comps fs vals) as [cs|] eqn:Ec; [|discriminate Hx]. injection Hx as <-.
  destruct (comps_x m ea fs IH Hf Hp vals cs 0%nat Hv ltac:(tauto) Ec) as (fes & E1 & E2 & E3 & E4 & E5 & E6).
  rewrite E1. cbn [bind]. subst cs. unfold x_seq_assemble. cbv zeta.
  destruct ea as [e|].
  - cbn [root_len] in *. set (kr := S (N.to_nat e)) in *.
    rewrite (seq_assemble_some m fs fes e kr eq_refl).
    rewrite comps_firstn, comps_skipn.
    pose proof (adds_ok_skipn (Some e) kr fs fes 0 E6) as Ha. cbn [Nat.add] in Ha.
    apply (adds_open e _ _ kr ltac:(lia)) in Ha.
    assert (La : length (skipn kr fes) = length (skipn kr fs)) by (rewrite !skipn_length; lia).
    assert (Ps : skipn kr (presents fs vals) = map fst (skipn kr fes)) by (rewrite <- E4; apply skipn_map).
    rewrite Ps in Hk.
    rewrite (ext_part_x m (skipn kr fs) (skipn kr fes) La); [|
      rewrite skipn_length; unfold SIZE_LIMIT, two64 in *; lia | exact Ha | apply Forall_skipn'; exact E5 | tauto | tauto].
    cbn [bind]. rewrite <- flags_comps.
    rewrite <- (payload_comps (firstn kr fs) (firstn kr fes));
      [|rewrite !firstn_length; lia|apply Forall_firstn'; exact E5].
    cbn [app]. reflexivity.
  - cbn [root_len seq_assemble]. rewrite comps_firstn, comps_skipn.
    rewrite (firstn_all fs), (skipn_all fs).
    rewrite (firstn_all2 (n := length fs) fes) by lia. rewrite (skipn_all2 (n := length fs) fes) by lia.
    cbn [comps_of existsb app]. rewrite app_nil_r.
    rewrite <- flags_comps, <- (payload_comps fs fes E3 E5). reflexivity.
Qed.

(** * the induction *)
Theorem enc_is_x691 m t : Cprop m t.
Proof.
  induction t using ty_ind'.
  - intros _ _ v bs _ _ Hx. destruct v; try discriminate Hx. cbn [x691] in Hx. injection Hx as <-. reflexivity.
  - intros _ _ v bs _ _ Hx. destruct v; try discriminate Hx. cbn [x691] in Hx. injection Hx as <-. reflexivity.
  - apply C_int.
  - apply C_str.
  - apply C_octets.
  - apply C_bitstr.
  - apply C_list; assumption.
  - apply C_seq; assumption.
  - apply C_choice; assumption.
  - apply C_enum.
Qed.

(** * the pinned forms *)
Theorem reference_is_x691 m t v : wf_ty t -> wf_val t v -> in_profile t -> x691 t v <> None ->
  ~ Known_C02 t v -> exists bs, x691 t v = Some bs /\ enc m t v = Ok bs.
Proof.
  intros Hty Hv Hp Hs Hk. destruct (x691 t v) as [bs|] eqn:E; [|congruence].
  exists bs. split; [reflexivity|]. exact (enc_is_x691 m t Hty Hp v bs Hv Hk E).
Qed.

Theorem writer_is_x691 m t v bs w : wf_ty t -> wf_val t v -> in_profile t -> ~ Known_C02 t v ->
  x691 t v = Some bs -> wst_wf w -> w_scope w = None ->
  write_ty m t v w = Ok (w_append w bs).
Proof.
  intros Hty Hv Hp Hk Hx Hw Hs. pose proof (write_enc m t Hty v w Hw Hs) as S.
  rewrite (enc_is_x691 m t Hty Hp v bs Hv Hk Hx) in S. exact S.
Qed.

(** * the classes of C01 (reader side) are inside [Known_C02] *)
Lemma sized_some_root unit lo hi n body bs :
  x_sized_run unit lo hi false n body = Some bs -> in_root lo hi n.
Proof.
  rewrite x_sized_run_eq. cbv zeta. unfold in_root.
  destruct ((opt_or lo 0 <=? n) && match hi with Some u => n <=? u | None => true end) eqn:E; [|discriminate].
  intros _. destruct hi; lia.
Qed.
Lemma list_form_root lo hi n body bs :
  x_list_form lo hi false n body = Some bs -> in_root lo hi n.
Proof.
  unfold x_list_form, in_size, in_root. cbv zeta.
  destruct (match lo with Some l => l <=? n | None => true end &&
            match hi with Some h => n <=? h | None => true end) eqn:E; [|discriminate].
  intros _. destruct lo, hi; cbn [opt_or]; lia.
Qed.

Lemma known_len_c02 lo hi ext up n : is_some lo = is_some hi -> n <= up ->
  (ext = false -> in_root lo hi n) -> Known_C01_len lo hi up n -> Known_C02_size lo hi ext n.
Proof.
  intros Hp Hup Hr [[Hin Hk]|[H16 Hc]].
  - left. unfold Known_C10_length_semi_or_large_bound in Hk. unfold count_in_range in Hin.
    destruct hi as [u|].
    + exists u. cbn [opt_or] in Hin. repeat split; lia.
    + destruct lo; [discriminate Hp|]. exfalso. apply Hk. reflexivity.
  - right. split; [exact H16|]. destruct Hc as [Hc|[-> ->]].
    + destruct ext.
      * right. split; [reflexivity|]. intros [R1 R2]. apply Hc. unfold count_in_range.
        destruct hi; cbn [opt_or]; lia.
      * exfalso. apply Hc. destruct (Hr eq_refl) as [R1 R2]. unfold count_in_range. destruct hi; cbn [opt_or]; lia.
    + left. cbn [opt_or]. split; [reflexivity|lia].
Qed.

Definition Kprop (m : mode) (t : ty) : Prop :=
  wf_ty t -> in_profile t -> forall v bs, wf_val t v -> x691 t v = Some bs -> ~ Known_C02 t v ->
  ~ Known_C01 m t v.

Lemma pick_known_nth m std i x : forall alts k,
  pick_known m std i x alts k =
  match nth_error alts k with
  | Some a => Known_C01 m a x \/ (std <= i /\ Known_C01_open_type_16k m a x)
  | None => False end.
Proof. induction alts as [|a alts IH]; intros [|k]; cbn [pick_known nth_error]; auto. Qed.

Lemma open16k_c02 m t x b : wf_ty t -> in_profile t -> wf_val t x -> x691 t x = Some b -> ~ Known_C02 t x ->
  Known_C01_open_type_16k m t x -> open_type_16k t x.
Proof.
  intros Hty Hp Hv Hx Hk (b' & Eb & H16). rewrite (enc_is_x691 m t Hty Hp x b Hv Hk Hx) in Eb.
  injection Eb as <-. exists b. split; [exact Hx|exact H16].
Qed.

Lemma K_fields m ea : forall fs, Forall (fun f => Kprop m (snd f)) fs -> all_wf_fields fs -> all_prof_fields fs ->
  forall vals cs i, all_wf_vals fs vals -> x_comps fs vals = Some cs -> ~ any_known_f2 ea fs vals i ->
  ~ any_known_f m ea fs vals i.
Proof.
  induction fs as [|[k ft] fs IHl]; intros F Hty Hp [|ov vals] cs i Hv Hx Hk; try contradiction Hv.
  - cbn. tauto.
  - apply Forall_cons_iff in F. destruct F as [HC F]. cbn [snd] in HC.
    cbn [all_wf_fields] in Hty. destruct Hty as (Ht & Hd & Hty).
    cbn [all_prof_fields] in Hp. destruct Hp as (Hp1 & Hp).
    cbn [all_wf_vals] in Hv. destruct Hv as [Hv1 Hv].
    cbn [any_known_f2] in Hk. rewrite x_comps_cons in Hx.
    destruct (x_comp (k, ft) ov) as [c|] eqn:Ec; [|discriminate Hx].
    destruct (x_comps fs vals) as [r|] eqn:Er; [|discriminate Hx].
    cbn [any_known_f]. intros [C|C]; [|exact (IHl F Hty Hp vals r (S i) Hv Er ltac:(tauto) C)].
    destruct ov as [x|]; [|exact C]. destruct C as [He C].
    assert (Ex : exists b, x691 ft x = Some b).
    { destruct k as [| |d]; cbn [x_comp] in Ec.
      - destruct (x691 ft x) as [b|]; [eauto|discriminate Ec].
      - destruct (x691 ft x) as [b|]; [eauto|discriminate Ec].
      - cbn [encoded] in He. rewrite He in Ec. destruct (x691 ft x) as [b|]; [eauto|discriminate Ec]. }
    destruct Ex as [b Eb].
    assert (Hnk : ~ Known_C02 ft x) by (intros K; apply Hk; left; split; [exact He|left; exact K]).
    destruct C as [C|(Ha & Hw & C)].
    + exact (HC Ht Hp1 x b Hv1 Eb Hnk C).
    + apply Hk. left. split; [exact He|]. right. split; [exact Ha|]. right. right.
      exact (open16k_c02 m ft x b Ht Hp1 Hv1 Eb Hnk C).
Qed.

Theorem known_c01_c02 m t : Kprop m t.
Proof.
  induction t using ty_ind'; intros Hty Hp v bs Hv Hx Hk.
  - destruct v; exact (fun C => C).
  - destruct v; exact (fun C => C).
  - destruct v; exact (fun C => C).
  - (* strings *)
    destruct v; try (exfalso; exact Hv). cbn [in_profile] in Hp.
    destruct (match c with Utf8 => true | _ => false end) eqn:Ec.
    + destruct c; try discriminate Ec. exact (fun C => C).
    + assert (Hx' : (if forallb (cs_valid c) chars
                     then x_run (char_unit c) lo hi e (N.of_nat (length chars)) (flat_map (x_char c) chars)
                     else None) = Some bs) by (destruct c; try discriminate Ec; exact Hx).
      assert (Hk' : ~ Known_C02_size lo hi e (N.of_nat (length chars))) by (destruct c; try discriminate Ec; exact Hk).
      assert (E1 : Known_C01 m (TStr c lo hi e) (VStr chars) = Known_C01_len lo hi U64_MAX (N.of_nat (length chars)))
        by (destruct c; try discriminate Ec; reflexivity).
      rewrite E1. intros C. apply Hk'.
      cbn [wf_val] in Hv. destruct Hv as [_ Hn]. pose proof (utf8_encode_len chars). unfold blen in Hn.
      apply (known_len_c02 lo hi e U64_MAX _ Hp); [unfold U64_MAX, two64, SIZE_LIMIT in *; lia| |exact C].
      intros ->. destruct (forallb (cs_valid c) chars); [|discriminate Hx'].
      exact (sized_some_root _ _ _ _ _ _ Hx').
  - destruct v; try discriminate Hx. cbn [Known_C01 Known_C02 in_profile] in *.
    apply not_sized_known; assumption.
  - destruct v; try discriminate Hx. cbn [Known_C01 Known_C02 in_profile x691 wf_val] in *.
    destruct Hv as [Hc Hn]. destruct (canonical_content _ _ Hc) as (Hl & _ & Hle). cbv zeta in Hl.
    unfold x_bitstring in Hx. fold (bl (firstn (N.to_nat bit_len) (bits_of_bytes bytes))) in Hx. rewrite Hl in Hx.
    intros [C|C].
    + revert C. apply not_sized_known; [exact Hp|]. intros C. apply Hk. left. exact C.
    + revert C. eapply sized_some_not_16k; eassumption.
  - (* SEQUENCE OF *)
    destruct v; try discriminate Hx. destruct Hty as [Hb Hty]. destruct Hp as [Hp Hpe].
    rewrite x691_list_eq in Hx. cbn [wf_val] in Hv. destruct Hv as [Hn Hv]. cbn [Known_C02] in Hk.
    destruct (x_all (x691 t) vs) as [body|] eqn:Eb; [|discriminate Hx].
    change (Known_C01 m (TListOf t lo hi x) (VList vs)) with
      (Known_C01_len lo hi I64_MAX (N.of_nat (length vs)) \/ any_known m t vs).
    intros [C|C].
    + apply Hk. left. apply (known_len_c02 lo hi x I64_MAX _ Hp); [unfold I64_MAX, two63, SIZE_LIMIT in *; lia| |exact C].
      intros ->. exact (list_form_root _ _ _ _ _ Hx).
    + assert (Hk2 : ~ any_known2 t vs) by tauto. clear Hk Hx Hn.
      revert body Eb Hv Hk2 C. induction vs as [|y vs IHl]; intros body Eb Hv Hk2 C; [exact C|].
      cbn [x_all] in Eb. destruct (x691 t y) as [a|] eqn:Ea; [|discriminate Eb].
      destruct (x_all (x691 t) vs) as [b|] eqn:Eb2; [|discriminate Eb].
      cbn [all_wf_val] in Hv. cbn [any_known2] in Hk2. cbn [any_known] in C. destruct C as [C|C].
      * exact (IHt Hty Hpe y a (proj1 Hv) Ea ltac:(tauto) C).
      * exact (IHl b eq_refl (proj2 Hv) ltac:(tauto) C).
  - (* SEQUENCE *)
    destruct v; try discriminate Hx. rename fields into vals.
    apply wf_ty_seq in Hty. destruct Hty as [_ Hf].
    rewrite x691_seq_eq in Hx.
    change (wf_val (TSeq fs so fc ea) (VSeq vals)) with (all_wf_vals fs vals) in Hv.
    change (in_profile (TSeq fs so fc ea)) with (all_prof_fields fs) in Hp.
    change (Known_C02 (TSeq fs so fc ea) (VSeq vals)) with
      ((let ps := skipn (root_len fs ea) (presents fs vals) in
        more_than_64_additions ps \/ first_addition_absent ps) \/ any_known_f2 ea fs vals 0) in Hk.
    change (Known_C01 m (TSeq fs so fc ea) (VSeq vals)) with (any_known_f m ea fs vals 0).
    destruct (x_comps fs vals) as [cs|] eqn:Ec; [|discriminate Hx].
    apply (K_fields m ea fs H Hf Hp vals cs 0%nat Hv Ec). tauto.
  - (* CHOICE *)
    destruct v; try discriminate Hx. rename index into i, v into x.
    destruct Hty as (H1 & H2 & H3 & H4 & Hty).
    rewrite x691_choice_eq in Hx.
    change (wf_val (TChoice alts std ext) (VChoice i x)) with (pick_wf x alts (N.to_nat i)) in Hv.
    change (Known_C02 (TChoice alts std ext) (VChoice i x)) with (known_pick std i x alts (N.to_nat i)) in Hk.
    change (Known_C01 m (TChoice alts std ext) (VChoice i x)) with (pick_known m std i x alts (N.to_nat i)).
    rewrite pick_wf_nth in Hv. rewrite known_pick_nth in Hk. rewrite x_pick_nth in Hx. rewrite pick_known_nth.
    destruct (N.leb_spec (N.of_nat (length alts)) i) as [Li|Li]; [discriminate Hx|].
    destruct (nth_error alts (N.to_nat i)) as [a|] eqn:En; [|contradiction Hv].
    pose proof (nth_error_In _ _ En) as Hin.
    assert (Ka : Kprop m a) by (rewrite Forall_forall in H; apply H; exact Hin).
    assert (Wa : wf_ty a) by (pose proof (all_wf_ty_Forall alts Hty) as F; rewrite Forall_forall in F; apply F; exact Hin).
    assert (Pa : in_profile a) by (pose proof (all_in_profile_Forall alts Hp) as F; rewrite Forall_forall in F; apply F; exact Hin).
    destruct (x691 a x) as [b|] eqn:Eb; [|discriminate Hx].
    intros [C|[L C]].
    + exact (Ka Wa Pa x b Hv Eb ltac:(tauto) C).
    + apply Hk. right. split; [exact L|]. right.
      exact (open16k_c02 m a x b Wa Pa Hv Eb ltac:(tauto) C).
  - destruct v; exact (fun C => C).
Qed.

Theorem reader_accepts_x691 m t v bs : wf_ty t -> wf_val t v -> in_profile t -> ~ Known_C02 t v ->
  x691 t v = Some bs ->
  forall s tail, rsrc s bs tail ->
  read_ty m t (r_of_src s) = Ok (v, r_of_src (src_adv s (bl bs) tail)).
Proof.
  intros Hty Hv Hp Hk Hx s tail Hs.
  apply (read_enc m t Hty v bs (enc_is_x691 m t Hty Hp v bs Hv Hk Hx) Hv); [|exact Hs].
  exact (known_c01_c02 m t Hty Hp v bs Hv Hx Hk).
Qed.

(** * witnesses of the deviation classes *)
Definition x691_res (t : ty) (v : val) : res bits :=
  match x691 t v with Some b => Ok b | None => Err 0 end.
(* the reference encoder (= the writer) and X.691 disagree: different bits, or only one of them
   has an encoding *)
Definition deviates (m : mode) (t : ty) (v : val) : bool :=
  match enc m t v, x691 t v with
  | Ok a, Some b => negb (list_eqb Bool.eqb a b)
  | Ok _, None => true
  | _, Some _ => true
  | _, None => false
  end.
Lemma list_eqb_bool_refl (a : bits) : list_eqb Bool.eqb a a = true.
Proof. induction a as [|x a IH]; [reflexivity|]. cbn [list_eqb]. rewrite IH. destruct x; reflexivity. Qed.
Lemma deviates_neq m t v : deviates m t v = true -> enc m t v <> x691_res t v.
Proof.
  unfold deviates, x691_res. destruct (enc m t v) as [a| |], (x691 t v) as [b|]; intros H E; try discriminate.
  injection E as ->. rewrite list_eqb_bool_refl in H. discriminate H.
Qed.

Ltac wf_by_compute :=
  vm_compute; repeat first [split | apply Forall_cons | apply Forall_nil];
  try discriminate; try reflexivity; try (vm_compute; reflexivity).

(* (1) OCTET STRING (SIZE (0..65536)), one octet: a 17-bit constrained length instead of 11.9.4.2 *)
Lemma refuted_size_upper_bound_64k :
  exists m t v, wf_ty t /\ wf_val t v /\ in_profile t /\
    (exists lo hi ext bs, t = TOctets lo hi ext /\ v = VOctets bs /\ size_upper_bound_64k lo hi (blen bs)) /\
    Known_C02 t v /\ deviates m t v = true.
Proof.
  exists dev_mode, (TOctets (Some 0) (Some 65536) false), (VOctets [1]).
  assert (K : size_upper_bound_64k (Some 0) (Some 65536) (blen [1])).
  { exists 65536. split; [reflexivity|]. vm_compute. repeat split; discriminate. }
  split; [wf_by_compute|]. split; [wf_by_compute|]. split; [reflexivity|].
  split; [do 4 eexists; split; [reflexivity|split; [reflexivity|exact K]]|]. split; [exact K|vm_compute; reflexivity].
Qed.

(* (2) IA5String of 16384 characters, unconstrained: X.691 fragments (11.9.3.8), the crate does not *)
Lemma refuted_fragmentation_16k :
  exists m t v, wf_ty t /\ wf_val t v /\ in_profile t /\
    (exists c lo hi ext cs, t = TStr c lo hi ext /\ v = VStr cs /\ fragmentation_16k lo hi ext (N.of_nat (length cs))) /\
    Known_C02 t v /\ deviates m t v = true.
Proof.
  exists dev_mode, (TStr Ia5 None None false), (VStr (repeat 65 16384)).
  assert (K : fragmentation_16k None None false (N.of_nat (length (repeat 65 16384)))).
  { rewrite repeat_length. split; [vm_compute; discriminate|]. left. split; [reflexivity|]. vm_compute. discriminate. }
  split; [exact I|]. split.
  - cbn [wf_val]. split; [|vm_compute; reflexivity].
    apply Forall_forall. intros x Hx. apply repeat_spec in Hx. subst x. left. vm_compute. reflexivity.
  - split; [reflexivity|]. split; [do 5 eexists; split; [reflexivity|split; [reflexivity|exact K]]|].
    split; [right; exact K|vm_compute; reflexivity].
Qed.

(* (3) SEQUENCE { a BOOLEAN, ..., b NULL OPTIONAL } with b present: open type of length 0 *)
Definition w3_ty : ty := TSeq [(FReq, TBool); (FOpt, TNull)] 0 2 (Some 0).
Definition w3_val : val := VSeq [Some (VBool true); Some VNull].
Lemma refuted_empty_open_type :
  exists m t v, wf_ty t /\ wf_val t v /\ in_profile t /\
    (t = w3_ty /\ v = w3_val /\ empty_open_type TNull VNull) /\
    Known_C02 t v /\ deviates m t v = true.
Proof.
  exists dev_mode, w3_ty, w3_val.
  split; [wf_by_compute|]. split; [wf_by_compute|]. split; [cbn; tauto|].
  split; [repeat split|]. split; [|vm_compute; reflexivity].
  right. right. left. split; [exact I|]. right. split; [cbn; lia|]. right. left. reflexivity.
Qed.

(* (4) SEQUENCE { a BOOLEAN, ..., c CHOICE { x BOOLEAN } } : the mandatory CHOICE addition is inline *)
Definition w4_ty : ty := TSeq [(FReq, TBool); (FReq, TChoice [TBool] 1 false)] 0 2 (Some 0).
Definition w4_val : val := VSeq [Some (VBool true); Some (VChoice 0 (VBool true))].
Lemma refuted_mandatory_choice_addition_inline :
  exists m t v, wf_ty t /\ wf_val t v /\ in_profile t /\
    (t = w4_ty /\ v = w4_val /\ mandatory_choice_addition_inline FReq (TChoice [TBool] 1 false)) /\
    Known_C02 t v /\ deviates m t v = true.
Proof.
  exists dev_mode, w4_ty, w4_val.
  split; [wf_by_compute|]. split; [wf_by_compute|]. split; [cbn; tauto|].
  split; [repeat split|]. split; [|vm_compute; reflexivity].
  right. right. left. split; [exact I|]. right. split; [cbn; lia|]. left. reflexivity.
Qed.

(* (5) 65 extension additions, all present: 11.9.3.4 second form against a normally small number *)
Definition w5_ty : ty := TSeq ((FReq, TBool) :: repeat (FOpt, TBool) 65) 0 66 (Some 0).
Definition w5_val : val := VSeq (repeat (Some (VBool true)) 66).
Lemma refuted_more_than_64_additions :
  exists m t v, wf_ty t /\ wf_val t v /\ in_profile t /\
    (exists fs so fc ea vals, t = TSeq fs so fc ea /\ v = VSeq vals /\
       more_than_64_additions (skipn (root_len fs ea) (presents fs vals))) /\
    Known_C02 t v /\ deviates m t v = true.
Proof.
  exists dev_mode, w5_ty, w5_val.
  assert (K : more_than_64_additions (skipn (root_len ((FReq, TBool) :: repeat (FOpt, TBool) 65) (Some 0))
                (presents ((FReq, TBool) :: repeat (FOpt, TBool) 65) (repeat (Some (VBool true)) 66)))).
  { split; [vm_compute; reflexivity|]. vm_compute. lia. }
  split; [wf_by_compute|]. split; [wf_by_compute|]. split; [vm_compute; tauto|].
  split; [do 5 eexists; split; [reflexivity|split; [reflexivity|exact K]]|]. split; [|vm_compute; reflexivity].
  left. left. exact K.
Qed.

(* (6) first addition absent, second present: refused (C03), X.691 has an encoding *)
Definition w6_ty : ty := TSeq [(FReq, TBool); (FOpt, TBool); (FOpt, TBool)] 0 3 (Some 0).
Definition w6_val : val := VSeq [Some (VBool true); None; Some (VBool true)].
Lemma refuted_first_addition_absent :
  exists m t v, wf_ty t /\ wf_val t v /\ in_profile t /\
    (exists fs so fc ea vals, t = TSeq fs so fc ea /\ v = VSeq vals /\
       first_addition_absent (skipn (root_len fs ea) (presents fs vals))) /\
    Known_C02 t v /\ enc m t v = Err E_EXT_INCONSISTENT /\ deviates m t v = true.
Proof.
  exists dev_mode, w6_ty, w6_val.
  assert (K : first_addition_absent (skipn (root_len [(FReq, TBool); (FOpt, TBool); (FOpt, TBool)] (Some 0))
                (presents [(FReq, TBool); (FOpt, TBool); (FOpt, TBool)] [Some (VBool true); None; Some (VBool true)]))).
  { vm_compute. split; reflexivity. }
  split; [wf_by_compute|]. split; [wf_by_compute|]. split; [cbn; tauto|].
  split; [do 5 eexists; split; [reflexivity|split; [reflexivity|exact K]]|]. split; [left; right; exact K|].
  split; vm_compute; reflexivity.
Qed.

(* (7) unconstrained INTEGER (generated as u64), value 2^63: travels as its i64 reinterpretation *)
Lemma refuted_int_beyond_i64 :
  exists m t v, wf_ty t /\ wf_val t v /\ in_profile t /\
    (exists k lo hi ext z, t = TInt k lo hi ext /\ v = VInt z /\ ~ is_i64 z) /\
    Known_C02 t v /\ deviates m t v = true.
Proof.
  exists dev_mode, (TInt U64 None None false), (VInt 9223372036854775808).
  assert (K : ~ is_i64 9223372036854775808) by (unfold is_i64; vm_compute; intros [_ C]; discriminate C).
  split; [wf_by_compute|]. split; [wf_by_compute|]. split; [cbn; split; [reflexivity|discriminate]|].
  split; [do 5 eexists; split; [reflexivity|split; [reflexivity|exact K]]|]. split; [exact K|vm_compute; reflexivity].
Qed.

(* (2') an open type of 16K octets: the writer fragments as X.691 says, the reader does not follow *)
Definition reader_misses_x691 (m : mode) (t : ty) (v : val) : bool :=
  match x691 t v with
  | Some bs =>
      match read_ty m t (r_of_src (src_of_bits bs (bl bs))) with
      | Ok (v', r) => negb (val_eqb v v' && (s_pos (r_src r) =? bl bs))
      | _ => true
      end
  | None => false
  end.
Lemma refuted_open_type_16k_reader :
  exists m t v, wf_ty t /\ in_profile t /\ Known_C02 t v /\
    deviates m t v = false /\ reader_misses_x691 m t v = true.
Proof.
  exists dev_mode, big_ext_ty, big_ext_val.
  split; [vm_compute; repeat split; discriminate|]. split; [cbn; tauto|].
  split; [|split; vm_compute; reflexivity].
  right. right. left. split; [exact I|]. right. split; [cbn; lia|]. right. right.
  assert (H : match x691 (TOctets None None false) (VOctets (repeat 7 16384)) with
              | Some b => 16384 <=? (bl b + 7) / 8 | None => false end = true) by (vm_compute; reflexivity).
  unfold open_type_16k. destruct (x691 (TOctets None None false) (VOctets (repeat 7 16384))) as [b|]; [|discriminate H].
  exists b. split; [reflexivity|]. apply N.leb_le. exact H.
Qed.

(** * non-vacuity *)
(* refutation of a closed [Known_C02] instance: walk the disjunctions, compute the leaves *)
Ltac nk_leaf H :=
  first [ solve [contradiction H] | solve [discriminate H] | lia | exact (H eq_refl)
        | solve [apply H; unfold is_i64; vm_compute; split; [discriminate|reflexivity]] ].
Ltac nk n H :=
  lazymatch n with
  | O => fail
  | S ?n' =>
  lazymatch type of H with
  | False => contradiction H
  | ?A \/ ?B => destruct H as [H|H]; nk n' H
  | ?A /\ ?B =>
      let H1 := fresh "L" in let H2 := fresh "R" in
      destruct H as [H1 H2];
      first [ solve [nk n' H1]
            | (lazymatch type of H1 with
               | _ = Some _ => vm_compute in H1; first [discriminate H1 | injection H1 as <-]
               | _ => idtac
               end; solve [nk n' H2]) ]
  | exists _, _ => let x := fresh "x" in destruct H as [x H]; nk n' H
  | _ => first [ nk_leaf H | (vm_compute in H; first [nk_leaf H | nk n' H]) ]
  end
  end.

Lemma ex_not_known : ~ Known_C02 ex_ty ex_val.
Proof.
  intros K. unfold ex_ty, ex_val, ex_inner in K. cbn [Known_C02] in K. cbv zeta in K.
  unfold open_type_16k, empty_open_type, mandatory_choice_addition_inline, Known_C02_size,
    size_upper_bound_64k, fragmentation_16k, more_than_64_additions, first_addition_absent,
    in_root, encoded, is_addition in K.
  nk 40%nat K.
Qed.

Lemma nonvacuous_c02 :
  wf_ty ex_ty /\ wf_val ex_ty ex_val /\ in_profile ex_ty /\ ~ Known_C02 ex_ty ex_val /\
  exists bs, x691 ex_ty ex_val = Some bs /\ enc dev_mode ex_ty ex_val = Ok bs /\
             enc release_mode ex_ty ex_val = Ok bs /\ bl bs = 128 /\
             write_ty dev_mode ex_ty ex_val w_empty = Ok (w_append w_empty bs) /\
             read_ty dev_mode ex_ty (r_of_src (src_of_bits (bs ++ [true; false]) (bl bs + 2)))
             = Ok (ex_val, r_of_src (src_adv (src_of_bits (bs ++ [true; false]) (bl bs + 2)) (bl bs) [true; false])).
Proof.
  split; [vm_compute; repeat split; try discriminate; try reflexivity|].
  split; [vm_compute; repeat split; try discriminate; try reflexivity|].
  split; [vm_compute; repeat split; try discriminate; try reflexivity|].
  split; [exact ex_not_known|].
  eexists. split; [vm_compute; reflexivity|]. vm_compute. repeat split; reflexivity.
Qed.

(** * values that are not values of the type are not encoded *)
Definition Jprop (m : mode) (t : ty) : Prop :=
  wf_ty t -> in_profile t -> forall v, wf_val t v -> ~ Known_C02 t v ->
  x691 t v = None -> is_ok (enc m t v) = false.

Lemma x_constrained_some l u v : (l <= v <= u)%Z -> exists b, x_constrained l u v = Some b.
Proof.
  intros H. unfold x_constrained. replace ((l <=? v)%Z && (v <=? u)%Z) with true by lia. eauto.
Qed.

Lemma sized_none unit lo hi ext n body : x_sized_run unit lo hi ext n body = None ->
  ext = false /\ (n < opt_or lo 0 \/ exists u, hi = Some u /\ u < n).
Proof.
  rewrite x_sized_run_eq. cbv zeta.
  destruct ((opt_or lo 0 <=? n) && match hi with Some u => n <=? u | None => true end) eqn:E.
  - destruct hi as [u|]; [|discriminate].
    destruct (u =? 0); [discriminate|]. destruct ((opt_or lo 0 =? u) && (u <? 65536)); [discriminate|].
    destruct (u <? 65536); [|discriminate].
    destruct (x_constrained_some (Z.of_N (opt_or lo 0)) (Z.of_N u) (Z.of_N n) ltac:(lia)) as [b ->]. discriminate.
  - destruct ext; [discriminate|]. intros _. split; [reflexivity|].
    destruct hi as [u|]; [|left; lia].
    destruct (N.ltb_spec n (opt_or lo 0)); [left; assumption|right; exists u; split; [reflexivity|lia]].
Qed.

Lemma J_int m k lo hi ext : Jprop m (TInt k lo hi ext).
Proof.
  intros (Hlo & Hhi & Hle) (Hp & Hpe) v Hv Hk Hx. destruct v; try (exfalso; exact Hv).
  cbn [Known_C02] in Hk. cbn [x691] in Hx. cbn [enc]. unfold int_enc.
  assert (Hz : is_i64 z) by (destruct (is_i64_dec z); tauto).
  rewrite (to_i64_id z Hz). unfold x_integer, in_range in Hx.
  destruct lo as [l|], hi as [h|]; cbn [is_some] in Hp; try discriminate Hp.
  - destruct ((l <=? z)%Z && (z <=? h)%Z) eqn:Er.
    + destruct (x_constrained_some l h z ltac:(lia)) as [b Eb]. rewrite Eb in Hx. discriminate Hx.
    + destruct ext; [discriminate Hx|]. cbn [is_some negb andb opt_or].
      rewrite constrained_reject by lia. reflexivity.
  - cbn [andb] in Hx. discriminate Hx.
Qed.

Lemma J_enum m vc std ext : Jprop m (TEnum vc std ext).
Proof.
  intros _ _ v Hv _ Hx. destruct v; try (exfalso; exact Hv). cbn [x691] in Hx. cbn [enc wf_val] in *.
  destruct (N.ltb_spec index vc); [|lia]. rewrite (index_reject m std ext index Hx). reflexivity.
Qed.

Lemma J_octets m lo hi ext : Jprop m (TOctets lo hi ext).
Proof.
  intros Hty Hp v Hv Hk Hx. destruct v; try (exfalso; exact Hv).
  cbn [x691] in Hx. cbn [enc]. cbn [wf_val] in Hv. cbn [Known_C02] in Hk. cbn [in_profile] in Hp.
  destruct Hv as [_ Hn].
  rewrite octetstring_write; [rewrite Hx; reflexivity|unfold SIZE_LIMIT, two63 in *; lia|].
  apply not_sized_known; assumption.
Qed.

Lemma J_bitstr m lo hi ext : Jprop m (TBitStr lo hi ext).
Proof.
  intros Hty Hp v Hv Hk Hx. destruct v; try (exfalso; exact Hv).
  cbn [x691] in Hx. cbn [enc]. cbn [wf_val] in Hv.
  destruct Hv as [Hc Hn]. destruct (canonical_content _ _ Hc) as (Hl & _ & Hle). cbv zeta in Hl.
  unfold x_bitstring in Hx. fold (bl (firstn (N.to_nat bit_len) (bits_of_bytes bytes))) in Hx. rewrite Hl in Hx.
  apply sized_none in Hx. destruct Hx as [-> Hr].
  rewrite bitstring_reject; [reflexivity|]. destruct Hr as [Hr|(u & -> & Hr)]; [left; exact Hr|right; exact Hr].
Qed.

Lemma J_str m c lo hi ext : Jprop m (TStr c lo hi ext).
Proof.
  intros Hty Hp v Hv Hk Hx. destruct v; try (exfalso; exact Hv).
  cbn [wf_val] in Hv. cbn [in_profile] in Hp. destruct Hv as [Hs Hn].
  assert (Hlen : N.of_nat (length chars) < SIZE_LIMIT).
  { pose proof (utf8_encode_len chars). unfold blen in Hn. lia. }
  destruct (match c with Utf8 => true | _ => false end) eqn:Ec.
  - destruct c; try discriminate Ec. cbn [x691] in Hx. cbn [enc].
    destruct (in_size lo hi (N.of_nat (length chars)) || ext) eqn:Es.
    + apply sized_none in Hx. destruct Hx as [_ [Hx|(u & Hx & _)]]; [cbn [opt_or] in Hx; lia|discriminate Hx].
    + apply orb_false_iff in Es. destruct Es as [Es ->]. cbn [negb andb].
      replace ((N.of_nat (length chars) <? opt_or lo 0) || (opt_or hi U64_MAX <? N.of_nat (length chars))) with true;
        [reflexivity|].
      unfold in_size in Es. destruct lo, hi; cbn [opt_or]; lia.
  - assert (Hc : c <> Utf8) by (intros ->; discriminate Ec).
    assert (Hx' : (if forallb (cs_valid c) chars
                   then x_run (char_unit c) lo hi ext (N.of_nat (length chars)) (flat_map (x_char c) chars)
                   else None) = None) by (destruct c; try discriminate Ec; exact Hx).
    assert (He : enc m (TStr c lo hi ext) (VStr chars) =
                 if find_invalid c chars then Err E_INVALID_STRING else
                 let! h := len_hdr m ext lo hi U64_MAX (N.of_nat (length chars)) in
                 Ok (h ++ flat_map (char_bits c) chars)) by (destruct c; try discriminate Ec; reflexivity).
    assert (Hk' : ~ Known_C02_size lo hi ext (N.of_nat (length chars))) by (destruct c; try discriminate Ec; exact Hk).
    rewrite He, find_invalid_forallb.
    destruct (forallb (cs_valid c) chars) eqn:Ef; [|reflexivity]. cbn [negb].
    unfold x_run in Hx'. rewrite sized_run_hdr in Hx'; [|exact Hp|exact Hk'|].
    2:{ intros E0. destruct chars; [reflexivity|cbn [length] in E0; lia]. }
    rewrite len_hdr_x; [|exact Hp|unfold U64_MAX, two64, SIZE_LIMIT in *; lia|exact Hk'].
    destruct (x_hdr lo hi ext (N.of_nat (length chars))) as [h|]; [discriminate Hx'|]. reflexivity.
Qed.

Lemma elems_none m e : Jprop m e -> wf_ty e -> in_profile e -> forall vs,
  all_wf_val e vs -> ~ any_known2 e vs -> x_all (x691 e) vs = None -> is_ok (enc_elems m e vs) = false.
Proof.
  intros IH Hty Hp. induction vs as [|x vs IHl]; intros Hv Hk Hx; [discriminate Hx|].
  cbn [x_all] in Hx. cbn [all_wf_val] in Hv. destruct Hv as [Hv1 Hv2]. cbn [any_known2] in Hk.
  change (enc_elems m e (x :: vs)) with (let! a := enc m e x in let! b := enc_elems m e vs in Ok (a ++ b)).
  destruct (x691 e x) as [a|] eqn:Ea.
  - destruct (x_all (x691 e) vs) as [b|] eqn:Eb; [discriminate Hx|].
    destruct (enc m e x); try reflexivity. cbn [bind]. apply not_ok_bind. apply IHl; tauto.
  - apply not_ok_bind. apply (IH Hty Hp x Hv1); tauto.
Qed.

Lemma J_list m e lo hi ext : Cprop m e -> Jprop m e -> Jprop m (TListOf e lo hi ext).
Proof.
  intros _ IH (Hb & Hty) (Hp & Hpe) v Hv Hk Hx. destruct v; try (exfalso; exact Hv).
  rewrite x691_list_eq in Hx. cbn [wf_val] in Hv. destruct Hv as [Hn Hv]. cbn [Known_C02] in Hk.
  change (enc m (TListOf e lo hi ext) (VList vs)) with
    (let! h := len_hdr m ext lo hi I64_MAX (N.of_nat (length vs)) in
     let! body := enc_elems m e vs in Ok (h ++ body)).
  rewrite len_hdr_x; [|exact Hp|unfold I64_MAX, two63, SIZE_LIMIT in *; lia|tauto].
  destruct (x_all (x691 e) vs) as [body|] eqn:Eb.
  - rewrite list_form_hdr in Hx; [|exact Hp|tauto].
    destruct (x_hdr lo hi ext (N.of_nat (length vs))) as [h|]; [discriminate Hx|]. reflexivity.
  - destruct (x_hdr lo hi ext (N.of_nat (length vs))) as [h|]; [|reflexivity]. cbn [bind].
    apply not_ok_bind. apply (elems_none m e IH Hty Hpe vs Hv); tauto.
Qed.

Lemma J_fields m ea : forall fs, Forall (fun f => Jprop m (snd f)) fs -> all_wf_fields fs -> all_prof_fields fs ->
  forall vals i, all_wf_vals fs vals -> ~ any_known_f2 ea fs vals i -> x_comps fs vals = None ->
  is_ok (enc_fields m fs vals) = false.
Proof.
  induction fs as [|[k ft] fs IHl]; intros F Hty Hp [|ov vals] i Hv Hk Hx; try contradiction Hv.
  - discriminate Hx.
  - apply Forall_cons_iff in F. destruct F as [HJ F]. cbn [snd] in HJ.
    cbn [all_wf_fields] in Hty. destruct Hty as (Ht & Hd & Hty).
    cbn [all_prof_fields] in Hp. destruct Hp as (Hp1 & Hp).
    cbn [all_wf_vals] in Hv. destruct Hv as [Hv1 Hv].
    cbn [any_known_f2] in Hk. rewrite x_comps_cons in Hx. rewrite enc_fields_cons.
    destruct (x_comp (k, ft) ov) as [c|] eqn:Ec.
    + destruct (x_comps fs vals) as [r|] eqn:Er; [discriminate Hx|].
      destruct (enc_field m (k, ft) ov); try reflexivity. cbn [bind]. apply not_ok_bind.
      apply (IHl F Hty Hp vals (S i) Hv); tauto.
    + apply not_ok_bind. unfold known_field in Hk.
      assert (Hn : forall x, ov = Some x -> encoded k x -> x691 ft x = None -> is_ok (enc m ft x) = false).
      { intros x -> He En. apply (HJ Ht Hp1 x Hv1); [|exact En]. intros K. apply Hk. left. split; [exact He|left; exact K]. }
      destruct k as [| |d], ov as [x|]; cbn [x_comp] in Ec; try discriminate Hv1; try discriminate Ec; cbn [enc_field].
      * destruct (x691 ft x) eqn:En; [discriminate Ec|]. apply not_ok_bind. apply (Hn x eq_refl I En).
      * destruct (x691 ft x) eqn:En; [discriminate Ec|]. apply not_ok_bind. apply (Hn x eq_refl I En).
      * destruct (val_eqb d x) eqn:Ed; [discriminate Ec|].
        destruct (x691 ft x) eqn:En; [discriminate Ec|]. apply not_ok_bind. apply (Hn x eq_refl Ed En).
Qed.

Lemma J_seq m fs so fc ea : Forall (fun f => Jprop m (snd f)) fs -> Jprop m (TSeq fs so fc ea).
Proof.
  intros IH Hty Hp v Hv Hk Hx. destruct v; try (exfalso; exact Hv). rename fields into vals.
  apply wf_ty_seq in Hty. destruct Hty as [_ Hf].
  rewrite x691_seq_eq in Hx. rewrite enc_seq_eq.
  change (wf_val (TSeq fs so fc ea) (VSeq vals)) with (all_wf_vals fs vals) in Hv.
  change (in_profile (TSeq fs so fc ea)) with (all_prof_fields fs) in Hp.
  change (Known_C02 (TSeq fs so fc ea) (VSeq vals)) with
    ((let ps := skipn (root_len fs ea) (presents fs vals) in
      more_than_64_additions ps \/ first_addition_absent ps) \/ any_known_f2 ea fs vals 0) in Hk.
  destruct (x_comps fs vals) as [cs|] eqn:Ec; [discriminate Hx|].
  apply not_ok_bind. apply (J_fields m ea fs IH Hf Hp vals 0%nat Hv); tauto.
Qed.

Lemma J_choice m alts std ext : Forall (Jprop m) alts -> Jprop m (TChoice alts std ext).
Proof.
  intros IH (H1 & H2 & H3 & H4 & Hty) Hp v Hv Hk Hx. destruct v; try (exfalso; exact Hv).
  rename index into i, v into x.
  rewrite x691_choice_eq in Hx.
  change (wf_val (TChoice alts std ext) (VChoice i x)) with (pick_wf x alts (N.to_nat i)) in Hv.
  change (Known_C02 (TChoice alts std ext) (VChoice i x)) with (known_pick std i x alts (N.to_nat i)) in Hk.
  change (enc m (TChoice alts std ext) (VChoice i x)) with
    (let! ib := w_enumeration_index m std ext i in
     let! cb := enc_pick m x alts (N.to_nat i) in
     if std <=? i then let! wb := wrap_open m cb in Ok (ib ++ wb) else Ok (ib ++ cb)).
  rewrite pick_wf_nth in Hv. rewrite known_pick_nth in Hk. rewrite x_pick_nth in Hx. rewrite enc_pick_nth.
  destruct (nth_error alts (N.to_nat i)) as [a|] eqn:En; [|contradiction Hv].
  assert (Li : i < N.of_nat (length alts)).
  { pose proof (proj1 (nth_error_Some alts (N.to_nat i)) ltac:(congruence)). lia. }
  destruct (N.leb_spec (N.of_nat (length alts)) i) as [Li'|_]; [lia|].
  pose proof (nth_error_In _ _ En) as Hin.
  assert (Ja : Jprop m a) by (rewrite Forall_forall in IH; apply IH; exact Hin).
  assert (Wa : wf_ty a) by (pose proof (all_wf_ty_Forall alts Hty) as F; rewrite Forall_forall in F; apply F; exact Hin).
  assert (Pa : in_profile a) by (pose proof (all_in_profile_Forall alts Hp) as F; rewrite Forall_forall in F; apply F; exact Hin).
  destruct (x691 a x) as [b|] eqn:Eb.
  - destruct (N.ltb_spec i std) as [L|L].
    + destruct (x_constrained_some 0 (Z.of_N std - 1) (Z.of_N i) ltac:(lia)) as [ib Ei]. rewrite Ei in Hx. discriminate Hx.
    + destruct ext; [discriminate Hx|]. rewrite index_reject; [reflexivity|].
      apply x_index_none. split; [exact L|reflexivity].
  - destruct (w_enumeration_index m std ext i); try reflexivity. cbn [bind]. apply not_ok_bind.
    apply (Ja Wa Pa x Hv); tauto.
Qed.

Theorem not_a_value_not_encoded m t : Jprop m t.
Proof.
  induction t using ty_ind'.
  - intros _ _ v Hv _ Hx. destruct v; try (exfalso; exact Hv). discriminate Hx.
  - intros _ _ v Hv _ Hx. destruct v; try (exfalso; exact Hv). discriminate Hx.
  - apply J_int.
  - apply J_str.
  - apply J_octets.
  - apply J_bitstr.
  - apply J_list; [apply enc_is_x691|assumption].
  - apply J_seq; assumption.
  - apply J_choice; assumption.
  - apply J_enum.
Qed.

Theorem not_a_value_rejected m t v w : wf_ty t -> wf_val t v -> in_profile t -> ~ Known_C02 t v ->
  x691 t v = None -> wst_wf w -> w_scope w = None -> is_ok (write_ty m t v w) = false.
Proof.
  intros Hty Hv Hp Hk Hx Hw Hs. pose proof (write_enc m t Hty v w Hw Hs) as S.
  pose proof (not_a_value_not_encoded m t Hty Hp v Hv Hk Hx) as E.
  unfold wsim in S. destruct (enc m t v); [discriminate E|exact S|exact S].
Qed.

(** * values of the ASN.1 type: [x691] is defined on them outside the classes *)
Fixpoint sat (t : ty) (v : val) {struct t} : Prop :=
  match t, v with
  | TBool, VBool _ => True
  | TNull, VNull => True
  | TInt _ lo hi ext, VInt z => ext = true \/ in_range lo hi z = true
  | TEnum vc std ext, VEnum i => i < vc /\ (ext = true \/ i < std)
  | TStr c lo hi ext, VStr cs =>
      forallb (cs_valid c) cs = true /\ (ext = true \/ in_root lo hi (N.of_nat (length cs)))
  | TOctets lo hi ext, VOctets bs => ext = true \/ in_root lo hi (blen bs)
  | TBitStr lo hi ext, VBits _ n => ext = true \/ in_root lo hi n
  | TListOf e lo hi ext, VList vs =>
      (ext = true \/ in_root lo hi (N.of_nat (length vs))) /\
      (fix all (vs : list val) : Prop := match vs with [] => True | x :: r => sat e x /\ all r end) vs
  | TSeq fs _ _ _, VSeq vals =>
      (fix all (fs : list (fkind * ty)) (vals : list (option val)) : Prop :=
         match fs, vals with
         | [], [] => True
         | (k, ft) :: fs', ov :: vals' =>
             match ov with Some x => sat ft x | None => k = FOpt end /\ all fs' vals'
         | _, _ => False
         end) fs vals
  | TChoice alts std ext, VChoice i x =>
      (ext = true \/ i < std) /\
      (fix pick (alts : list ty) (n : nat) : Prop :=
         match alts, n with
         | a :: _, O => sat a x
         | _ :: r, S n' => pick r n'
         | [], _ => False
         end) alts (N.to_nat i)
  | _, _ => False
  end.

Definition Sprop (t : ty) : Prop :=
  wf_ty t -> in_profile t -> forall v, wf_val t v -> sat t v -> ~ Known_C02 t v -> x691 t v <> None.

Lemma sized_defined unit lo hi ext n body : ext = true \/ in_root lo hi n ->
  x_sized_run unit lo hi ext n body <> None.
Proof.
  intros H C. apply sized_none in C. destruct C as [-> C]. destruct H as [H|[H1 H2]]; [discriminate H|].
  destruct C as [C|(u & -> & C)]; lia.
Qed.

Lemma x_hdr_defined lo hi ext n : ext = true \/ in_root lo hi n -> x_hdr lo hi ext n <> None.
Proof.
  intros H. unfold x_hdr. cbv zeta.
  destruct ((opt_or lo 0 <=? n) && match hi with Some u => n <=? u | None => true end) eqn:E.
  - destruct hi as [u|]; [|discriminate].
    destruct (x_constrained_some (Z.of_N (opt_or lo 0)) (Z.of_N u) (Z.of_N n) ltac:(lia)) as [b ->]. discriminate.
  - destruct ext; [discriminate|]. destruct H as [H|[H1 H2]]; [discriminate H|]. destruct hi; lia.
Qed.

Definition all_sat_fields :=
  fix all (fs : list (fkind * ty)) (vals : list (option val)) : Prop :=
    match fs, vals with
    | [], [] => True
    | (k, ft) :: fs', ov :: vals' =>
        match ov with Some x => sat ft x | None => k = FOpt end /\ all fs' vals'
    | _, _ => False
    end.
Definition pick_sat (x : val) :=
  fix pick (alts : list ty) (n : nat) : Prop :=
    match alts, n with a :: _, O => sat a x | _ :: r, S n' => pick r n' | [], _ => False end.
Lemma pick_sat_nth x : forall alts k,
  pick_sat x alts k = match nth_error alts k with Some a => sat a x | None => False end.
Proof. induction alts as [|a alts IH]; intros [|k]; cbn [pick_sat nth_error]; auto. Qed.

Lemma S_fields ea : forall fs, Forall (fun f => Sprop (snd f)) fs -> all_wf_fields fs -> all_prof_fields fs ->
  forall vals i, all_wf_vals fs vals -> all_sat_fields fs vals -> ~ any_known_f2 ea fs vals i ->
  x_comps fs vals <> None.
Proof.
  induction fs as [|[k ft] fs IHl]; intros F Hty Hp [|ov vals] i Hv Hs Hk; try contradiction Hv.
  - discriminate.
  - apply Forall_cons_iff in F. destruct F as [HS F]. cbn [snd] in HS.
    cbn [all_wf_fields] in Hty. destruct Hty as (Ht & Hd & Hty).
    cbn [all_prof_fields] in Hp. destruct Hp as (Hp1 & Hp).
    cbn [all_wf_vals] in Hv. destruct Hv as [Hv1 Hv].
    cbn [all_sat_fields] in Hs. destruct Hs as [Hs1 Hs].
    cbn [any_known_f2] in Hk. rewrite x_comps_cons.
    pose proof (IHl F Hty Hp vals (S i) Hv Hs ltac:(tauto)) as Hr.
    destruct (x_comps fs vals) as [r|]; [|congruence].
    assert (Hc : x_comp (k, ft) ov <> None).
    { unfold known_field in Hk.
      assert (Hn : forall x, ov = Some x -> encoded k x -> x691 ft x <> None).
      { intros x -> He. apply (HS Ht Hp1 x Hv1 Hs1). intros K. apply Hk. left. split; [exact He|left; exact K]. }
      destruct k as [| |d], ov as [x|]; cbn [x_comp]; try discriminate Hv1; try discriminate.
      - pose proof (Hn x eq_refl I). destruct (x691 ft x); [discriminate|congruence].
      - pose proof (Hn x eq_refl I). destruct (x691 ft x); [discriminate|congruence].
      - destruct (val_eqb d x) eqn:Ed; [discriminate|].
        pose proof (Hn x eq_refl Ed). destruct (x691 ft x); [discriminate|congruence]. }
    destruct (x_comp (k, ft) ov); [discriminate|congruence].
Qed.

Theorem sat_defined t : Sprop t.
Proof.
  induction t using ty_ind'; intros Hty Hp v Hv Hs Hk; destruct v; try (exfalso; exact Hv).
  - discriminate.
  - discriminate.
  - cbn [x691 sat] in *. unfold x_integer.
    destruct (in_range lo hi z) eqn:Er.
    + unfold in_range in Er. destruct lo as [l|], hi as [h|]; cbn [is_some] in Hp; destruct Hp as [Hp _]; try discriminate Hp.
      * destruct (x_constrained_some l h z ltac:(lia)) as [b ->]. discriminate.
      * discriminate.
    + destruct Hs as [->|Hs]; [discriminate|discriminate Hs].
  - (* strings *)
    cbn [sat in_profile wf_val] in *. destruct Hs as [Hf Hs].
    destruct (match c with Utf8 => true | _ => false end) eqn:Ec.
    + destruct c; try discriminate Ec. cbn [x691].
      replace (in_size lo hi (N.of_nat (length chars)) || e) with true.
      * apply sized_defined. right. unfold in_root. cbn [opt_or]. split; [lia|exact I].
      * destruct Hs as [->|[H1 H2]]; [rewrite orb_true_r; reflexivity|].
        unfold in_size. destruct lo, hi; cbn [opt_or] in *; lia.
    + assert (E : x691 (TStr c lo hi e) (VStr chars) =
                  if forallb (cs_valid c) chars
                  then x_run (char_unit c) lo hi e (N.of_nat (length chars)) (flat_map (x_char c) chars)
                  else None) by (destruct c; try discriminate Ec; reflexivity).
      rewrite E, Hf. apply sized_defined. exact Hs.
  - cbn [x691 sat] in *. apply sized_defined. exact Hs.
  - cbn [x691 sat wf_val] in *. destruct Hv as [Hc Hn].
    destruct (canonical_content _ _ Hc) as (Hl & _ & Hle). cbv zeta in Hl.
    unfold x_bitstring. fold (bl (firstn (N.to_nat bit_len) (bits_of_bytes bytes))). rewrite Hl.
    apply sized_defined. exact Hs.
  - (* SEQUENCE OF *)
    destruct Hty as [Hb Hty]. destruct Hp as [Hp Hpe]. rewrite x691_list_eq.
    cbn [wf_val] in Hv. destruct Hv as [Hn Hv]. cbn [Known_C02] in Hk. cbn [sat] in Hs. destruct Hs as [Hs1 Hs].
    assert (Ha : x_all (x691 t) vs <> None).
    { assert (Hk2 : ~ any_known2 t vs) by tauto. clear Hk Hn Hs1.
      induction vs as [|y vs IHl]; [discriminate|]. cbn [x_all]. cbn [all_wf_val] in Hv. cbn [any_known2] in Hk2.
      pose proof (IHt Hty Hpe y (proj1 Hv) (proj1 Hs) ltac:(tauto)) as H1.
      pose proof (IHl (proj2 Hv) (proj2 Hs) ltac:(tauto)) as H2.
      destruct (x691 t y); [|congruence]. destruct (x_all (x691 t) vs); [discriminate|congruence]. }
    destruct (x_all (x691 t) vs) as [body|]; [|congruence].
    rewrite list_form_hdr; [|exact Hp|tauto].
    pose proof (x_hdr_defined lo hi x (N.of_nat (length vs)) Hs1) as Hh.
    destruct (x_hdr lo hi x (N.of_nat (length vs))); [discriminate|congruence].
  - (* SEQUENCE *)
    rename fields into vals. apply wf_ty_seq in Hty. destruct Hty as [_ Hf]. rewrite x691_seq_eq.
    change (wf_val (TSeq fs so fc ea) (VSeq vals)) with (all_wf_vals fs vals) in Hv.
    change (in_profile (TSeq fs so fc ea)) with (all_prof_fields fs) in Hp.
    change (sat (TSeq fs so fc ea) (VSeq vals)) with (all_sat_fields fs vals) in Hs.
    change (Known_C02 (TSeq fs so fc ea) (VSeq vals)) with
      ((let ps := skipn (root_len fs ea) (presents fs vals) in
        more_than_64_additions ps \/ first_addition_absent ps) \/ any_known_f2 ea fs vals 0) in Hk.
    pose proof (S_fields ea fs H Hf Hp vals 0%nat Hv Hs ltac:(tauto)) as Hc.
    destruct (x_comps fs vals); [discriminate|congruence].
  - (* CHOICE *)
    rename index into i, v into x. destruct Hty as (H1 & H2 & H3 & H4 & Hty). rewrite x691_choice_eq.
    change (wf_val (TChoice alts std ext) (VChoice i x)) with (pick_wf x alts (N.to_nat i)) in Hv.
    change (Known_C02 (TChoice alts std ext) (VChoice i x)) with (known_pick std i x alts (N.to_nat i)) in Hk.
    change (sat (TChoice alts std ext) (VChoice i x)) with
      ((ext = true \/ i < std) /\ pick_sat x alts (N.to_nat i)) in Hs.
    destruct Hs as [Hs1 Hs].
    rewrite pick_wf_nth in Hv. rewrite known_pick_nth in Hk. rewrite pick_sat_nth in Hs. rewrite x_pick_nth.
    destruct (nth_error alts (N.to_nat i)) as [a|] eqn:En; [|contradiction Hv].
    assert (Li : i < N.of_nat (length alts)).
    { pose proof (proj1 (nth_error_Some alts (N.to_nat i)) ltac:(congruence)). lia. }
    destruct (N.leb_spec (N.of_nat (length alts)) i) as [Li'|_]; [lia|].
    pose proof (nth_error_In _ _ En) as Hin.
    assert (Sa : Sprop a) by (rewrite Forall_forall in H; apply H; exact Hin).
    assert (Wa : wf_ty a) by (pose proof (all_wf_ty_Forall alts Hty) as F; rewrite Forall_forall in F; apply F; exact Hin).
    assert (Pa : in_profile a) by (pose proof (all_in_profile_Forall alts Hp) as F; rewrite Forall_forall in F; apply F; exact Hin).
    pose proof (Sa Wa Pa x Hv Hs ltac:(tauto)) as Hb.
    destruct (x691 a x) as [b|]; [|congruence].
    destruct (N.ltb_spec i std) as [L|L].
    + destruct (x_constrained_some 0 (Z.of_N std - 1) (Z.of_N i) ltac:(lia)) as [ib ->]. discriminate.
    + destruct Hs1 as [->|Hs1]; [discriminate|lia].
  - cbn [x691 sat wf_val] in *. destruct Hs as [Hs1 Hs2]. destruct (N.ltb_spec index vc); [|lia].
    unfold x_index. destruct (N.ltb_spec index std) as [L|L].
    + destruct (x_constrained_some 0 (Z.of_N std - 1) (Z.of_N index) ltac:(lia)) as [ib ->]. discriminate.
    + destruct Hs2 as [->|Hs2]; [discriminate|lia].
Qed.

(* the statement of C02 with the hypothesis "v is a value of the type" spelled out *)
Theorem reference_is_x691_sat m t v : wf_ty t -> wf_val t v -> in_profile t -> sat t v ->
  ~ Known_C02 t v -> exists bs, x691 t v = Some bs /\ enc m t v = Ok bs.
Proof.
  intros Hty Hv Hp Hs Hk. apply reference_is_x691; try assumption.
  exact (sat_defined t Hty Hp v Hv Hs Hk).
Qed.

Example nonvacuous_sat : sat ex_ty ex_val.
Proof. vm_compute. intuition (try reflexivity; try discriminate). Qed.

(* both directions in one statement: outside the classes the writer answers exactly what X.691 says *)
Theorem writer_exact m t v w : wf_ty t -> wf_val t v -> in_profile t -> ~ Known_C02 t v ->
  wst_wf w -> w_scope w = None ->
  match x691 t v with
  | Some bs => write_ty m t v w = Ok (w_append w bs)
  | None => is_ok (write_ty m t v w) = false
  end.
Proof.
  intros Hty Hv Hp Hk Hw Hs. destruct (x691 t v) as [bs|] eqn:E.
  - apply writer_is_x691; assumption.
  - apply not_a_value_rejected; assumption.
Qed.
