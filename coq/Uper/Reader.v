(* Uper/Reader.v -- stub, to be filled *)
