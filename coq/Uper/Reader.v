(* L2 reader: model of `impl Reader for UperReader<Bits>` in src/rw/uper.rs — Scope::read_from_field,
   read_bit_field_entry, scope_pushed/stashed, with_buffer, read_whole_sub_slice (whose
   `mem::replace(&mut self.bits.len(), ..)` acts on a temporary and so does not narrow the window),
   and every read_* method; the generated read_seq is the field walk over [TSeq]. *)
From A1 Require Export Uper.Writer.
Local Open Scope N_scope.

Record rst := { r_src : src; r_scope : option scope }.
Definition r_of_src (s : src) : rst := {| r_src := s; r_scope := None |}.
Definition r_set_src (r : rst) (s : src) : rst := {| r_src := s; r_scope := r_scope r |}.
Definition r_set_scope (r : rst) (sc : option scope) : rst := {| r_src := r_src r; r_scope := sc |}.

(* lift an L1 reader *)
Definition r_get {A} (r : rst) (f : src -> res (A * src)) : res (A * rst) :=
  let! (a, s) := f (r_src r) in Ok (a, r_set_src r s).

(* elements of sequence-of / fields are bounded by this many iterations in the model;
   a larger count is the "unbounded work" outcome *)
Definition LOOP_LIMIT : N := 16777216.

(** Scope::read_from_field. The Rust function mutates the scope (and the cursor) before it may
    fail, and read_sequence drops the error of its own entry (`let _ = ...`), so the model returns
    the state together with either the Option<bool> or the error kind. *)
Definition fres := (option bool + N)%type.
Definition f_ok (ob : option bool) : fres := inl ob.
Definition f_err (e : N) : fres := inr e.

(* with_read_position_at(pos, read_bit) as a value: Err kinds as data, panics stay panics *)
Definition bit_at (r : rst) (p : N) : res (bool + N) :=
  match r_bit_at (r_src r) p with
  | Ok b => Ok (inl b)
  | Err e => Ok (inr e)
  | Panic q => Panic q
  end.

Definition read_from_field_simple (r : rst) (sc : scope) (is_opt : bool) : res (fres * rst) :=
  match sc with
  | OptBitField a b =>
      if b <=? a then Ok (f_ok (Some false), r)
      else if is_opt then
        let! x := bit_at r a in
        let r' := r_set_scope r (Some (OptBitField (a + 1) b)) in
        Ok (match x with inl bit => f_ok (Some bit) | inr e => f_err e end, r')
      else Ok (f_ok None, r)
  | AllBitField a b =>
      if a <? b then
        let! x := bit_at r a in
        let r' := r_set_scope r (Some (AllBitField (a + 1) b)) in
        Ok (match x with inl bit => f_ok (Some bit) | inr e => f_err e end, r')
      else Ok (f_ok (Some false), r)
  | ExtSeqEmpty => Ok (f_ok (Some false), r)
  | ExtSeq _ _ _ _ => Panic P_OTHER
  end.

(* cursor after a failed read_normally_small_length (reads that fail do not advance) *)
Definition pos_after_failed_len_unc (s : src) : N :=
  match r_bit s with
  | Ok (b1, s1) =>
      if negb b1 then s_pos s1
      else match r_bit s1 with
           | Ok (_, s2) => s_pos s2
           | _ => s_pos s1
           end
  | _ => s_pos s
  end.
Definition pos_after_failed_normally_small (m : mode) (s : src) : N :=
  match r_bit s with
  | Ok (big, s1) =>
      if big then
        match r_length_determinant_unc s1 with
        | Ok (_, s2) => s_pos s2
        | _ => pos_after_failed_len_unc s1
        end
      else s_pos s1
  | _ => s_pos s
  end.

Definition read_from_field (m : mode) (r : rst) (sc : scope) (is_opt : bool) : res (fres * rst) :=
  match sc with
  | ExtSeq bit_pos opt calls n_ext =>
      if calls =? 0 then
        let! x := bit_at r bit_pos in
        match x with
        | inr e => Ok (f_err e, r)
        | inl ext =>
          if ext then
            match r_normally_small m (r_src r) with
            | Panic q => Panic q
            | Err e =>
                let s := r_src r in
                let p := pos_after_failed_normally_small m s in
                Ok (f_err e, r_set_src r (src_adv s (p - s_pos s) (skipn (N.to_nat (p - s_pos s)) (s_rest s))))
            | Ok (n, s) =>
                let r := r_set_src r s in
                let read_n := N.min (n + 1) (two64 - 1) in      (* saturating_add(1) *)
                let start := s_pos (r_src r) in
                (* saturating_add; the range covers the transmitted presence bits *)
                let stop := N.min (start + read_n) (two64 - 1) in
                let r := r_set_src r (src_set_pos (r_src r) stop) in
                let sc' := AllBitField start stop in
                read_from_field_simple (r_set_scope r (Some sc')) sc' is_opt
            end
          else
            read_from_field_simple (r_set_scope r (Some ExtSeqEmpty)) ExtSeqEmpty is_opt
        end
      else
        let calls' := calls - 1 in
        match opt with
        | Some (a, b) =>
            if is_opt then
              let! x := bit_at r a in
              let r' := r_set_scope r (Some (ExtSeq bit_pos (Some (a + 1, b)) calls' n_ext)) in
              Ok (match x with inl bit => f_ok (Some bit) | inr e => f_err e end, r')
            else Ok (f_ok None, r_set_scope r (Some (ExtSeq bit_pos opt calls' n_ext)))
        | None => Ok (f_ok None, r_set_scope r (Some (ExtSeq bit_pos opt calls' n_ext)))
        end
  | _ => read_from_field_simple r sc is_opt
  end.

(* state and outcome of read_bit_field_entry *)
Definition read_bit_field_entry_st (m : mode) (r : rst) (is_opt : bool) : res (fres * rst) :=
  match r_scope r with
  | Some sc => read_from_field m r sc is_opt
  | None =>
      if is_opt then
        match r_bit (r_src r) with
        | Ok (b, s) => Ok (f_ok (Some b), r_set_src r s)
        | Err e => Ok (f_err e, r)
        | Panic q => Panic q
        end
      else Ok (f_ok None, r)
  end.

(* read_bit_field_entry(is_opt)? *)
Definition read_bit_field_entry (m : mode) (r : rst) (is_opt : bool) : res (option bool * rst) :=
  let! (x, r') := read_bit_field_entry_st m r is_opt in
  match x with inl ob => Ok (ob, r') | inr e => Err e end.

(* skip_unknown_extension_additions: every present addition beyond the locally known ones is
   skipped by its open-type length *)
Fixpoint skip_unknown_loop (fuel : nat) (m : mode) (r : rst) (p stop : N) : res rst :=
  match fuel with
  | O => Ok r
  | S f =>
      if stop <=? p then Ok r else
      let! bit := r_bit_at (r_src r) p in
      if bit then
        let! (len, r) := r_get r (r_length_determinant m None None) in
        let! lb := umul m len BYTE_LEN in
        let! e := uadd m (s_pos (r_src r)) lb in
        let s' := src_set_pos (r_src r) e in
        if s_pos s' =? e then skip_unknown_loop f m (r_set_src r s') (p + 1) stop
        else Err E_END_OF_STREAM
      else skip_unknown_loop f m r (p + 1) stop
  end.

Definition skip_unknown_extension_additions (m : mode) (r : rst) : res rst :=
  match r_scope r with
  | Some (AllBitField a b) =>
      (* a position at or beyond the declared length fails with EndOfStream at once, so the walk is bounded by it *)
      let fuel := S (N.to_nat (N.min (b - a) (s_len (r_src r) + 1 - N.min a (s_len (r_src r) + 1)))) in
      skip_unknown_loop fuel m (r_set_scope r (Some (AllBitField b b))) a b
  | Some (ExtSeq _ _ 0 _) =>
      let! (n, r) := r_get r (r_normally_small m) in
      let count := N.min (n + 1) (two64 - 1) in
      let start := s_pos (r_src r) in
      let stop := N.min (start + count) (two64 - 1) in
      let r := r_set_src r (src_set_pos (r_src r) stop) in
      let fuel := S (N.to_nat (N.min (stop - start) (s_len (r_src r) + 1 - N.min start (s_len (r_src r) + 1)))) in
      skip_unknown_loop fuel m (r_set_scope r (Some (AllBitField stop stop))) start stop
  | _ => Ok r
  end.

Definition rscope_pushed {A} (m : mode) (r : rst) (sc : scope) (f : rst -> res (A * rst)) : res (A * rst) :=
  let original := r_scope r in
  let! (a, r') := f (r_set_scope r (Some sc)) in
  if debug_asserts m && negb (match r_scope r' with Some s => scope_exhausted s | None => false end)
  then Panic P_ASSERT
  else Ok (a, r_set_scope r' original).

Definition rscope_stashed {A} (r : rst) (f : rst -> res (A * rst)) : res (A * rst) :=
  let original := r_scope r in
  let! (a, r') := f (r_set_scope r None) in
  Ok (a, r_set_scope r' original).

(* read_whole_sub_slice(length_bytes, f): the window is not narrowed; on success the cursor jumps to the end *)
Definition read_whole_sub_slice {A} (m : mode) (r : rst) (length_bytes : N) (f : rst -> res (A * rst)) : res (A * rst) :=
  let! lb := umul m length_bytes BYTE_LEN in
  let! write_position := uadd m (s_pos (r_src r)) lb in
  let! (a, r') := f r in
  Ok (a, r_set_src r' (src_set_pos (r_src r') write_position)).

Definition rwith_buffer {A} (m : mode) (r : rst) (f : rst -> res (A * rst)) : res (A * rst) :=
  if match r_scope r with Some s => encode_as_open_type_field s | None => false end then
    let! (len, r) := r_get r (r_length_determinant m None None) in
    read_whole_sub_slice m r len f
  else f r.

Definition read_len_ext (m : mode) (r : rst) (ext : bool) (lo hi : option N) : res (N * rst) :=
  if ext then
    let! (e, r) := r_get r r_bit in
    if e then r_get r (r_length_determinant m None None)
    else r_get r (r_length_determinant m lo hi)
  else r_get r (r_length_determinant m lo hi).

(* n times: read_bits_with_offset(&mut buffer[i..i+1], off) *)
Fixpoint read_chars (n : nat) (width : N) (r : rst) (acc : list N) : res (list N * rst) :=
  match n with
  | O => Ok (frev acc, r)
  | S n' =>
      let! (bs, r) := r_get r (fun s => r_bits_into s 8 (8 - width) width) in
      read_chars n' width r (val_of_bits bs :: acc)
  end.

Definition from_utf8 (bytes : list N) : res val :=
  match utf8_decode bytes with Some cs => Ok (VStr cs) | None => Err E_UTF8 end.

Fixpoint read_ty (m : mode) (t : ty) (r : rst) {struct t} : res (val * rst) :=
  match t with
  | TBool =>
      let! (_, r) := read_bit_field_entry m r false in
      rwith_buffer m r (fun r => let! (b, r) := r_get r r_bit in Ok (VBool b, r))
  | TNull =>
      let! (_, r) := read_bit_field_entry m r false in
      rwith_buffer m r (fun r => Ok (VNull, r))
  | TInt k lo hi ext =>
      let! (_, r) := read_bit_field_entry m r false in
      rwith_buffer m r (fun r =>
        let! (unconstrained, r) :=
          (if ext then r_get r r_bit else Ok (negb (is_some lo) && negb (is_some hi), r)) in
        let! (z, r) :=
          (if unconstrained then r_get r (r_unconstrained m)
           else r_get r (r_constrained m (opt_or lo 0%Z) (opt_or hi I64_MAXz))) in
        Ok (VInt (from_i64 k z), r))
  | TStr Utf8 lo hi ext =>
      let! (_, r) := read_bit_field_entry m r false in
      rwith_buffer m r (fun r =>
        let! (bs, r) := r_get r (r_octetstring m None None false) in
        let! v := from_utf8 (bytes_of_bits bs) in Ok (v, r))
  | TStr c lo hi ext =>
      let! (_, r) := read_bit_field_entry m r false in
      rwith_buffer m r (fun r =>
        let! (len, r) := read_len_ext m r ext lo hi in
        let! _ := alloc len in
        let width := match c with Numeric => 4 | _ => 7 end in
        (* every character consumes [width] bits, so a count not covered by the input fails with
           EndOfStream after at most remaining/width + 1 iterations *)
        let rem := s_len (r_src r) - s_pos (r_src r) in
        let iters := N.min len (rem / width + 1) in
        let! (codes, r) := read_chars (N.to_nat iters) width r [] in
        if iters <? len then Panic P_OTHER else
        let codes := match c with
                     | Numeric => map (fun x => if x =? 0 then 32 else 32 + 15 + x) codes
                     | _ => codes end in
        let! v := from_utf8 codes in Ok (v, r))
  | TOctets lo hi ext =>
      let! (_, r) := read_bit_field_entry m r false in
      rwith_buffer m r (fun r =>
        let! (bs, r) := r_get r (r_octetstring m lo hi ext) in Ok (VOctets (bytes_of_bits bs), r))
  | TBitStr lo hi ext =>
      let! (_, r) := read_bit_field_entry m r false in
      rwith_buffer m r (fun r =>
        let! (x, r) := r_get r (r_bitstring m lo hi ext) in
        let '(bs, bl, buflen) := x in
        let bytes := bytes_of_bits bs in
        Ok (VBits (bytes ++ repeat 0 (N.to_nat buflen - length bytes)) bl, r))
  | TListOf e lo hi ext =>
      let! (_, r) := read_bit_field_entry m r false in
      rwith_buffer m r (fun r =>
        let! (len, r) := read_len_ext m r ext lo hi in
        if 0 <? len then
          rscope_stashed r (fun r =>
            (* Vec::with_capacity(len): the element type of the harness is a few dozen bytes wide *)
            let! _ := alloc (len * 64) in
            (* an element that succeeds without consuming a bit repeats forever: a count beyond the
               input then means unbounded work; otherwise the walk ends in an error within remaining + 1 steps *)
            let rem := s_len (r_src r) - s_pos (r_src r) in
            let big := LOOP_LIMIT <? len in
            let iters := if big then N.min len (rem + 2) else len in
            (fix elems (n : nat) (r : rst) (acc : list val) : res (val * rst) :=
               match n with
               | O => if big then Panic P_UNBOUNDED else Ok (VList (frev acc), r)
               | S n' =>
                   let! (x, r') := read_ty m e r in
                   if big && (s_pos (r_src r') =? s_pos (r_src r)) then Panic P_UNBOUNDED
                   else elems n' r' (x :: acc)
               end) (N.to_nat iters) r [])
        else Ok (VList [], r))
  | TSeq fs std_opt field_count ext_after =>
      (* `let _ = self.read_bit_field_entry(false);` -- the result, even an error, is dropped *)
      let! (_, r) := read_bit_field_entry_st m r false in
      rwith_buffer m r (fun r =>
        let bit_pos := s_pos (r_src r) in
        let! (ext, r) :=
          (match ext_after with
           | Some _ => r_get r r_bit
           | None => Ok (false, r)
           end) in
        let! rem := src_remaining m (r_src r) in
        if rem <? std_opt then Err E_END_OF_STREAM else
        let start := s_pos (r_src r) in
        let! stop := uadd m start std_opt in
        let r := r_set_src r (src_set_pos (r_src r) stop) in
        let walk (r : rst) : res (val * rst) :=
          (fix fields (fs : list (fkind * ty)) (r : rst) (acc : list (option val)) : res (val * rst) :=
             match fs with
             | [] => Ok (VSeq (frev acc), r)
             | (FReq, ft) :: fs' =>
                 let! (x, r) := read_ty m ft r in fields fs' r (Some x :: acc)
             | (FOpt, ft) :: fs' =>
                 let! (ob, r) := read_bit_field_entry m r true in
                 match ob with
                 | None => Panic P_UNWRAP
                 | Some true =>
                     let! (x, r) := rwith_buffer m r (fun r => rscope_stashed r (fun r => read_ty m ft r)) in
                     fields fs' r (Some x :: acc)
                 | Some false => fields fs' r (None :: acc)
                 end
             | (FDef d, ft) :: fs' =>
                 let! (ob, r) := read_bit_field_entry m r true in
                 match ob with
                 | None => Panic P_UNWRAP
                 | Some true =>
                     let! (x, r) := rwith_buffer m r (fun r => rscope_stashed r (fun r => read_ty m ft r)) in
                     fields fs' r (Some x :: acc)
                 | Some false => fields fs' r (Some d :: acc)
                 end
             end) fs r [] in
        match ext_after, ext with
        | Some ea, true =>
            let! nx := usub m field_count (ea + 1) in
            rscope_pushed m r (ExtSeq bit_pos (Some (start, stop)) (ea + 1) nx)
              (fun r => let! (v, r) := walk r in
                        let! r := skip_unknown_extension_additions m r in Ok (v, r))
        | _, _ => rscope_pushed m r (OptBitField start stop) walk
        end)
  | TChoice alts std ext =>
      let! (_, r) := read_bit_field_entry m r false in
      rscope_stashed r (fun r =>
        let! (index, r) := r_get r (r_enumeration_index m std ext) in
        let content (r : rst) : res (option val * rst) :=
          (* an index beyond the alternatives: read_content answers None (no unary conversion of a huge index) *)
          if N.of_nat (length alts) <=? index then Ok (None, r) else
          (fix pick (alts : list ty) (i : nat) : res (option val * rst) :=
             match alts, i with
             | a :: _, O => let! (x, r) := read_ty m a r in Ok (Some (VChoice index x), r)
             | _ :: rest, S i' => pick rest i'
             | [], _ => Ok (None, r)
             end) alts (N.to_nat index) in
        let! (ov, r) :=
          (if std <=? index then
             let! (length, r) := r_get r (r_length_determinant m None None) in
             read_whole_sub_slice m r length content
           else content r) in
        match ov with
        | Some v => Ok (v, r)
        | None => Err E_INVALID_CHOICE
        end)
  | TEnum variant_count std ext =>
      let! (_, r) := read_bit_field_entry m r false in
      let! (index, r) := rwith_buffer m r (fun r => r_get r (r_enumeration_index m std ext)) in
      if index <? variant_count then Ok (VEnum index, r) else Err E_INVALID_CHOICE
  end.
