(* C19: erasing the diagnostics log from the reader of the feature build (Uper/ReaderD.v) gives the
   reader of the default build (Uper/Reader.v): same Ok value, same error kind, same panic class, and
   the same cursor / declared length / scope afterwards.  Every cfg-gated statement is a log-only update. *)
From A1 Require Export Uper.ReaderD.
Local Open Scope N_scope.

(** * induction principle for the nested type universe *)
Section TyInd.
  Variable P : ty -> Prop.
  Hypothesis HBool : P TBool.
  Hypothesis HNull : P TNull.
  Hypothesis HInt : forall k lo hi e, P (TInt k lo hi e).
  Hypothesis HStr : forall c lo hi e, P (TStr c lo hi e).
  Hypothesis HOct : forall lo hi e, P (TOctets lo hi e).
  Hypothesis HBit : forall lo hi e, P (TBitStr lo hi e).
  Hypothesis HList : forall e lo hi x, P e -> P (TListOf e lo hi x).
  Hypothesis HSeq : forall fs so fc ea, Forall (fun f => P (snd f)) fs -> P (TSeq fs so fc ea).
  Hypothesis HChoice : forall alts std ext, Forall P alts -> P (TChoice alts std ext).
  Hypothesis HEnum : forall vc std ext, P (TEnum vc std ext).
  Fixpoint ty_rect_nested (t : ty) : P t :=
    match t with
    | TBool => HBool
    | TNull => HNull
    | TInt k lo hi e => HInt k lo hi e
    | TStr c lo hi e => HStr c lo hi e
    | TOctets lo hi e => HOct lo hi e
    | TBitStr lo hi e => HBit lo hi e
    | TListOf e lo hi x => HList e lo hi x (ty_rect_nested e)
    | TSeq fs so fc ea =>
        HSeq fs so fc ea
          ((fix go (fs : list (fkind * ty)) : Forall (fun f => P (snd f)) fs :=
              match fs with
              | [] => Forall_nil _
              | f :: r => Forall_cons f (match f as f0 return P (snd f0) with (k, ft) => ty_rect_nested ft end) (go r)
              end) fs)
    | TChoice alts std ext =>
        HChoice alts std ext
          ((fix go (l : list ty) : Forall P l :=
              match l with
              | [] => Forall_nil _
              | a :: r => Forall_cons a (ty_rect_nested a) (go r)
              end) alts)
    | TEnum vc std ext => HEnum vc std ext
    end.
End TyInd.

(** * erasure of results *)
Definition er {A} (x : dres A) : res (A * rst) :=
  match x with DOk a r => Ok (a, erase r) | DErr e _ => Err e | DPanic p => Panic p end.
Definition er_st {X} (x : res (X * rstd)) : res (X * rst) :=
  match x with Ok (a, r) => Ok (a, erase r) | Err e => Err e | Panic p => Panic p end.
(* [x] (feature build) and [y] (default build) agree up to the log *)
Definition sim {A} (x : dres A) (y : res (A * rst)) : Prop := er x = y.

Lemma erase_push r c : erase (push r c) = erase r.
Proof. reflexivity. Qed.

Lemma sim_bind {A B} (x : dres A) (y : res (A * rst)) (k : A -> rstd -> dres B) (k' : A * rst -> res (B * rst)) :
  sim x y -> (forall a r, sim (k a r) (k' (a, erase r))) -> sim (dbind x k) (bind y k').
Proof. unfold sim; intros Hx Hk; subst y. destruct x as [a r|e l|p]; cbn [dbind er bind]; auto. Qed.

Lemma sim_bind_assoc {A B C} (x : dres A) (y : res (A * rst)) (k : A -> rstd -> dres C)
      (f' : A * rst -> res (B * rst)) (g' : B * rst -> res (C * rst)) :
  sim x y -> (forall a r, sim (k a r) (bind (f' (a, erase r)) g')) -> sim (dbind x k) (bind (bind y f') g').
Proof. unfold sim; intros Hx Hk; subst y. destruct x as [a r|e l|p]; cbn [dbind er bind]; auto. Qed.

Lemma sim_after {A} c (x : dres A) y : sim x y -> sim (d_after c x) y.
Proof. unfold sim; intros Hx; subst y. destruct x; reflexivity. Qed.

Lemma sim_pure_bind {A B} r (x : res A) (k : A -> rstd -> dres B) (k' : A -> res (B * rst)) :
  (forall a, sim (k a r) (k' a)) -> sim (dbind (d_pure r x) k) (bind x k').
Proof. intros Hk. destruct x as [a|e|p]; cbn [d_pure dbind bind]; [apply Hk|reflexivity|reflexivity]. Qed.

Lemma sim_run {A} r (f : rst -> res (A * rst)) : sim (d_run r f) (f (erase r)).
Proof. unfold sim, d_run, erase. destruct (f (rd_st r)) as [[a r']| |]; reflexivity. Qed.

Lemma sim_get {A} r (f : src -> res (A * src)) : sim (d_get r f) (r_get (erase r) f).
Proof. exact (sim_run r (fun r0 => r_get r0 f)). Qed.

Lemma sim_ok {A} (a : A) r : sim (DOk a r) (Ok (a, erase r)).
Proof. reflexivity. Qed.

Lemma er_st_run {X} rd (x : res (X * rst)) : er_st (st_run rd x) = x.
Proof. destruct x as [[a r]| |]; reflexivity. Qed.

(** * Scope::read_from_field and read_bit_field_entry *)
Lemma read_from_field_erase m r sc o :
  er_st (read_from_field_d m r sc o) = read_from_field m (erase r) sc o.
Proof.
  unfold read_from_field_d, read_from_field, erase.
  destruct sc as [a b|a b|bp opt calls nx|]; try apply er_st_run.
  destruct (calls =? 0).
  - destruct (bit_at (rd_st r) bp) as [[ext|e]| |]; cbn [bind]; try reflexivity.
    destruct ext; [|apply er_st_run].
    destruct (r_normally_small m (r_src (rd_st r))) as [[n s]| |]; try reflexivity.
    cbv zeta. destruct (nx <? N.min (n + 1) (two64 - 1)); apply er_st_run.
  - destruct opt as [[a b]|]; [destruct o|]; try reflexivity.
    destruct (bit_at (rd_st r) a) as [x| |]; reflexivity.
Qed.

Lemma read_bit_field_entry_st_erase m r o :
  er_st (read_bit_field_entry_st_d m r o) = read_bit_field_entry_st m (erase r) o.
Proof.
  unfold read_bit_field_entry_st_d, read_bit_field_entry_st.
  change (r_scope (erase r)) with (r_scope (rd_st r)).
  destruct (r_scope (rd_st r)) as [sc|].
  - rewrite <- read_from_field_erase.
    destruct (read_from_field_d m r sc o) as [[x r']| |]; reflexivity.
  - destruct o; [|reflexivity]. unfold erase.
    destruct (r_bit (r_src (rd_st r))) as [[b s]| |]; reflexivity.
Qed.

Lemma sim_of_st_bind {X B} r0 (x : res (X * rstd)) (y : res (X * rst))
      (k : X -> rstd -> dres B) (k' : X * rst -> res (B * rst)) :
  er_st x = y -> (forall a r, sim (k a r) (k' (a, erase r))) -> sim (dbind (d_of_st r0 x) k) (bind y k').
Proof.
  intros Hx Hk; subst y. destruct x as [[a r]|e|p]; cbn [d_of_st dbind er_st bind]; [apply Hk|reflexivity|reflexivity].
Qed.

Lemma sim_rbfe m r o : sim (read_bit_field_entry_d m r o) (read_bit_field_entry m (erase r) o).
Proof.
  unfold read_bit_field_entry_d, read_bit_field_entry.
  apply sim_of_st_bind; [apply read_bit_field_entry_st_erase|].
  intros [ob|e] r'; reflexivity.
Qed.

(** * the scope / buffer combinators *)
Lemma sim_pushed {A} m r sc (f : rstd -> dres A) (f' : rst -> res (A * rst)) :
  (forall r, sim (f r) (f' (erase r))) -> sim (rscope_pushed_d m r sc f) (rscope_pushed m (erase r) sc f').
Proof.
  intros Hf. unfold rscope_pushed_d, rscope_pushed.
  apply sim_bind; [apply (Hf (rd_set_scope r (Some sc)))|].
  intros a r'; cbn beta iota. change (r_scope (erase r')) with (r_scope (rd_st r')).
  destruct (debug_asserts m && _); reflexivity.
Qed.

Lemma sim_stashed {A} r (f : rstd -> dres A) (f' : rst -> res (A * rst)) :
  (forall r, sim (f r) (f' (erase r))) -> sim (rscope_stashed_d r f) (rscope_stashed (erase r) f').
Proof.
  intros Hf. unfold rscope_stashed_d, rscope_stashed.
  apply sim_bind; [apply (Hf (rd_set_scope r None))|].
  intros a r'; reflexivity.
Qed.

Lemma sim_len_det m r lo hi :
  sim (read_length_determinant_d m r lo hi) (r_get (erase r) (r_length_determinant m lo hi)).
Proof. apply sim_after, sim_get. Qed.

Lemma sim_enum_index m r std ext :
  sim (read_enumeration_index_d m r std ext) (r_get (erase r) (r_enumeration_index m std ext)).
Proof. apply sim_after, sim_get. Qed.

Lemma sim_choice_index m r std ext :
  sim (read_choice_index_d m r std ext) (r_get (erase r) (r_enumeration_index m std ext)).
Proof. apply sim_after, sim_get. Qed.

Lemma sim_sub_slice {A} m r len (f : rstd -> dres A) (f' : rst -> res (A * rst)) :
  (forall r, sim (f r) (f' (erase r))) ->
  sim (read_whole_sub_slice_d m r len f) (read_whole_sub_slice m (erase r) len f').
Proof.
  intros Hf. unfold read_whole_sub_slice_d, read_whole_sub_slice.
  apply sim_pure_bind; intros lb.
  apply sim_pure_bind; intros wp.
  apply sim_bind; [apply sim_after, Hf|].
  intros a r'; reflexivity.
Qed.

Lemma sim_with_buffer {A} m r (f : rstd -> dres A) (f' : rst -> res (A * rst)) :
  (forall r, sim (f r) (f' (erase r))) -> sim (rwith_buffer_d m r f) (rwith_buffer m (erase r) f').
Proof.
  intros Hf. unfold rwith_buffer_d, rwith_buffer.
  change (r_scope (erase r)) with (r_scope (rd_st r)).
  destruct (match r_scope (rd_st r) with Some s => encode_as_open_type_field s | None => false end); [|apply Hf].
  apply sim_bind; [apply sim_len_det|].
  intros len r1. apply sim_sub_slice, Hf.
Qed.

Lemma sim_len_ext m r ext lo hi :
  sim (read_len_ext_d m r ext lo hi) (read_len_ext m (erase r) ext lo hi).
Proof.
  unfold read_len_ext_d, read_len_ext. destruct ext; [|apply sim_len_det].
  apply sim_bind; [apply sim_get|]. intros [|] r1; apply sim_len_det.
Qed.

(** * the reader *)
Ltac leaf :=
  first [ apply sim_rbfe | apply sim_get | apply sim_len_ext | apply sim_len_det | apply sim_choice_index
        | apply sim_enum_index | apply sim_run | apply sim_ok | reflexivity ].

Theorem read_ty_erase : forall m t r, sim (read_ty_dl m t r) (read_ty m t (erase r)).
Proof.
  intros m t. induction t as [| |k lo hi ext|c lo hi ext|lo hi ext|lo hi ext|e lo hi ext IHe
                              |fs so fc ea IHfs|alts std ext IHalts|vc std ext] using ty_rect_nested; intros r.
  - (* BOOLEAN *)
    cbn [read_ty_dl read_ty]. apply sim_bind; [apply (sim_rbfe m (push r L_BOOLEAN))|]. intros _ r1.
    apply sim_after, sim_with_buffer. intros r2. apply sim_bind; [leaf|]. intros b r3. leaf.
  - (* NULL *)
    cbn [read_ty_dl read_ty]. apply sim_bind; [leaf|]. intros _ r1.
    apply sim_with_buffer. intros r2. leaf.
  - (* INTEGER *)
    cbn [read_ty_dl read_ty]. apply sim_bind; [apply (sim_rbfe m (push r L_NUMBER))|]. intros _ r1.
    apply sim_with_buffer. intros r2.
    apply sim_bind; [destruct ext; leaf|]. intros unc r3.
    apply sim_after, sim_bind; [destruct unc; leaf|]. intros z r4. leaf.
  - (* character strings *)
    destruct c; cbn [read_ty_dl read_ty].
    + apply sim_bind; [apply (sim_rbfe m (push r L_UTF8))|]. intros _ r1.
      apply sim_after, sim_with_buffer. intros r2.
      apply sim_bind; [leaf|]. intros bs r3.
      apply (sim_pure_bind r3 (from_utf8 (bytes_of_bits bs))). intros v. leaf.
    + apply sim_bind; [apply (sim_rbfe m (push r (str_code Ia5)))|]. intros _ r1.
      apply sim_after, sim_with_buffer. intros r2.
      apply sim_bind; [leaf|]. intros len r3.
      apply (sim_pure_bind r3 (alloc len)). intros _. cbn zeta.
      apply sim_bind; [apply (sim_run r3)|]. intros codes r4. cbn beta iota.
      change (rd_st r3) with (erase r3).
      destruct (_ <? len); [reflexivity|].
      apply (sim_pure_bind r4). intros v. leaf.
    + apply sim_bind; [apply (sim_rbfe m (push r (str_code Numeric)))|]. intros _ r1.
      apply sim_after, sim_with_buffer. intros r2.
      apply sim_bind; [leaf|]. intros len r3.
      apply (sim_pure_bind r3 (alloc len)). intros _. cbn zeta.
      apply sim_bind; [apply (sim_run r3)|]. intros codes r4. cbn beta iota.
      change (rd_st r3) with (erase r3).
      destruct (_ <? len); [reflexivity|].
      apply (sim_pure_bind r4). intros v. leaf.
    + apply sim_bind; [apply (sim_rbfe m (push r (str_code Printable)))|]. intros _ r1.
      apply sim_after, sim_with_buffer. intros r2.
      apply sim_bind; [leaf|]. intros len r3.
      apply (sim_pure_bind r3 (alloc len)). intros _. cbn zeta.
      apply sim_bind; [apply (sim_run r3)|]. intros codes r4. cbn beta iota.
      change (rd_st r3) with (erase r3).
      destruct (_ <? len); [reflexivity|].
      apply (sim_pure_bind r4). intros v. leaf.
    + apply sim_bind; [apply (sim_rbfe m (push r (str_code Visible)))|]. intros _ r1.
      apply sim_after, sim_with_buffer. intros r2.
      apply sim_bind; [leaf|]. intros len r3.
      apply (sim_pure_bind r3 (alloc len)). intros _. cbn zeta.
      apply sim_bind; [apply (sim_run r3)|]. intros codes r4. cbn beta iota.
      change (rd_st r3) with (erase r3).
      destruct (_ <? len); [reflexivity|].
      apply (sim_pure_bind r4). intros v. leaf.
  - (* OCTET STRING *)
    cbn [read_ty_dl read_ty]. apply sim_bind; [apply (sim_rbfe m (push r L_OCTET))|]. intros _ r1.
    apply sim_after, sim_with_buffer. intros r2. apply sim_bind; [leaf|]. intros bs r3. leaf.
  - (* BIT STRING *)
    cbn [read_ty_dl read_ty]. apply sim_bind; [apply (sim_rbfe m (push r L_BITSTR))|]. intros _ r1.
    apply sim_after, sim_with_buffer. intros r2. apply sim_bind; [leaf|]. intros [[bs bl] buflen] r3. leaf.
  - (* SEQUENCE OF *)
    cbn [read_ty_dl read_ty]. apply sim_bind; [apply (sim_rbfe m (push r L_SEQUENCE_OF))|]. intros _ r1.
    apply sim_with_buffer. intros r2.
    apply sim_bind; [leaf|]. intros len r3. cbn beta iota.
    destruct (0 <? len); [|leaf].
    apply sim_stashed. intros r4.
    apply (sim_pure_bind r4 (alloc (len * 64))). intros _. cbn zeta.
    change (rd_st r4) with (erase r4).
    generalize (N.to_nat (if LOOP_LIMIT <? len then N.min len (s_len (r_src (erase r4)) - s_pos (r_src (erase r4)) + 2) else len)).
    generalize (LOOP_LIMIT <? len) as big. intros big n.
    generalize (@nil val) as acc. revert r4.
    induction n as [|n IHn]; intros r4 acc.
    + destruct big; reflexivity.
    + apply sim_bind; [apply IHe|]. intros x r5. cbn beta iota.
      change (rd_st r5) with (erase r5). change (rd_st r4) with (erase r4).
      destruct (big && _); [reflexivity|]. apply IHn.
  - (* SEQUENCE *)
    cbn [read_ty_dl read_ty].
    apply sim_of_st_bind; [apply (read_bit_field_entry_st_erase m (push r L_SEQUENCE))|]. intros _ r1.
    apply sim_after, sim_with_buffer. intros r2.
    apply sim_bind; [destruct ea; leaf|]. intros ext r3. cbn beta iota.
    apply (sim_pure_bind r3). intros rem.
    destruct (rem <? so); [reflexivity|].
    apply (sim_pure_bind r3). intros stop. cbn zeta.
    (* the field walk *)
    assert (Hwalk : forall fs0 (IH : Forall (fun f => forall r, sim (read_ty_dl m (snd f) r) (read_ty m (snd f) (erase r))) fs0) r0 acc,
      sim ((fix fields (fs : list (fkind * ty)) (r : rstd) (acc : list (option val)) {struct fs} : dres val :=
              match fs with
              | [] => DOk (VSeq (frev acc)) r
              | (FReq, ft) :: fs' =>
                  let!d (x, r) := read_ty_dl m ft r in fields fs' r (Some x :: acc)
              | (FOpt, ft) :: fs' =>
                  let r := push r L_OPTIONAL in
                  let!d (ob, r) := read_bit_field_entry_d m r true in
                  match ob with
                  | None => DPanic P_UNWRAP
                  | Some true =>
                      let!d (x, r) := rwith_buffer_d m r (fun r => rscope_stashed_d r (fun r => read_ty_dl m ft r)) in
                      fields fs' r (Some x :: acc)
                  | Some false => fields fs' r (None :: acc)
                  end
              | (FDef d, ft) :: fs' =>
                  let r := push r L_DEFAULT in
                  let!d (ob, r) := read_bit_field_entry_d m r true in
                  match ob with
                  | None => DPanic P_UNWRAP
                  | Some true =>
                      let!d (x, r) := rwith_buffer_d m r (fun r => rscope_stashed_d r (fun r => read_ty_dl m ft r)) in
                      fields fs' r (Some x :: acc)
                  | Some false => fields fs' r (Some d :: acc)
                  end
              end) fs0 r0 acc)
          ((fix fields (fs : list (fkind * ty)) (r : rst) (acc : list (option val)) {struct fs} : res (val * rst) :=
              match fs with
              | [] => Ok (VSeq (frev acc), r)
              | (FReq, ft) :: fs' =>
                  let! (x, r) := read_ty m ft r in fields fs' r (Some x :: acc)
              | (FOpt, ft) :: fs' =>
                  let! (ob, r) := read_bit_field_entry m r true in
                  match ob with
                  | None => Panic P_UNWRAP
                  | Some true =>
                      let! (x, r) := rwith_buffer m r (fun r => rscope_stashed r (fun r => read_ty m ft r)) in
                      fields fs' r (Some x :: acc)
                  | Some false => fields fs' r (None :: acc)
                  end
              | (FDef d, ft) :: fs' =>
                  let! (ob, r) := read_bit_field_entry m r true in
                  match ob with
                  | None => Panic P_UNWRAP
                  | Some true =>
                      let! (x, r) := rwith_buffer m r (fun r => rscope_stashed r (fun r => read_ty m ft r)) in
                      fields fs' r (Some x :: acc)
                  | Some false => fields fs' r (Some d :: acc)
                  end
              end) fs0 (erase r0) acc)).
    { induction fs0 as [|[fk ft] fs' IHfs']; intros IH r0 acc; [reflexivity|].
      inversion IH as [|? ? Hft Hrest]; subst. cbn [snd] in Hft. specialize (IHfs' Hrest).
      destruct fk as [| |d].
      - apply sim_bind; [apply Hft|]. intros x r5. apply IHfs'.
      - cbn zeta. apply sim_bind; [apply (sim_rbfe m (push r0 L_OPTIONAL))|]. intros [[|]|] r5; cbn beta iota.
        + apply sim_bind; [|intros x r6; apply IHfs'].
          apply sim_with_buffer. intros r6. apply sim_stashed. intros r7. apply Hft.
        + apply IHfs'.
        + reflexivity.
      - cbn zeta. apply sim_bind; [apply (sim_rbfe m (push r0 L_DEFAULT))|]. intros [[|]|] r5; cbn beta iota.
        + apply sim_bind; [|intros x r6; apply IHfs'].
          apply sim_with_buffer. intros r6. apply sim_stashed. intros r7. apply Hft.
        + apply IHfs'.
        + reflexivity. }
    specialize (Hwalk fs IHfs).
    destruct ea as [ea|]; [destruct ext|].
    + apply sim_pure_bind. intros nx.
      apply sim_pushed. intros r4.
      apply sim_bind; [apply Hwalk|]. intros v r5. cbn beta iota.
      unfold sim, d_run; cbn beta. change (rd_st r5) with (erase r5).
      destruct (skip_unknown_extension_additions m (erase r5)) as [r6| |]; reflexivity.
    + apply sim_pushed. intros r4. apply Hwalk.
    + apply sim_pushed. intros r4. apply Hwalk.
  - (* CHOICE *)
    cbn [read_ty_dl read_ty].
    apply sim_bind; [apply (sim_rbfe m (push r L_CHOICE))|]. intros _ r1.
    apply sim_after, sim_stashed. intros r2.
    apply sim_bind; [leaf|]. intros index r3. cbn beta iota zeta.
    assert (Hcontent : forall r0,
      sim (if N.of_nat (length alts) <=? index then DOk None r0 else
           (fix pick (alts : list ty) (i : nat) {struct alts} : dres (option val) :=
              match alts, i with
              | a :: _, O => let!d (x, r) := read_ty_dl m a r0 in DOk (Some (VChoice index x)) r
              | _ :: rest, S i' => pick rest i'
              | [], _ => DOk None r0
              end) alts (N.to_nat index))
          (if N.of_nat (length alts) <=? index then Ok (None, erase r0) else
           (fix pick (alts : list ty) (i : nat) {struct alts} : res (option val * rst) :=
              match alts, i with
              | a :: _, O => let! (x, r) := read_ty m a (erase r0) in Ok (Some (VChoice index x), r)
              | _ :: rest, S i' => pick rest i'
              | [], _ => Ok (None, erase r0)
              end) alts (N.to_nat index))).
    { intros r0. destruct (_ <=? index); [reflexivity|].
      generalize (N.to_nat index) as i. clear r r1 r2 r3.
      induction alts as [|a alts' IHa]; intros i; [destruct i; reflexivity|].
      inversion IHalts as [|? ? Ha Hrest]; subst.
      destruct i as [|i'].
      - apply sim_bind; [apply Ha|]. intros x r. reflexivity.
      - apply IHa, Hrest. }
    destruct (std <=? index).
    + apply sim_bind_assoc; [leaf|]. intros len r4.
      apply sim_after, sim_bind; [apply sim_sub_slice, Hcontent|].
      intros [v|] r5; reflexivity.
    + apply sim_bind; [apply Hcontent|]. intros [v|] r4; reflexivity.
  - (* ENUMERATED *)
    cbn [read_ty_dl read_ty].
    apply sim_bind; [apply (sim_rbfe m (push r L_ENUMERATED))|]. intros _ r1.
    apply sim_after, sim_bind; [apply sim_with_buffer; intros r2; leaf|]. intros index r2. cbn beta iota zeta.
    destruct (vc <=? index), (index <? vc); reflexivity.
Qed.

(** * the statements of C19 *)
Lemma erasure : forall m t r,
  match read_ty_d m t r with
  | Ok (v, r') => read_ty m t (erase r) = Ok (v, erase r')
  | Err e => read_ty m t (erase r) = Err e
  | Panic p => read_ty m t (erase r) = Panic p
  end.
Proof.
  intros m t r. pose proof (read_ty_erase m t r) as H. unfold sim in H. unfold read_ty_d.
  destruct (read_ty_dl m t r) as [v r'|e l|p]; cbn [er] in H; symmetry; exact H.
Qed.

(* the other direction: whatever the log holds when a read starts, the default build's answer is the
   erased answer of the feature build (the log is never an input of the decoding) *)
Lemma erasure_any_log : forall m t r0 l,
  read_ty m t r0 = er (read_ty_dl m t {| rd_st := r0; r_log := l |}).
Proof. intros m t r0 l. symmetry. exact (read_ty_erase m t {| rd_st := r0; r_log := l |}). Qed.

(** several values read one after the other from one reader (the log is never cleared in between) *)
Fixpoint read_all_d (m : mode) (ts : list ty) (r : rstd) : res (list val * rstd) :=
  match ts with
  | [] => Ok ([], r)
  | t :: ts' =>
      let! (v, r) := read_ty_d m t r in
      let! (vs, r) := read_all_d m ts' r in
      Ok (v :: vs, r)
  end.
Fixpoint read_all (m : mode) (ts : list ty) (r : rst) : res (list val * rst) :=
  match ts with
  | [] => Ok ([], r)
  | t :: ts' =>
      let! (v, r) := read_ty m t r in
      let! (vs, r) := read_all m ts' r in
      Ok (v :: vs, r)
  end.

Lemma erasure_history : forall m ts r,
  match read_all_d m ts r with
  | Ok (vs, r') => read_all m ts (erase r) = Ok (vs, erase r')
  | Err e => read_all m ts (erase r) = Err e
  | Panic p => read_all m ts (erase r) = Panic p
  end.
Proof.
  intros m ts. induction ts as [|t ts' IH]; intros r; [reflexivity|].
  cbn [read_all_d read_all]. pose proof (erasure m t r) as H.
  destruct (read_ty_d m t r) as [[v r1]|e|p]; rewrite H; cbn [bind]; try reflexivity.
  specialize (IH r1).
  destruct (read_all_d m ts' r1) as [[vs r2]|e|p]; rewrite IH; reflexivity.
Qed.
