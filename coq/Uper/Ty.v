(* Uper/Ty.v -- stub, to be filled *)
