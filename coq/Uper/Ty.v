(* L2: the type universe (descriptor constants, not ASN.1 syntax) and the value universe
   shared by the UPER writer/reader model. *)
From A1 Require Export Per.Prim.
Local Open Scope N_scope.

Inductive ikind := U8 | I8 | U16 | I16 | U32 | I32 | U64 | I64.
Inductive cset := Utf8 | Ia5 | Numeric | Printable | Visible.

Inductive val :=
| VBool (b : bool)
| VNull
| VInt (z : Z)
| VStr (chars : list N)                 (* Unicode scalar values *)
| VOctets (bytes : list N)
| VBits (bytes : list N) (bit_len : N)  (* BitVec(bytes, bit_len) *)
| VList (vs : list val)
| VSeq (fields : list (option val))     (* one entry per component; None = absent OPTIONAL *)
| VChoice (index : N) (v : val)
| VEnum (index : N).

Inductive fkind := FReq | FOpt | FDef (d : val).

(* what the generated `impl ...::Constraint` blocks say *)
Inductive ty :=
| TBool
| TNull
| TInt (k : ikind) (lo hi : option Z) (ext : bool)
| TStr (c : cset) (lo hi : option N) (ext : bool)
| TOctets (lo hi : option N) (ext : bool)
| TBitStr (lo hi : option N) (ext : bool)
| TListOf (e : ty) (lo hi : option N) (ext : bool)
| TSeq (fs : list (fkind * ty)) (std_optional_fields field_count : N) (extended_after : option N)
| TChoice (alts : list ty) (std_variant_count : N) (ext : bool)
| TEnum (variant_count std_variant_count : N) (ext : bool).

(* linear-time list reversal (List.rev is quadratic) *)
Definition frev {A} (l : list A) : list A := rev_append l [].

(* Number::to_i64 / from_i64 (`as` casts) *)
Definition ik_bits (k : ikind) : N :=
  match k with U8 | I8 => 8 | U16 | I16 => 16 | U32 | I32 => 32 | U64 | I64 => 64 end.
Definition ik_signed (k : ikind) : bool :=
  match k with I8 | I16 | I32 | I64 => true | _ => false end.
Definition ik_fitsb (k : ikind) (v : Z) : bool :=
  if ik_signed k then ((- 2 ^ (Z.of_N (ik_bits k) - 1) <=? v) && (v <? 2 ^ (Z.of_N (ik_bits k) - 1)))%Z
  else ((0 <=? v) && (v <? 2 ^ Z.of_N (ik_bits k)))%Z.
Definition to_i64 (v : Z) : Z := i64_of_u64 (u64_of_i64 v).
Definition from_i64 (k : ikind) (v : Z) : Z :=
  let m := (2 ^ Z.of_N (ik_bits k))%Z in
  let t := (v mod m)%Z in
  if ik_signed k then (if (t <? m / 2)%Z then t else t - m)%Z else t.

(* Charset::is_valid *)
Definition cs_valid (c : cset) (ch : N) : bool :=
  match c with
  | Utf8 => true
  | Numeric => (ch =? 32) || ((48 <=? ch) && (ch <=? 57))
  | Printable => (ch =? 32) || ((39 <=? ch) && (ch <=? 41)) || ((43 <=? ch) && (ch <=? 58)) || (ch =? 61) || (ch =? 63)
                 || ((65 <=? ch) && (ch <=? 90)) || ((97 <=? ch) && (ch <=? 122))
  | Ia5 => ch <=? 127
  | Visible => (32 <=? ch) && (ch <=? 126)
  end.

(* UTF-8 (str::as_bytes / String::from_utf8) *)
Definition utf8_char (c : N) : list N :=
  if c <? 128 then [c]
  else if c <? 2048 then [192 + c / 64; 128 + c mod 64]
  else if c <? 65536 then [224 + c / 4096; 128 + (c / 64) mod 64; 128 + c mod 64]
  else [240 + c / 262144; 128 + (c / 4096) mod 64; 128 + (c / 64) mod 64; 128 + c mod 64].
Definition utf8_encode (cs : list N) : list N := flat_map utf8_char cs.

Definition is_cont (b : N) : bool := (128 <=? b) && (b <? 192).
Fixpoint utf8_decode_fuel (fuel : nat) (bs : list N) : option (list N) :=
  match fuel with
  | O => None
  | S f =>
      match bs with
      | [] => Some []
      | b0 :: r =>
          if b0 <? 128 then option_map (cons b0) (utf8_decode_fuel f r)
          else if (194 <=? b0) && (b0 <? 224) then
            match r with
            | b1 :: r' => if is_cont b1 then option_map (cons ((b0 - 192) * 64 + (b1 - 128))) (utf8_decode_fuel f r') else None
            | _ => None
            end
          else if (224 <=? b0) && (b0 <? 240) then
            match r with
            | b1 :: b2 :: r' =>
                let c := (b0 - 224) * 4096 + (b1 - 128) * 64 + (b2 - 128) in
                if is_cont b1 && is_cont b2 && (2048 <=? c) && negb ((55296 <=? c) && (c <? 57344))
                then option_map (cons c) (utf8_decode_fuel f r') else None
            | _ => None
            end
          else if (240 <=? b0) && (b0 <? 245) then
            match r with
            | b1 :: b2 :: b3 :: r' =>
                let c := (b0 - 240) * 262144 + (b1 - 128) * 4096 + (b2 - 128) * 64 + (b3 - 128) in
                if is_cont b1 && is_cont b2 && is_cont b3 && (65536 <=? c) && (c <? 1114112)
                then option_map (cons c) (utf8_decode_fuel f r') else None
            | _ => None
            end
          else None
      end
  end.
Definition utf8_decode (bs : list N) : option (list N) := utf8_decode_fuel (S (length bs)) bs.

(* value equality (PartialEq of the generated types) *)
Fixpoint list_eqb {A} (eq : A -> A -> bool) (a b : list A) : bool :=
  match a, b with
  | [], [] => true
  | x :: a', y :: b' => eq x y && list_eqb eq a' b'
  | _, _ => false
  end.
Definition opt_eqb {A} (eq : A -> A -> bool) (a b : option A) : bool :=
  match a, b with Some x, Some y => eq x y | None, None => true | _, _ => false end.

Fixpoint val_eqb (a b : val) {struct a} : bool :=
  match a, b with
  | VBool x, VBool y => Bool.eqb x y
  | VNull, VNull => true
  | VInt x, VInt y => (x =? y)%Z
  | VStr x, VStr y => list_eqb N.eqb x y
  | VOctets x, VOctets y => list_eqb N.eqb x y
  | VBits x l, VBits y k => list_eqb N.eqb x y && (l =? k)
  | VList xs, VList ys =>
      (fix go (xs ys : list val) : bool :=
         match xs, ys with
         | [], [] => true
         | x :: xs', y :: ys' => val_eqb x y && go xs' ys'
         | _, _ => false
         end) xs ys
  | VSeq xs, VSeq ys =>
      (fix go (xs ys : list (option val)) : bool :=
         match xs, ys with
         | [], [] => true
         | x :: xs', y :: ys' =>
             match x, y with
             | Some x, Some y => val_eqb x y
             | None, None => true
             | _, _ => false
             end && go xs' ys'
         | _, _ => false
         end) xs ys
  | VChoice i x, VChoice j y => (i =? j) && val_eqb x y
  | VEnum i, VEnum j => i =? j
  | _, _ => false
  end.
