(* L2 rejection at every nesting depth (C06).
     [violates t v]   some position of the value that the writer actually encodes (a present
                      OPTIONAL, a DEFAULT component different from its default, a list element,
                      the selected CHOICE alternative; extension additions included) breaks a
                      NON-extensible constraint;
     [write_ty_np]    the type-level writer never panics on a value of the generated Rust type
                      (no enclosing scope): every back-patch position of the presence / extension
                      bit fields is inside the written bits, the debug assertion of scope_pushed
                      holds, and no primitive writer panics;
     [reject_nested]  a violating value makes write_ty answer an error: not Ok (the reference
                      encoder fails and the writer fails with it) and not a panic.
   Also the out-of-root corollaries for extensible INTEGER / OCTET STRING constraints. *)
From A1 Require Import Uper.RejectProofs.
From A1 Require Import Uper.Spec Uper.Proofs.
Require Import ZifyBool ZifyNat ZifyN.
Local Open Scope N_scope.

(** * the constraint violations the writer has to refuse *)
Definition int_viol (lo hi : option Z) (ext : bool) (z : Z) : bool :=
  negb ext && ((match lo with Some l => (z <? l)%Z | None => false end) ||
               (match hi with Some h => (h <? z)%Z | None => false end)).
Definition size_viol (lo hi : option N) (ext : bool) (n : N) : bool :=
  negb ext && ((match lo with Some l => n <? l | None => false end) ||
               (match hi with Some h => h <? n | None => false end)).
Definition index_viol (std : N) (ext : bool) (i : N) : bool := negb ext && (std <=? i).
(* is this component written at all? (a DEFAULT component equal to its default is omitted) *)
Definition encodedb (k : fkind) (x : val) : bool :=
  match k with FDef d => negb (val_eqb d x) | _ => true end.

Fixpoint violates (t : ty) (v : val) {struct t} : bool :=
  match t, v with
  | TInt _ lo hi ext, VInt z => int_viol lo hi ext z
  | TStr c lo hi ext, VStr cs => find_invalid c cs || size_viol lo hi ext (N.of_nat (length cs))
  | TOctets lo hi ext, VOctets bs => size_viol lo hi ext (blen bs)
  | TBitStr lo hi ext, VBits _ n => size_viol lo hi ext n
  | TListOf e lo hi ext, VList vs =>
      size_viol lo hi ext (N.of_nat (length vs)) ||
      (fix any (vs : list val) : bool :=
         match vs with [] => false | x :: r => violates e x || any r end) vs
  | TSeq fs _ _ _, VSeq vals =>
      (fix any (fs : list (fkind * ty)) (vals : list (option val)) : bool :=
         match fs, vals with
         | (k, ft) :: fs', ov :: vals' =>
             match ov with Some x => encodedb k x && violates ft x | None => false end || any fs' vals'
         | _, _ => false
         end) fs vals
  | TChoice alts std ext, VChoice i x =>
      index_viol std ext i ||
      (fix pick (alts : list ty) (n : nat) : bool :=
         match alts, n with
         | a :: _, O => violates a x
         | _ :: r, S n' => pick r n'
         | [], _ => false
         end) alts (N.to_nat i)
  | TEnum _ std ext, VEnum i => index_viol std ext i
  | _, _ => false
  end.

Definition any_viol (e : ty) :=
  fix any (vs : list val) : bool := match vs with [] => false | x :: r => violates e x || any r end.
Definition any_viol_f :=
  fix any (fs : list (fkind * ty)) (vals : list (option val)) : bool :=
    match fs, vals with
    | (k, ft) :: fs', ov :: vals' =>
        match ov with Some x => encodedb k x && violates ft x | None => false end || any fs' vals'
    | _, _ => false
    end.
Definition pick_viol (x : val) :=
  fix pick (alts : list ty) (n : nat) : bool :=
    match alts, n with
    | a :: _, O => violates a x
    | _ :: r, S n' => pick r n'
    | [], _ => false
    end.

(* descriptor sanity the compiler guarantees and [wf_ty] does not record: the Rust type u64 is
   chosen only for INTEGER types without a negative lower bound.  (A u64 value of 2^63 or more
   is cast to a negative i64 by the writer; with a negative lower bound the cast value could fall
   inside the range again.) *)
Definition int_kind_ok (k : ikind) (lo : option Z) : Prop :=
  match k, lo with U64, Some l => (0 <= l)%Z | _, _ => True end.
Fixpoint kinds_ok (t : ty) : Prop :=
  match t with
  | TInt k lo _ _ => int_kind_ok k lo
  | TListOf e _ _ _ => kinds_ok e
  | TSeq fs _ _ _ =>
      (fix all (fs : list (fkind * ty)) : Prop :=
         match fs with [] => True | (_, ft) :: fs' => kinds_ok ft /\ all fs' end) fs
  | TChoice alts _ _ =>
      (fix all (alts : list ty) : Prop :=
         match alts with [] => True | a :: r => kinds_ok a /\ all r end) alts
  | _ => True
  end.
Definition kinds_ok_f :=
  fix all (fs : list (fkind * ty)) : Prop :=
    match fs with [] => True | (_, ft) :: fs' => kinds_ok ft /\ all fs' end.
Definition kinds_ok_l :=
  fix all (alts : list ty) : Prop :=
    match alts with [] => True | a :: r => kinds_ok a /\ all r end.

(** * small facts *)
Lemma ik_fits_cases k z : ik_fitsb k z = true ->
  is_i64 z \/ (k = U64 /\ (9223372036854775808 <= z < 18446744073709551616)%Z).
Proof.
  unfold ik_fitsb, is_i64. rewrite Ztwo63. intros H.
  destruct k; cbn [ik_signed ik_bits] in H;
    repeat match type of H with context [(2 ^ ?b)%Z] =>
      let v := eval vm_compute in (2 ^ b)%Z in change (2 ^ b)%Z with v in H end;
    try (left; lia).
  destruct (Z_lt_le_dec z 9223372036854775808); [left; lia|right; split; [reflexivity|lia]].
Qed.

Lemma to_i64_big z : (9223372036854775808 <= z < 18446744073709551616)%Z ->
  to_i64 z = (z - 18446744073709551616)%Z.
Proof.
  intros H. unfold to_i64, u64_of_i64, i64_of_u64. rewrite Ztwo64. rewrite Z.mod_small by lia.
  destruct (N.ltb_spec (Z.to_N z) two63) as [L|L]; unfold two63 in L; lia.
Qed.

Lemma not_ok_bind' {A B} (r : res A) (f : A -> res B) :
  (forall a, r = Ok a -> is_ok (f a) = false) -> is_ok (bind r f) = false.
Proof. destruct r; cbn [bind is_ok]; auto. Qed.

Lemma size_viol_spec lo hi ext n up : size_viol lo hi ext n = true ->
  ext = false /\ (n < opt_or lo 0 \/ opt_or hi up < n).
Proof.
  unfold size_viol. destruct ext; cbn [negb andb]; [discriminate|]. intros H. split; [reflexivity|].
  destruct lo as [l|], hi as [h|]; cbn [opt_or] in *; lia.
Qed.

Lemma int_viol_reject m k lo hi ext z :
  int_kind_ok k lo -> ik_fitsb k z = true -> int_viol lo hi ext z = true ->
  ext = false /\ int_enc m lo hi ext z = Err E_VALUE_RANGE.
Proof.
  intros Hk Hz H. unfold int_viol in H. destruct ext; cbn [negb andb] in H; [discriminate H|].
  split; [reflexivity|]. unfold int_enc.
  assert (Hm : negb (is_some lo) && negb (is_some hi) = false).
  { destruct lo, hi; try reflexivity. discriminate H. }
  rewrite Hm.
  assert (Hr : (to_i64 z < opt_or lo 0 \/ opt_or hi I64_MAXz < to_i64 z)%Z).
  { destruct (ik_fits_cases k z Hz) as [Hi|[-> Hb]].
    - rewrite to_i64_id by exact Hi. destruct lo as [l|], hi as [h|]; cbn [opt_or] in *; lia.
    - rewrite to_i64_big by exact Hb. left. cbn [int_kind_ok] in Hk.
      destruct lo as [l|]; cbn [opt_or]; lia. }
  rewrite constrained_reject by exact Hr. reflexivity.
Qed.

Lemma find_invalid_utf8 cs : find_invalid Utf8 cs = false.
Proof. induction cs as [|c cs IH]; [reflexivity|]. cbn [find_invalid cs_valid negb orb]. exact IH. Qed.

Lemma len_hdr_reject m lo hi up n : n < opt_or lo 0 \/ opt_or hi up < n ->
  len_hdr m false lo hi up n = Err E_SIZE_RANGE.
Proof.
  intros H. unfold len_hdr.
  assert ((n <? opt_or lo 0) || (opt_or hi up <? n) = true) as -> by lia. reflexivity.
Qed.

(** * a violating value has no reference encoding *)
Lemma violates_enc_fails m t : kinds_ok t ->
  forall v, wf_val t v -> violates t v = true -> is_ok (enc m t v) = false.
Proof.
  induction t as [| |k lo hi ext|c lo hi ext|lo hi ext|lo hi ext|e lo hi ext IH|fs so fc ea IH|alts std ext IH|vc std ext]
    using ty_ind'; intros Hko v Hv H; destruct v; try discriminate H; cbn [violates] in H.
  - (* INTEGER *)
    cbn [wf_val] in Hv. cbn [kinds_ok] in Hko.
    destruct (int_viol_reject m _ _ _ _ _ Hko Hv H) as (-> & E).
    cbn [enc]. rewrite E. reflexivity.
  - (* character strings *)
    destruct c.
    + rewrite find_invalid_utf8 in H. cbn [orb] in H.
      destruct (size_viol_spec _ _ _ _ U64_MAX H) as (-> & Hr). cbn [enc negb andb].
      assert ((N.of_nat (length chars) <? opt_or lo 0) || (opt_or hi U64_MAX <? N.of_nat (length chars)) = true) as -> by lia.
      reflexivity.
    + cbn [enc]. destruct (find_invalid Ia5 chars); [reflexivity|]. cbn [orb] in H.
      destruct (size_viol_spec _ _ _ _ U64_MAX H) as (-> & Hr). rewrite len_hdr_reject by exact Hr. reflexivity.
    + cbn [enc]. destruct (find_invalid Numeric chars); [reflexivity|]. cbn [orb] in H.
      destruct (size_viol_spec _ _ _ _ U64_MAX H) as (-> & Hr). rewrite len_hdr_reject by exact Hr. reflexivity.
    + cbn [enc]. destruct (find_invalid Printable chars); [reflexivity|]. cbn [orb] in H.
      destruct (size_viol_spec _ _ _ _ U64_MAX H) as (-> & Hr). rewrite len_hdr_reject by exact Hr. reflexivity.
    + cbn [enc]. destruct (find_invalid Visible chars); [reflexivity|]. cbn [orb] in H.
      destruct (size_viol_spec _ _ _ _ U64_MAX H) as (-> & Hr). rewrite len_hdr_reject by exact Hr. reflexivity.
  - (* OCTET STRING *)
    destruct (size_viol_spec _ _ _ _ I64_MAX H) as (-> & Hr). cbn [enc].
    rewrite octetstring_reject by exact Hr. reflexivity.
  - (* BIT STRING *)
    destruct (size_viol_spec _ _ _ _ I64_MAX H) as (-> & Hr). cbn [enc].
    rewrite bitstring_reject by exact Hr. reflexivity.
  - (* SEQUENCE OF *)
    cbn [enc].
    change (fix elems (vs0 : list val) : res bits := match vs0 with [] => Ok [] | x :: r => let! a := enc m e x in let! b := elems r in Ok (a ++ b) end) with (enc_elems m e).
    change (any_viol e vs) with ((fix any (vs : list val) : bool := match vs with [] => false | x :: r => violates e x || any r end) vs) in *.
    fold (any_viol e) in H.
    cbn [wf_val] in Hv. destruct Hv as [_ Hv]. change (all_wf_val e vs) in Hv.
    destruct (size_viol lo hi ext (N.of_nat (length vs))) eqn:Es.
    + destruct (size_viol_spec _ _ _ _ I64_MAX Es) as (-> & Hr). rewrite len_hdr_reject by exact Hr. reflexivity.
    + cbn [orb] in H. apply not_ok_bind'. intros h _. apply not_ok_bind.
      clear Es. induction vs as [|x vs IHl]; [discriminate H|].
      cbn [any_viol] in H. cbn [all_wf_val] in Hv. destruct Hv as [Hx Hv]. cbn [enc_elems].
      destruct (violates e x) eqn:Ex.
      * apply not_ok_bind. apply IH; assumption.
      * cbn [orb] in H. apply not_ok_bind'. intros a _. apply not_ok_bind. apply IHl; assumption.
  - (* SEQUENCE *)
    rewrite enc_seq_eq. apply not_ok_bind.
    fold any_viol_f in H. cbn [wf_val] in Hv. change (all_wf_vals fs fields) in Hv.
    cbn [kinds_ok] in Hko. change (kinds_ok_f fs) in Hko.
    revert fields Hv H. induction IH as [|[k ft] fs Hft _ IHl]; intros vals Hv H; [destruct vals; discriminate H|].
    destruct vals as [|ov vals]; [discriminate H|].
    cbn [kinds_ok_f] in Hko. destruct Hko as [Hko1 Hko].
    cbn [all_wf_vals] in Hv. destruct Hv as [Hv1 Hv]. cbn [any_viol_f] in H. cbn [snd] in Hft.
    rewrite enc_fields_cons.
    destruct (match ov with Some x => encodedb k x && violates ft x | None => false end) eqn:E1.
    + apply not_ok_bind. destruct ov as [x|]; [|discriminate E1].
      apply andb_true_iff in E1. destruct E1 as [Ee Ex].
      assert (He : is_ok (enc m ft x) = false) by (apply Hft; assumption).
      destruct k as [| |d]; cbn [enc_field encodedb] in *.
      * apply not_ok_bind. exact He.
      * apply not_ok_bind. exact He.
      * apply negb_true_iff in Ee. rewrite Ee. apply not_ok_bind. exact He.
    + cbn [orb] in H. apply not_ok_bind'. intros fe _. apply not_ok_bind. apply IHl; assumption.
  - (* CHOICE *)
    cbn [enc].
    change (fix pick (alts0 : list ty) (i : nat) {struct alts0} : res bits :=
              match alts0 with [] => Panic P_OTHER | a :: r => match i with 0%nat => enc m a v | S i' => pick r i' end end)
      with (enc_pick m v).
    fold (pick_viol v) in H. cbn [wf_val] in Hv. change (pick_wf v alts (N.to_nat index)) in Hv.
    cbn [kinds_ok] in Hko. change (kinds_ok_l alts) in Hko.
    destruct (index_viol std ext index) eqn:Ei.
    + unfold index_viol in Ei. destruct ext; [discriminate Ei|]. cbn [negb andb] in Ei.
      rewrite index_rej by lia. reflexivity.
    + cbn [orb] in H. apply not_ok_bind'. intros ib _. apply not_ok_bind.
      generalize dependent (N.to_nat index). clear Ei.
      induction IH as [|a alts Ha _ IHl]; intros n Hv H; [destruct n; discriminate H|].
      cbn [kinds_ok_l] in Hko. destruct Hko as [Hko1 Hko].
      destruct n as [|n]; cbn [pick_viol pick_wf enc_pick] in *; [apply Ha; assumption|apply IHl; assumption].
  - (* ENUMERATED *)
    unfold index_viol in H. destruct ext; [discriminate H|]. cbn [negb andb] in H.
    cbn [enc]. rewrite index_rej by lia. reflexivity.
Qed.

(** * the type-level writer never panics on a value of the type *)
Definition NP (m : mode) (t : ty) : Prop :=
  forall v w, wf_val t v -> wst_wf w -> w_scope w = None -> np (write_ty m t v w).

Lemma np_put w (r : res bits) : np r -> np (w_put w r).
Proof. destruct r; intros H; [reflexivity|reflexivity|discriminate H]. Qed.

Lemma np_ok {A} (a : A) : np (Ok a). Proof. reflexivity. Qed.
Lemma np_err {A} e : np (@Err A e). Proof. reflexivity. Qed.

Lemma np_notok_bind {A B} (r : res A) (f : A -> res B) : is_ok r = false -> np r -> np (bind r f).
Proof. destruct r; cbn [is_ok bind]; intros H1 H2; [discriminate H1|reflexivity|exact H2]. Qed.

Lemma len_hdr_np m ext lo hi up n : np (len_hdr m ext lo hi up n).
Proof.
  unfold len_hdr. destruct (_ || _).
  - destruct (negb ext); [reflexivity|]. apply np_bind'; [apply w_length_np|intros [b ?]; reflexivity].
  - apply np_bind'; [apply w_length_np|intros [b ?]; reflexivity].
Qed.

Lemma wrap_open_np m b : np (wrap_open m b).
Proof. apply w_octetstring_np. Qed.

Lemma wf_val_shape t v : wf_val t v -> shape t v = true.
Proof. destruct t, v; cbn [wf_val shape]; try reflexivity; intros []. Qed.

Lemma enc_flat_np m t v : wf_val t v ->
  match t with TListOf _ _ _ _ | TSeq _ _ _ _ | TChoice _ _ _ => True | _ => np (enc m t v) end.
Proof.
  intros Hv. pose proof (wf_val_shape t v Hv) as Hs.
  destruct t as [| |k lo hi ext|c lo hi ext|lo hi ext|lo hi ext|e lo hi ext|fs so fc ea|alts std ext|vc std ext];
    try exact I; destruct v; try discriminate Hs; cbn [enc].
  - reflexivity.
  - reflexivity.
  - unfold int_enc. apply np_bind'; [|intros; reflexivity].
    destruct (if ext then _ else _); [apply w_unconstrained_np|apply w_constrained_np].
  - destruct c.
    + destruct (negb ext && _); [reflexivity|apply w_octetstring_np].
    + destruct (find_invalid _ _); [reflexivity|]. apply np_bind'; [apply len_hdr_np|intros; reflexivity].
    + destruct (find_invalid _ _); [reflexivity|]. apply np_bind'; [apply len_hdr_np|intros; reflexivity].
    + destruct (find_invalid _ _); [reflexivity|]. apply np_bind'; [apply len_hdr_np|intros; reflexivity].
    + destruct (find_invalid _ _); [reflexivity|]. apply np_bind'; [apply len_hdr_np|intros; reflexivity].
  - apply w_octetstring_np.
  - apply w_bitstring_np.
  - apply w_index_np.
Qed.

(* a successful run from a scope-free writer ends in a scope-free, consistent writer *)
Lemma wprop_ok_inv m t v w w' : Wprop m t -> wst_wf w -> w_scope w = None ->
  write_ty m t v w = Ok w' -> wst_wf w' /\ w_scope w' = None.
Proof.
  intros HW Hw Hs H. pose proof (HW v w Hw Hs) as S. unfold wsim in S.
  destruct (enc m t v) as [b| |]; try (rewrite H in S; discriminate S).
  rewrite S in H. injection H as <-. split; [apply w_append_wf; exact Hw|exact Hs].
Qed.

(** ** SEQUENCE OF *)
Lemma welems_np m e : Wprop m e -> NP m e ->
  forall vs w, all_wf_val e vs -> wst_wf w -> w_scope w = None -> np (welems m e vs w).
Proof.
  intros HW HN. induction vs as [|x vs IHl]; intros w Hv Hw Hs; cbn [welems]; [reflexivity|].
  cbn [all_wf_val] in Hv. destruct Hv as [Hx Hv].
  apply np_bind; [apply HN; assumption|]. intros w' E.
  destruct (wprop_ok_inv m e x w w' HW Hw Hs E) as [Hw' Hs']. apply IHl; assumption.
Qed.

Lemma NP_list m e lo hi ext : Wprop m e -> NP m e -> NP m (TListOf e lo hi ext).
Proof.
  intros HW HN v w Hv Hw Hs. destruct v; try contradiction Hv.
  cbn [wf_val] in Hv. destruct Hv as [_ Hv]. change (all_wf_val e vs) in Hv.
  cbn [write_ty]. rewrite entry_none by exact Hs. cbn [bind]. rewrite with_buffer_none by exact Hs.
  rewrite scope_stashed_none by exact Hs. rewrite wel_eq.
  change (fix elems (vs0 : list val) (w5 : wst) {struct vs0} : res wst := match vs0 with [] => Ok w5 | x :: vs' => let! w6 := write_ty m e x w5 in elems vs' w6 end) with (welems m e).
  apply np_bind'; [|intros; reflexivity].
  apply np_bind; [apply np_put, len_hdr_np|]. intros w1 E1.
  destruct (len_hdr m ext lo hi I64_MAX (N.of_nat (length vs))) as [h| |]; cbn [w_put bind] in E1; try discriminate E1.
  injection E1 as <-. rewrite scope_stashed_none by exact Hs.
  apply np_bind'; [|intros; reflexivity].
  apply welems_np; try assumption. apply w_append_wf; exact Hw.
Qed.

(** ** CHOICE *)
Lemma wpick_np m x w : wst_wf w -> w_scope w = None ->
  forall alts, Forall (NP m) alts -> forall i, pick_wf x alts i -> np (wpick m x w alts i).
Proof.
  intros Hw Hs. induction alts as [|a alts IHl]; intros F i Hv; [destruct i; contradiction Hv|].
  apply Forall_cons_iff in F. destruct F as [Ha F].
  destruct i as [|i]; cbn [wpick pick_wf] in *; [apply Ha; assumption|apply IHl; assumption].
Qed.

Lemma NP_choice m alts std ext : Forall (NP m) alts -> NP m (TChoice alts std ext).
Proof.
  intros F v w Hv Hw Hs. destruct v; try contradiction Hv.
  cbn [wf_val] in Hv. change (pick_wf v alts (N.to_nat index)) in Hv.
  cbn [write_ty]. rewrite entry_none by exact Hs. cbn [bind].
  rewrite scope_stashed_none by exact Hs.
  apply np_bind'; [|intros; reflexivity].
  apply np_bind; [apply np_put, w_index_np|]. intros w1 E1.
  destruct (w_enumeration_index m std ext index) as [ib| |]; cbn [w_put bind] in E1; try discriminate E1.
  injection E1 as <-.
  destruct (std <=? index).
  - match goal with |- context [bind (if _ then Panic P_OTHER else ?X) _] =>
      change X with (wpick m v w_empty alts (N.to_nat index)) end.
    rewrite wpick_guarded. apply np_bind'.
    + apply wpick_np; [exact w_empty_wf|reflexivity|exact F|exact Hv].
    + intros sub. apply np_put, w_octetstring_np.
  - match goal with |- np (if _ then Panic P_OTHER else ?X) =>
      change X with (wpick m v (w_append w ib) alts (N.to_nat index)) end.
    rewrite wpick_guarded.
    apply wpick_np; [apply w_append_wf; exact Hw|exact Hs|exact F|exact Hv].
Qed.

(** ** SEQUENCE: the reference assembly never panics *)
Lemma add_payloads_np m : forall fs fes, np (add_payloads m fs fes).
Proof.
  induction fs as [|[k ft] fs IH]; intros [|[p b] fes]; try reflexivity.
  cbn [add_payloads]. apply np_bind'.
  - destruct (p && wraps k ft); [apply wrap_open_np|reflexivity].
  - intros x. apply np_bind'; [apply IH|intros; reflexivity].
Qed.

Lemma ext_part_np m afs afe : np (ext_part m afs afe).
Proof.
  unfold ext_part. destruct afe as [|[p1 b1] rest]; [reflexivity|]. destruct p1.
  - apply np_bind'; [apply w_normally_small_np|intros ns].
    apply np_bind'; [apply add_payloads_np|intros; reflexivity].
  - destruct (existsb fst rest); reflexivity.
Qed.

Lemma seq_assemble_np m fs fes ea : np (seq_assemble m fs fes ea).
Proof.
  unfold seq_assemble. destruct ea as [e|]; [|reflexivity].
  apply np_bind'; [apply ext_part_np|intros [eb xp]; reflexivity].
Qed.

(** ** SEQUENCE: one component *)
Definition val_ok (k : fkind) (ft : ty) (ov : option val) : Prop :=
  match ov with Some x => wf_val ft x | None => k = FOpt end.

(* values for a (prefix of a) component list *)
Fixpoint vals_ok (fs : list (fkind * ty)) (vals : list (option val)) : Prop :=
  match fs, vals with
  | [], _ => True
  | (k, ft) :: fs', ov :: vals' => val_ok k ft ov /\ vals_ok fs' vals'
  | _ :: _, [] => False
  end.

Lemma all_wf_vals_ok : forall fs vals, all_wf_vals fs vals -> vals_ok fs vals.
Proof.
  induction fs as [|[k ft] fs IH]; intros [|ov vals] H; try contradiction H; [exact I|].
  cbn [all_wf_vals] in H. destruct H as [H1 H2]. split; [exact H1|apply IH, H2].
Qed.

Lemma vals_ok_app : forall a b vals, vals_ok (a ++ b) vals ->
  vals_ok a vals /\ vals_ok b (skipn (length a) vals).
Proof.
  induction a as [|[k ft] a IH]; intros b vals H; cbn [app length skipn] in *; [split; [exact I|exact H]|].
  destruct vals as [|ov vals]; [contradiction H|]. cbn [vals_ok] in *. destruct H as [H1 H2].
  destruct (IH b vals H2) as [I1 I2]. tauto.
Qed.

Lemma entry_ok_wf m w o p w1 : wst_wf w -> write_bit_field_entry m w o p = Ok w1 -> wst_wf w1.
Proof.
  intros Hw H. unfold write_bit_field_entry in H. destruct (w_scope w) as [sc|] eqn:Esc.
  - apply (write_into_field_inv m w sc o p w1 Hw Esc H).
  - destruct o; injection H as <-; [apply w_append_wf|]; exact Hw.
Qed.

Lemma content_np m ft x w1 : NP m ft -> wf_val ft x -> wst_wf w1 ->
  np (with_buffer m w1 (fun w => scope_stashed w (fun w => write_ty m ft x w))).
Proof.
  intros HN Hx Hw1. rewrite stashed_content. destruct (wopen w1).
  - apply np_bind'; [apply HN; [exact Hx|exact w_empty_wf|reflexivity]|]. intros sub. apply np_put, wrap_open_np.
  - apply np_bind'; [apply HN; [exact Hx|exact Hw1|reflexivity]|intros; reflexivity].
Qed.

Lemma req_np m ft x w : NP m ft -> wf_val ft x -> wst_wf w ->
  np (write_bit_field_entry m w false true) -> np (write_ty m ft x w).
Proof.
  intros HN Hx Hw He. rewrite (write_ty_factor m ft x w (wf_val_shape _ _ Hx)).
  apply np_bind; [exact He|]. intros w1 E1. pose proof (entry_ok_wf m w _ _ w1 Hw E1) as Hw1.
  destruct (wopen w1 && negb (is_choice ft)).
  - apply np_bind'; [apply HN; [exact Hx|exact w_empty_wf|reflexivity]|]. intros sub. apply np_put, wrap_open_np.
  - apply np_bind'; [apply HN; [exact Hx|exact Hw1|reflexivity]|intros; reflexivity].
Qed.

Lemma wfield_np m k ft ov w : NP m ft -> val_ok k ft ov -> wst_wf w ->
  (forall p, np (write_bit_field_entry m w (is_optk k) p)) -> np (wfield m (k, ft) ov w).
Proof.
  intros HN Hv Hw He. destruct k as [| |d], ov as [x|]; cbn [wfield val_ok is_optk] in *; try discriminate Hv.
  - apply req_np; auto.
  - apply np_bind; [apply He|]. intros w1 E1. apply content_np; [exact HN|exact Hv|].
    apply (entry_ok_wf m w _ _ w1 Hw E1).
  - apply np_bind'; [apply He|intros; reflexivity].
  - cbv zeta. apply np_bind; [apply He|]. intros w1 E1. destruct (negb (val_eqb d x)); [|reflexivity].
    apply content_np; [exact HN|exact Hv|]. apply (entry_ok_wf m w _ _ w1 Hw E1).
Qed.

(* one step of the component walk: the component does not panic, and if it succeeds the walk
   continues from the state the exact-run lemma [wfield_spec] describes *)
Lemma wfields_step_np m k ft ov fs vals w sc :
  Wprop m ft -> NP m ft -> val_ok k ft ov -> wst_wf w -> w_scope w = Some sc ->
  (forall p, np (write_into_field m w sc (is_optk k) p)) ->
  (forall p b w1 w', enc_field m (k, ft) ov = Ok (p, b) ->
     write_into_field m w sc (is_optk k) p = Ok w1 ->
     (if p then wcontent m (wraps k ft) w1 b else Ok w1) = Ok w' ->
     np (wfields m fs vals w')) ->
  np (wfields m ((k, ft) :: fs) (ov :: vals) w).
Proof.
  intros HW HN Hv Hw Hsc He Hnext. rewrite wfields_cons. apply np_bind.
  - apply wfield_np; try assumption. intros p. unfold write_bit_field_entry. rewrite Hsc. apply He.
  - intros w' E. pose proof (wfield_spec m k ft ov w sc HW Hw Hsc) as S.
    destruct (enc_field m (k, ft) ov) as [[p b]| |]; try (rewrite E in S; discriminate S).
    rewrite S in E. destruct (write_into_field m w sc (is_optk k) p) as [w1| |] eqn:E1; cbn [bind] in E; try discriminate E.
    apply (Hnext p b w1 w' eq_refl E1 E).
Qed.

(** ** the three walks *)
Lemma empty_np m w0 X : wst_wf w0 -> forall afs vals,
  Forall (fun f => Wprop m (snd f)) afs -> Forall (fun f => NP m (snd f)) afs -> vals_ok afs vals ->
  np (wfields m afs vals (wstate w0 X ExtSeqEmpty)).
Proof.
  intros Hw. induction afs as [|[kd ft] afs IHl]; intros vals FW FN Hv; [reflexivity|].
  destruct vals as [|ov vals]; [contradiction Hv|]. cbn [vals_ok] in Hv. destruct Hv as [Hv1 Hv].
  apply Forall_cons_iff in FW. destruct FW as [HW FW]. apply Forall_cons_iff in FN. destruct FN as [HN FN].
  cbn [snd] in HW, HN.
  apply (wfields_step_np m kd ft ov afs vals _ ExtSeqEmpty HW HN Hv1 (wstate_wf _ _ _ Hw) eq_refl).
  - intros p. cbn [write_into_field]. destruct p; reflexivity.
  - intros p b w1 w' _ E1 Ec. cbn [write_into_field] in E1. destruct p; [discriminate E1|].
    injection E1 as <-. injection Ec as <-. apply IHl; assumption.
Qed.

Lemma wcontent_astate m wr w0 Pre k P b w' :
  wcontent m wr (astate w0 Pre k P) b = Ok w' -> exists y, w' = astate w0 Pre k (P ++ y).
Proof.
  unfold wcontent. change (wopen (astate w0 Pre k P)) with true. cbn [andb]. destruct wr.
  - destruct (wrap_open m b) as [y| |]; cbn [w_put bind]; intros H; try discriminate H.
    injection H as <-. exists y. apply astate_append.
  - intros H. injection H as <-. exists b. apply astate_append.
Qed.

Lemma all_np m w0 : wst_wf w0 -> forall afs vals Pre k P,
  Forall (fun f => Wprop m (snd f)) afs -> Forall (fun f => NP m (snd f)) afs -> vals_ok afs vals ->
  (length afs <= k)%nat ->
  np (wfields m afs vals (astate w0 Pre k P)).
Proof.
  intros Hw. induction afs as [|[kd ft] afs IHl]; intros vals Pre k P FW FN Hv Hk; [reflexivity|].
  destruct vals as [|ov vals]; [contradiction Hv|]. cbn [vals_ok] in Hv. destruct Hv as [Hv1 Hv].
  apply Forall_cons_iff in FW. destruct FW as [HW FW]. apply Forall_cons_iff in FN. destruct FN as [HN FN].
  cbn [snd] in HW, HN. cbn [length] in Hk.
  apply (wfields_step_np m kd ft ov afs vals (astate w0 Pre k P) (ascope w0 Pre k) HW HN Hv1 (wstate_wf _ _ _ Hw) eq_refl).
  - intros p. rewrite entry_all by (auto; lia). reflexivity.
  - intros p b w1 w' _ E1 Ec. rewrite entry_all in E1 by (auto; lia). injection E1 as <-.
    destruct p.
    + destruct (wcontent_astate _ _ _ _ _ _ _ _ Ec) as [y ->]. apply IHl; try assumption. lia.
    + injection Ec as <-. apply IHl; try assumption. lia.
Qed.

Lemma root_np m w0 : wst_wf w0 -> forall rfs vals Pre k P x,
  Forall (fun f => Wprop m (snd f)) rfs -> Forall (fun f => NP m (snd f)) rfs -> vals_ok rfs vals ->
  (nopt rfs <= k)%nat -> xge x (length rfs) ->
  np (wfields m rfs vals (rstate w0 Pre k P x)).
Proof.
  intros Hw. induction rfs as [|[kd ft] rfs IHl]; intros vals Pre k P x FW FN Hv Hk Hx; [reflexivity|].
  destruct vals as [|ov vals]; [contradiction Hv|]. cbn [vals_ok] in Hv. destruct Hv as [Hv1 Hv].
  apply Forall_cons_iff in FW. destruct FW as [HW FW]. apply Forall_cons_iff in FN. destruct FN as [HN FN].
  cbn [snd] in HW, HN. unfold nopt in Hk. cbn [filter fst] in Hk. cbn [length] in Hx.
  assert (Hx1 : xge x 1) by (destruct x as [[[bp c] nx]|]; cbn [xge] in *; lia).
  assert (Hk1 : is_optk kd = true -> (1 <= k)%nat) by (intros Ho; rewrite Ho in Hk; cbn [length] in Hk; lia).
  assert (Hx' : xge (xsub x 1) (length rfs)) by (destruct x as [[[bp c] nx]|]; cbn [xge xsub] in *; lia).
  apply (wfields_step_np m kd ft ov rfs vals (rstate w0 Pre k P x) (rscope w0 Pre k x) HW HN Hv1 (rstate_wf _ _ _ _ _ Hw) (rstate_scope _ _ _ _ _)).
  - intros p. rewrite entry_root by assumption. reflexivity.
  - intros p b w1 w' _ E1 Ec. rewrite entry_root in E1 by assumption. injection E1 as <-.
    destruct (is_optk kd) eqn:Eo.
    + assert (Hk' : (nopt rfs <= k - 1)%nat) by (unfold nopt; cbn [length] in Hk; lia).
      destruct p.
      * unfold wcontent in Ec. rewrite rstate_wopen in Ec. cbn [andb] in Ec. injection Ec as <-.
        rewrite rstate_append. apply IHl; assumption.
      * injection Ec as <-. apply IHl; assumption.
    + assert (Hk' : (nopt rfs <= k)%nat) by (unfold nopt; lia).
      destruct p.
      * unfold wcontent in Ec. rewrite rstate_wopen in Ec. cbn [andb] in Ec. injection Ec as <-.
        rewrite rstate_append. apply IHl; assumption.
      * injection Ec as <-. apply IHl; assumption.
Qed.

(* the additions, entered from the exhausted root scope *)
Lemma trans_np m w0 R opt nx : wst_wf w0 -> forall afs vals,
  Forall (fun f => Wprop m (snd f)) afs -> Forall (fun f => NP m (snd f)) afs -> vals_ok afs vals ->
  N.of_nat (length afs) = nx ->
  np (wfields m afs vals (wstate w0 (false :: R) (ExtSeq (w_n w0) opt 0 nx))).
Proof.
  intros Hw afs vals FW FN Hv Hn. destruct afs as [|[kd ft] afs]; [reflexivity|].
  destruct vals as [|ov vals]; [contradiction Hv|]. cbn [vals_ok] in Hv. destruct Hv as [Hv1 Hv].
  apply Forall_cons_iff in FW. destruct FW as [HW FW]. apply Forall_cons_iff in FN. destruct FN as [HN FN].
  cbn [snd] in HW, HN. cbn [length] in Hn.
  assert (Hnx : 1 <= nx) by lia.
  apply (wfields_step_np m kd ft ov afs vals _ (ExtSeq (w_n w0) opt 0 nx) HW HN Hv1 (wstate_wf _ _ _ Hw) eq_refl).
  - intros p. rewrite entry_trans by assumption. destruct p; [|reflexivity].
    apply np_bind'; [apply w_normally_small_np|intros; reflexivity].
  - intros p b w1 w' _ E1 Ec. rewrite entry_trans in E1 by assumption. destruct p.
    + destruct (w_normally_small m (nx - 1)) as [ns| |]; cbn [bind] in E1; try discriminate E1.
      injection E1 as <-. destruct (wcontent_astate _ _ _ _ _ _ _ _ Ec) as [y ->].
      apply all_np; try assumption. lia.
    + injection E1 as <-. injection Ec as <-. apply empty_np; assumption.
Qed.

(** ** SEQUENCE: the whole walk *)
Lemma walk_np_ext m fs vals w kr nx : wst_wf w -> (kr <= length fs)%nat ->
  nx = N.of_nat (length fs) - N.of_nat kr ->
  Forall (fun f => Wprop m (snd f)) fs -> Forall (fun f => NP m (snd f)) fs -> vals_ok fs vals ->
  np (wfields m fs vals (rstate w [false] (nopt (firstn kr fs)) [] (Some (w_n w, N.of_nat kr, nx)))).
Proof.
  intros Hw Hkr Hnx FW FN Hv.
  assert (E : fs = firstn kr fs ++ skipn kr fs) by (symmetry; apply firstn_skipn).
  assert (Hlr : length (firstn kr fs) = kr) by (apply firstn_skipn_len; exact Hkr).
  assert (Hla : length (skipn kr fs) = (length fs - kr)%nat) by apply skipn_length.
  remember (firstn kr fs) as r eqn:Er0. remember (skipn kr fs) as a eqn:Ea0. clear Er0 Ea0.
  subst fs. apply Forall_app in FW. destruct FW as [FWr FWa]. apply Forall_app in FN. destruct FN as [FNr FNa].
  apply vals_ok_app in Hv. destruct Hv as [Hvr Hva].
  rewrite wfields_app. apply np_bind.
  - apply root_np; try assumption; [lia|cbn [xge]; lia].
  - intros w1 E1.
    destruct (enc_fields m r vals) as [rfe| |] eqn:Er.
    2,3: pose proof (wfields_fail m r vals _ _ FWr (rstate_wf w [false] (nopt r) [] (Some (w_n w, N.of_nat kr, nx)) Hw)
                       (rstate_scope _ _ _ _ _) ltac:(rewrite Er; reflexivity)) as C;
         rewrite E1 in C; discriminate C.
    rewrite (root_walk m w Hw r vals rfe _ _ _ _ FWr Er) in E1 by (try lia; cbn [xge]; lia).
    injection E1 as <-. rewrite Nat.sub_diag, Hlr. cbn [xsub]. rewrite N.sub_diag.
    unfold rstate. cbn [root_scope app repeat].
    apply trans_np; try assumption; [rewrite <- Hlr; exact Hva|rewrite app_length in Hnx; lia].
Qed.

Lemma seq_fail_np m fs so fc ea vals w :
  Forall (fun f => Wprop m (snd f)) fs -> Forall (fun f => NP m (snd f)) fs ->
  seq_consts_ok fs so fc ea -> vals_ok fs vals -> wst_wf w -> w_scope w = None ->
  is_ok (enc_fields m fs vals) = false ->
  np (write_ty m (TSeq fs so fc ea) (VSeq vals) w).
Proof.
  intros FW FN (Hfc & Hlim & Hea & Hso) Hv Hw Hs Hno.
  rewrite write_ty_seq_eq, entry_none by exact Hs. cbn [bind]. rewrite with_buffer_none by exact Hs. cbv zeta.
  destruct ea as [e|]; cbn [root_len] in Hso.
  - rewrite usub_ok by lia. cbn [bind]. rewrite scope_pushed_eq by exact Hs.
    apply np_notok_bind.
    + eapply (wfields_fail m fs vals _ _ FW); [|reflexivity|exact Hno].
      apply w_set_scope_wf. repeat apply w_append_wf. exact Hw.
    + set (kr := S (N.to_nat e)) in *.
      rewrite Hso, Nat2N.id. replace (e + 1) with (N.of_nat kr) by (unfold kr; lia).
      rewrite init_ext. apply walk_np_ext; try assumption; [unfold kr; lia|lia].
  - rewrite scope_pushed_eq by exact Hs. rewrite firstn_all in Hso.
    apply np_notok_bind.
    + eapply (wfields_fail m fs vals _ _ FW); [|reflexivity|exact Hno].
      apply w_set_scope_wf. repeat apply w_append_wf. exact Hw.
    + rewrite Hso, Nat2N.id, init_none by exact Hs.
      apply root_np; try assumption; try exact I; lia.
Qed.

Lemma NP_seq m fs so fc ea :
  Forall (fun f => Wprop m (snd f)) fs -> Forall (fun f => NP m (snd f)) fs ->
  seq_consts_ok fs so fc ea -> NP m (TSeq fs so fc ea).
Proof.
  intros FW FN Hc v w Hv Hw Hs. destruct v; try contradiction Hv.
  cbn [wf_val] in Hv. change (all_wf_vals fs fields) in Hv. apply all_wf_vals_ok in Hv.
  destruct (enc_fields m fs fields) as [fes| |] eqn:E.
  - rewrite (seq_write_exact m fs so fc ea fields fes w FW Hc Hw Hs E). apply np_put, seq_assemble_np.
  - apply seq_fail_np; try assumption. rewrite E. reflexivity.
  - apply seq_fail_np; try assumption. rewrite E. reflexivity.
Qed.

(** ** every type *)
Theorem write_ty_np m t : wf_ty t -> NP m t.
Proof.
  induction t as [| |k lo hi ext|c lo hi ext|lo hi ext|lo hi ext|e lo hi ext IH|fs so fc ea IH|alts std ext IH|vc std ext]
    using ty_ind'; intros Hty.
  1-6,10: intros v w Hv Hw Hs;
    match goal with |- np (write_ty _ ?t _ _) =>
      pose proof (write_flat_eq m t v w Hs) as E; pose proof (enc_flat_np m t v Hv) as N end;
    cbv beta iota in E, N; rewrite E; apply np_put, N.
  - cbn [wf_ty] in Hty. destruct Hty as [_ Hty]. apply NP_list; [apply write_enc, Hty|apply IH, Hty].
  - apply wf_ty_seq in Hty. destruct Hty as [Hc Hf]. apply all_wf_fields_Forall in Hf.
    apply NP_seq; [| |exact Hc]; rewrite Forall_forall in *; intros f Hin.
    + apply write_enc, Hf, Hin.
    + apply IH; [exact Hin|apply Hf; exact Hin].
  - cbn [wf_ty] in Hty. destruct Hty as (_ & _ & _ & _ & Ha). apply all_wf_ty_Forall in Ha.
    apply NP_choice. rewrite Forall_forall in *. intros a Hin. apply IH; [exact Hin|apply Ha; exact Hin].
Qed.

(** * rejection at every nesting depth *)
Theorem reject_nested m t v w :
  wf_ty t -> kinds_ok t -> wf_val t v -> wst_wf w -> w_scope w = None ->
  violates t v = true -> exists e, write_ty m t v w = Err e.
Proof.
  intros Hty Hk Hv Hw Hs H.
  pose proof (write_enc m t Hty v w Hw Hs) as S. unfold wsim in S.
  pose proof (violates_enc_fails m t Hk v Hv H) as F.
  pose proof (write_ty_np m t Hty v w Hv Hw Hs) as N. unfold np in N.
  destruct (write_ty m t v w) as [w'|e|p]; [|exists e; reflexivity|discriminate N].
  destruct (enc m t v); [discriminate F|discriminate S|discriminate S].
Qed.

(* inside any enclosing scope: never Ok; an error as soon as the bit-field entry of the
   enclosing scope does not panic *)
Theorem reject_nested_in_scope m t v w :
  wf_ty t -> kinds_ok t -> wf_val t v -> wst_wf w -> violates t v = true ->
  is_ok (write_ty m t v w) = false /\
  (np (write_bit_field_entry m w false true) -> exists e, write_ty m t v w = Err e).
Proof.
  intros Hty Hk Hv Hw H.
  assert (R : forall w0, wst_wf w0 -> w_scope w0 = None -> exists e, write_ty m t v w0 = Err e).
  { intros w0 Hw0 Hs0. apply reject_nested; assumption. }
  rewrite (write_ty_factor m t v w (wf_val_shape _ _ Hv)).
  destruct (write_bit_field_entry m w false true) as [w1|e|p] eqn:E1; cbn [bind].
  - pose proof (entry_ok_wf m w _ _ w1 Hw E1) as Hw1.
    assert (X : exists e, (if wopen w1 && negb (is_choice t)
                 then let! sub := write_ty m t v w_empty in w_put w1 (wrap_open m (w_bits sub))
                 else let! w2 := write_ty m t v (w_set_scope w1 None) in Ok (w_set_scope w2 (w_scope w1))) = Err e).
    { destruct (wopen w1 && negb (is_choice t)).
      - destruct (R w_empty w_empty_wf eq_refl) as [e ->]. exists e. reflexivity.
      - destruct (R (w_set_scope w1 None) Hw1 eq_refl) as [e ->]. exists e. reflexivity. }
    destruct X as [e ->]. split; [reflexivity|intros _; exists e; reflexivity].
  - split; [reflexivity|intros _; exists e; reflexivity].
  - split; [reflexivity|intros C; discriminate C].
Qed.

(** * never a wrong encoding: whatever the writer accepts decodes to the value itself *)
Theorem no_other_value m t v w w' :
  wf_ty t -> wf_val t v -> ~ Known_C01 m t v -> wst_wf w -> w_scope w = None ->
  write_ty m t v w = Ok w' ->
  exists bs, w_bits w' = w_bits w ++ bs /\
    forall s tail v' r', rsrc s bs tail -> read_ty m t (r_of_src s) = Ok (v', r') -> v' = v.
Proof.
  intros Hty Hv Hk Hw Hs H.
  destruct (C01_roundtrip_thm m t v w w' Hty Hv Hk Hw Hs H) as (bs & Hb & _ & _ & Hr).
  exists bs. split; [exact Hb|]. intros s tail v' r' Hsrc E. rewrite (Hr s tail Hsrc) in E. congruence.
Qed.

(** * extensible constraints: an out-of-root value is written in the extension form (leading
      extension bit 1) and reads back *)
Lemma ext_int_out_of_root m k lo hi z w :
  wf_ty (TInt k lo hi true) -> ik_fitsb k z = true -> is_i64 z ->
  (z < opt_or lo 0 \/ opt_or hi I64_MAXz < z)%Z -> wst_wf w -> w_scope w = None ->
  exists bs, write_ty m (TInt k lo hi true) (VInt z) w = Ok (w_append w (true :: bs)) /\
    forall s tail, rsrc s (true :: bs) tail ->
      read_ty m (TInt k lo hi true) (r_of_src s)
      = Ok (VInt z, r_of_src (src_adv s (bl (true :: bs)) tail)).
Proof.
  intros Hty Hz Hi Hr Hw Hs.
  assert (E : enc m (TInt k lo hi true) (VInt z) = Ok (true :: x_unconstrained z)).
  { cbn [enc]. unfold int_enc. rewrite to_i64_id by exact Hi.
    assert (((z <? opt_or lo 0) || (opt_or hi I64_MAXz <? z))%Z = true) as -> by lia.
    rewrite unconstrained_write by exact Hi. reflexivity. }
  exists (x_unconstrained z). split.
  - pose proof (write_flat_eq m (TInt k lo hi true) (VInt z) w Hs) as F. cbv beta iota in F.
    rewrite F, E. reflexivity.
  - intros s tail Hsrc. apply (read_enc m _ Hty (VInt z) _ E Hz (fun C => C) s tail Hsrc).
Qed.

Lemma ext_octets_out_of_root m lo hi bytes w :
  wf_ty (TOctets lo hi true) -> wf_val (TOctets lo hi true) (VOctets bytes) ->
  blen bytes < opt_or lo 0 \/ opt_or hi I64_MAX < blen bytes -> wst_wf w -> w_scope w = None ->
  exists bs, write_ty m (TOctets lo hi true) (VOctets bytes) w = Ok (w_append w (true :: bs)) /\
    forall s tail, rsrc s (true :: bs) tail ->
      read_ty m (TOctets lo hi true) (r_of_src s)
      = Ok (VOctets bytes, r_of_src (src_adv s (bl (true :: bs)) tail)).
Proof.
  intros Hty Hv Hr Hw Hs. pose proof Hv as Hv'. cbn [wf_val] in Hv'. destruct Hv' as [_ Hlen].
  assert (Hn : blen bytes < two63) by (unfold SIZE_LIMIT in Hlen; unfold two63; lia).
  destruct (octetstring_write_ext m lo hi bytes Hn Hr) as [E _]. cbv zeta in E.
  eexists. split.
  - pose proof (write_flat_eq m (TOctets lo hi true) (VOctets bytes) w Hs) as F. cbv beta iota in F.
    rewrite F. cbn [enc]. rewrite E. reflexivity.
  - intros s tail Hsrc. apply (read_enc m _ Hty (VOctets bytes) _ E Hv); [|exact Hsrc].
    cbn [Known_C01]. intros [_ C]. lia.
Qed.

(** * non-vacuity *)
(* SEQUENCE { a INTEGER(0..7), b SEQUENCE OF SEQUENCE { c IA5String(SIZE(1..3)) OPTIONAL } } *)
Definition ex6_inner : ty := TSeq [(FOpt, TStr Ia5 (Some 1) (Some 3) false)] 1 1 None.
Definition ex6_ty : ty :=
  TSeq [(FReq, TInt U8 (Some 0%Z) (Some 7%Z) false); (FReq, TListOf ex6_inner None None false)] 0 2 None.
(* the second list element carries a 4-character string: seq -> list -> seq -> string *)
Definition ex6_bad : val :=
  VSeq [Some (VInt 3); Some (VList [VSeq [Some (VStr [65])]; VSeq [None]; VSeq [Some (VStr [65; 66; 67; 68])]])].
Definition ex6_good : val :=
  VSeq [Some (VInt 3); Some (VList [VSeq [Some (VStr [65])]; VSeq [None]; VSeq [Some (VStr [65; 66; 67])]])].

Lemma scalar_small c : c < 55296 -> scalar c. Proof. intros H; left; exact H. Qed.

Lemma nonvacuous_nested :
  wf_ty ex6_ty /\ kinds_ok ex6_ty /\ wf_val ex6_ty ex6_bad /\ wf_val ex6_ty ex6_good /\
  violates ex6_ty ex6_bad = true /\ violates ex6_ty ex6_good = false /\
  write_ty dev_mode ex6_ty ex6_bad w_empty = Err E_SIZE_RANGE /\
  write_ty release_mode ex6_ty ex6_bad w_empty = Err E_SIZE_RANGE /\
  is_ok (write_ty dev_mode ex6_ty ex6_good w_empty) = true.
Proof.
  split; [vm_compute; repeat split; try discriminate; try reflexivity|].
  split; [cbn; tauto|].
  split; [|split].
  - cbn [wf_val ex6_ty ex6_bad ex6_inner]. repeat split; try reflexivity;
      repeat (apply Forall_cons; [apply scalar_small; reflexivity|]); apply Forall_nil.
  - cbn [wf_val ex6_ty ex6_good ex6_inner]. repeat split; try reflexivity;
      repeat (apply Forall_cons; [apply scalar_small; reflexivity|]); apply Forall_nil.
  - vm_compute. repeat split.
Qed.

(* [violates] is tight: a DEFAULT component equal to its default is not encoded, so its value is
   not inspected (here the default itself lies outside 0..7); any other violating value is refused *)
Definition ex6d_ty : ty := TSeq [(FDef (VInt 9), TInt U8 (Some 0%Z) (Some 7%Z) false)] 1 1 None.

Lemma violates_tight :
  wf_ty ex6d_ty /\ kinds_ok ex6d_ty /\
  wf_val ex6d_ty (VSeq [Some (VInt 9)]) /\ violates ex6d_ty (VSeq [Some (VInt 9)]) = false /\
  write_ty dev_mode ex6d_ty (VSeq [Some (VInt 9)]) w_empty = Ok (w_append w_empty [false]) /\
  wf_val ex6d_ty (VSeq [Some (VInt 8)]) /\ violates ex6d_ty (VSeq [Some (VInt 8)]) = true /\
  write_ty dev_mode ex6d_ty (VSeq [Some (VInt 8)]) w_empty = Err E_VALUE_RANGE.
Proof.
  split; [vm_compute; repeat split; try discriminate; try reflexivity|].
  split; [cbn; tauto|].
  repeat split; vm_compute; reflexivity.
Qed.

(* [kinds_ok] is needed: a (never generated) descriptor pairing u64 with a negative lower bound
   accepts the u64 value 2^64 - 1, which the writer casts to -1 *)
Lemma kinds_ok_needed :
  let t := TInt U64 (Some (-5)%Z) (Some 10%Z) false in
  let v := VInt 18446744073709551615 in
  wf_ty t /\ wf_val t v /\ ~ kinds_ok t /\ violates t v = true /\
  is_ok (write_ty dev_mode t v w_empty) = true.
Proof.
  cbv zeta. split; [vm_compute; repeat split; discriminate|]. split; [reflexivity|].
  split; [cbn; lia|]. split; reflexivity.
Qed.
